"""C01 Calderon identities for the Laplace operators (DESIGN 3, C01)."""

import ast
import inspect
import itertools
import sys
import textwrap

import numpy as np

from vlib import sym as S
from vlib import kernelrun as KR
from vlib import symgrid as SG
from vlib import pipeline as PL
from vlib.framework import Run, proved, violated, undecided, held
from specs import galerkin as GS

PERMS = ["".join(map(str, p)) for p in itertools.permutations(range(3))]


def set_partitions(n):
    """All restricted-growth strings of length n (equality patterns)."""
    def rec(prefix, m):
        if len(prefix) == n:
            yield tuple(prefix)
            return
        for v in range(m + 2):
            yield from rec(prefix + [v], max(m, v))
    yield from rec([0], 0)


def ob_elements_adjacent():
    """post: elements_adjacent(elements, i, j) <=> the two elements share at least one vertex.
    frame: the function only compares entries of `elements` for equality, so its value depends on the equality pattern of the
    six entries alone; all 203 patterns (set partitions of 6 items) are enumerated -- complete for every grid."""
    from bempp_cl.core import numba_kernels as NK

    f = KR.pyfunc(NK.elements_adjacent)
    tree = ast.Module(body=ast.parse(textwrap.dedent(inspect.getsource(f))).body[0].body, type_ignores=[])
    for node in ast.walk(tree):
        if isinstance(node, ast.Compare) and not all(isinstance(o, ast.Eq) for o in node.ops):
            return undecided("elements_adjacent uses a comparison other than ==")
        if isinstance(node, (ast.BinOp, ast.Call)) and not isinstance(node, ast.BoolOp):
            return undecided("elements_adjacent contains arithmetic / calls; the equality-pattern argument does not apply")
    n = 0
    for pat in set_partitions(6):
        el = np.array([[pat[0], pat[3]], [pat[1], pat[4]], [pat[2], pat[5]]], dtype="uint32")
        for i, j in ((0, 1), (1, 0)):
            got = bool(f(el, i, j))
            want = bool(set(el[:, i]) & set(el[:, j]))
            n += 1
            if got != want:
                return violated("elements_adjacent(%s, %d, %d) = %s, elements share a vertex: %s" % (el.tolist(), i, j, got, want),
                                witness={"elements": el.tolist(), "i": i, "j": j},
                                replay={"callable": "checks.c01:replay_adjacent", "kwargs": {"elements": el.tolist(), "i": i, "j": j}, "confirmed": True},
                                signature="elements_adjacent")
    return proved("exhaustive-equality-patterns", "%d cases (203 equality patterns x 2 argument orders)" % n)


def replay_adjacent(elements, i, j):
    from bempp_cl.core import numba_kernels as NK

    el = np.array(elements, dtype="uint32")
    got = bool(KR.pyfunc(NK.elements_adjacent)(el, i, j))
    want = bool(set(el[:, i]) & set(el[:, j]))
    return {"violates": got != want, "observed": got, "required": want}


def ob_curl_lemma():
    """lemma: with the geometry produced by the real Grid._compute_geometric_quantities, n x (J^-T grad_ref lambda_i) equals
    (v_{i+1} - v_{i+2})/|J| and the three surface curls sum to zero (=> the hypersingular form annihilates element-wise constants)."""
    S.reset()
    el = np.array([[0], [1], [2]])
    g = SG.symbolic_geometry(el, 3)

    class D:
        pass

    d = D()
    d.vertices, d.elements, d.jacobians = g._vertices, el, g._jacobians
    d.jac_inv_trans, d.normals, d.integration_elements = g._jacobian_inverse_transposed, g._normals, g._integration_elements
    c1 = GS.FieldGeometry(d).curls(0, 1)
    c2 = GS.surface_curls(GS.Geometry(g._vertices, el), 0, 1)
    for i in range(3):
        for k in range(3):
            if not S.is_zero(c1[i][k] - c2[i][k]):
                w = S.find_witness(c1[i][k] - c2[i][k])
                return violated("surface curl %d component %d from (normals, jac_inv_trans) differs from (v_a - v_b)/|J|" % (i, k),
                                witness=w[0] if w else None, signature="curl-lemma")
    for k in range(3):
        if not S.is_zero(c1[0][k] + c1[1][k] + c1[2][k]):
            return violated("surface curls do not sum to zero", signature="curl-lemma")
    return proved("sym-normal-form", "9 components + sum identity on a generic triangle")


# ---------------------------------------------------------------------------------------------
# bounded: the Calderon residual itself
# ---------------------------------------------------------------------------------------------

CLOSED = {"tetra": SG.tetra, "octa": SG.octa, "cube12": SG.cube12}


def calderon_residuals(mesh, oreg, osing, transform=None):
    import bempp_cl.api as api
    from bempp_cl.api.operators.boundary import laplace, sparse
    from bempp_cl.api.utils.parameters import DefaultParameters

    v, e = CLOSED[mesh]()
    if transform == "moved":
        c, s = np.cos(0.7), np.sin(0.7)
        R = np.array([[c, -s, 0], [s, c, 0], [0, 0, 1.0]]) @ np.array([[1, 0, 0], [0, np.cos(0.4), -np.sin(0.4)], [0, np.sin(0.4), np.cos(0.4)]])
        v = 2.5 * (R @ v) + np.array([[10.0], [-3.0], [0.5]])
        perm = np.random.RandomState(3).permutation(e.shape[1])
        e = e[:, perm]
        e = np.roll(e, 1, axis=0)
    off = np.zeros((3, 1))
    if transform == "far":
        # map-style coordinates: the same mesh far from the origin compared with its size (offsets that are not dyadic numbers); the affine functions below are
        # taken relative to the translated origin, so the data g, psi are those of the original mesh
        off = np.array([[8.3e5], [-6.1e5], [3.7e5]])
        v = v + off
    grid = SG.make_grid(v, e)
    p1 = api.function_space(grid, "P", 1)
    dp0 = api.function_space(grid, "DP", 0)
    par = DefaultParameters()
    par.quadrature.regular = oreg
    par.quadrature.singular = osing
    V = laplace.single_layer(dp0, p1, p1, parameters=par).weak_form().to_dense()
    K = laplace.double_layer(p1, p1, p1, parameters=par).weak_form().to_dense()
    Kp = laplace.adjoint_double_layer(dp0, p1, p1, parameters=par).weak_form().to_dense()
    W = laplace.hypersingular(p1, p1, p1, parameters=par).weak_form().to_dense()
    M = sparse.identity(p1, p1, p1, parameters=par).weak_form().to_dense()
    Mp = sparse.identity(dp0, p1, p1, parameters=par).weak_form().to_dense()
    worst = [0.0, 0.0]
    for a, b in [((1, 0, 0), 0.3), ((0.2, -0.7, 0.5), -1.0), ((0, 0, 1), 2.0)]:
        a = np.array(a, dtype=float)
        g = a @ (grid.vertices - off) + b
        psi = grid.normals @ a
        r1 = (0.5 * M + K) @ g - V @ psi
        rhs2 = (0.5 * Mp - Kp) @ psi
        r2 = W @ g - rhs2
        worst[0] = max(worst[0], np.linalg.norm(r1) / np.linalg.norm(V @ psi))
        worst[1] = max(worst[1], np.linalg.norm(r2) / np.linalg.norm(rhs2))
    return worst


def ob_calderon(mesh, transform=None):
    """bounded: residuals of (1/2 M + K) g = V psi and W g = (1/2 M' - K') psi for three affine u.  Two clauses, reported separately:
    decay     - the residual decreases from orders (6,6) over (8,8) to (10,10) (pure quadrature error);
    threshold - it is <= 1e-6 relative at (10,10), or else at the largest orders of the statement's quantifier (regular 12, singular 10)."""
    import warnings

    warnings.simplefilter("ignore")
    seq = [(6, 6), (8, 8), (10, 10)]
    res = [calderon_residuals(mesh, a, b, transform) for a, b in seq]
    if max(res[-1]) > 1e-6:
        seq.append((12, 10))
        res.append(calderon_residuals(mesh, 12, 10, transform))
    txt = " ".join("(%d,%d): %.1e/%.1e" % (a, b, r[0], r[1]) for (a, b), r in zip(seq, res))
    tag = " (moved, renumbered)" if transform else ""
    out = []
    if all(max(res[i + 1]) < max(res[i]) for i in range(len(res) - 1)):
        out.append(("decay", held(txt)))
    else:
        out.append(("decay", violated("Calderon residual on %s%s does not decrease with the quadrature orders: %s" % (mesh, tag, txt), witness={"mesh": mesh, "transform": transform},
                                      replay={"callable": "checks.c01:replay_calderon", "kwargs": {"mesh": mesh, "transform": transform}, "confirmed": True},
                                      signature="calderon-decay/%s/%s" % (mesh, transform))))
    if max(res[-1]) <= 1e-6:
        out.append(("threshold", held(txt)))
    else:
        out.append(("threshold", violated("Calderon residual on %s%s does not fall below 1e-6 at the largest orders of the statement: %s" % (mesh, tag, txt),
                                          witness={"mesh": mesh, "transform": transform},
                                          replay={"callable": "checks.c01:replay_calderon", "kwargs": {"mesh": mesh, "transform": transform}, "confirmed": True},
                                          signature="calderon-threshold/%s/%s" % (mesh, transform))))
    return out


def ob_calderon_sequence(mesh):
    """bounded: "whatever the shape, size, position or element numbering of the mesh", also when several meshes are assembled in one process: the residuals on
    the moved / scaled / renumbered copy, assembled AFTER the original in the same interpreter, equal those of the original up to the scaling of the quadrature
    error (same orders; a copy that differs only by a similarity transformation and numbering has the same relative residual up to rounding)."""
    import warnings

    warnings.simplefilter("ignore")
    r1 = calderon_residuals(mesh, 8, 7)
    r2 = calderon_residuals(mesh, 8, 7, "moved")
    txt = "original %.1e/%.1e, moved+renumbered copy assembled afterwards %.1e/%.1e" % (r1[0], r1[1], r2[0], r2[1])
    if max(r2) > 3 * max(r1) + 1e-9 or max(r1) > 1e-3:
        return violated("Calderon residuals on %s at orders (8,7): %s" % (mesh, txt), witness={"mesh": mesh, "sequence": ["original", "moved"]},
                        replay={"callable": "checks.c01:replay_calderon_sequence", "kwargs": {"mesh": mesh}, "confirmed": True}, signature="calderon-sequence/%s" % mesh)
    return held(txt)


def ob_calderon_far(mesh):
    """bounded: "whatever the ... position ... of the mesh": the mesh translated by (8.3e5, -6.1e5, 3.7e5) has the residuals of the original (orders (8,7)) up to
    rounding of the coordinates (the operators depend on differences of points only)."""
    import warnings

    warnings.simplefilter("ignore")
    r1 = calderon_residuals(mesh, 8, 7)
    r2 = calderon_residuals(mesh, 8, 7, "far")
    txt = "original %.1e/%.1e, translated by (8.3e5, -6.1e5, 3.7e5) %.1e/%.1e" % (r1[0], r1[1], r2[0], r2[1])
    if max(r2) > 1.5 * max(r1) + 1e-8 or max(r1) > 1e-3:
        return violated("Calderon residuals on %s at orders (8,7): %s" % (mesh, txt), witness={"mesh": mesh, "transform": "far"},
                        replay={"callable": "checks.c01:replay_calderon_far", "kwargs": {"mesh": mesh}, "confirmed": True}, signature="calderon-far/%s" % mesh)
    return held(txt)


def replay_calderon_far(mesh):
    r = ob_calderon_far(mesh)
    return {"violates": r["status"] == "violated", "detail": r["detail"]}


def replay_calderon_sequence(mesh):
    r = ob_calderon_sequence(mesh)
    return {"violates": r["status"] == "violated", "detail": r["detail"]}


def ob_calderon_orders(mesh):
    """bounded: for every regular order 6..12 (singular order 8) both residuals stay below 5e-5 on the coarse mesh (they are 7e-6 .. 1e-7 on the
    unchanged tree): a quadrature rule that is wrong for one particular order shows up here."""
    import warnings

    warnings.simplefilter("ignore")
    worst = {}
    for oreg in range(6, 13):
        r = max(calderon_residuals(mesh, oreg, 8))
        worst[oreg] = r
        if r > 5e-5:
            return violated("Calderon residual on %s at regular order %d (singular 8) is %.2e" % (mesh, oreg, r), witness={"mesh": mesh, "regular": oreg, "singular": 8},
                            replay={"callable": "checks.c01:replay_calderon_orders", "kwargs": {"mesh": mesh}, "confirmed": True}, signature="calderon-orders/%s" % mesh)
    return held(" ".join("o%d: %.0e" % kv for kv in worst.items()))


def replay_calderon_orders(mesh):
    r = ob_calderon_orders(mesh)
    return {"violates": r["status"] == "violated", "detail": r["detail"]}


def replay_calderon(mesh, transform=None):
    rs = ob_calderon(mesh, transform)
    bad = [r for _, r in rs if r["status"] == "violated"]
    return {"violates": bool(bad), "detail": [r["detail"] for _, r in rs]}


def add_kernel_obligations(run, families=("laplace",)):
    tables = KR.kernel_tables()
    for mode in ("regular", "singular"):
        for fam in families:
            for layer in ("single_layer", "double_layer", "adjoint_double_layer"):
                key = "%s_%s" % (fam, layer)
                f = tables["kernel_functions_" + mode][key]
                run.under_contract(f, dropped="@numba.jit decorator options")
                run.add("numba_kernels.%s::map-rule" % KR.pyfunc(f).__name__, "frame", KR.ob_map_rule, key, mode)
                run.add("numba_kernels.%s::post" % KR.pyfunc(f).__name__, "post", KR.ob_code_equals_spec, key, mode)


SPACE_PAIRS = [(("P", 1, {"include_boundary_dofs": True}), ("DP", 0, {})),
               (("P", 1, {"include_boundary_dofs": True}), ("P", 1, {"include_boundary_dofs": True})),
               (("DP", 0, {}), ("DP", 0, {})),
               (("DP", 1, {}), ("DP", 1, {}))]


def main():
    run = Run("C01", "other")
    thorough = run.tier == "thorough"
    run.explanation = ("Deductive part: (i) the six Laplace kernel functions equal the Green's function and its normal derivatives with the "
                       "signs forced by the identities (symbolic execution, all points/normals); (ii) elements_adjacent <=> shared vertex "
                       "(exhaustive over equality patterns); (iii) the whole real pipeline assemble_dense + assemble_singular_part "
                       "(adjacency filter, offset tables, Duffy remaps, local2global, scatter through l2g and multipliers) is executed on "
                       "small real grids with symbolic vertex coordinates, generic quadrature rules and an uninterpreted kernel and equals "
                       "the Galerkin quadrature sum of specs/galerkin.py with every element pair integrated exactly once by the rule of its "
                       "adjacency class (bounded in mesh size: all 36+36 local numberings of an edge-/vertex-sharing pair, tetrahedron, "
                       "2x2 screen, non-manifold fan; unbounded in values); (iv) hypersingular assembler with free geometry fields + the "
                       "surface-curl element lemma. Bounded part: the Calderon residual itself on small closed meshes.")
    from bempp_cl.core import numba_kernels as NK, dense_assembler, singular_assembler

    add_kernel_obligations(run)
    run.under_contract(NK.elements_adjacent)
    run.add("numba_kernels.elements_adjacent::post", "post", ob_elements_adjacent)
    for f in (dense_assembler.assemble_dense, singular_assembler.assemble_singular_part, NK.default_scalar_regular_kernel,
              NK.default_scalar_singular_kernel, NK.laplace_hypersingular_regular, NK.laplace_hypersingular_singular,
              singular_assembler._SingularQuadratureRuleInterfaceGalerkin):
        run.under_contract(f, dropped="numeric dtypes of allocations (object arrays); kernel and quadrature rules replaced by contract stubs")
    dp1 = ("DP", 1, {})
    for share in (2, 1):
        for p0 in PERMS:
            for p1_ in PERMS:
                run.add("pipeline.default_scalar[pair share=%d %s/%s DP1xDP1]" % (share, p0, p1_), "post", PL.ob_pipeline, "pair:%d:%s:%s" % (share, p0, p1_), dp1, dp1)
    for mesh in ("tetra", "screen2", "fan3") + (("octa",) if thorough else ()):
        for ts, rs in SPACE_PAIRS:
            run.add("pipeline.default_scalar[%s %s%dx%s%d]" % (mesh, ts[0], ts[1], rs[0], rs[1]), "post", PL.ob_pipeline, mesh, ts, rs)
        run.add("pipeline.laplace_hypersingular[%s DP1xDP1]" % mesh, "post", PL.ob_pipeline, mesh, dp1, dp1, None, None, "laplace_hypersingular")
        run.add("pipeline.laplace_hypersingular[%s P1xP1]" % mesh, "post", PL.ob_pipeline, mesh, SPACE_PAIRS[1][0], SPACE_PAIRS[1][1], None, None, "laplace_hypersingular")
    for p0, p1_ in (("012", "012"), ("120", "201"), ("021", "102"), ("210", "120")):
        for share in (2, 1):
            run.add("pipeline.laplace_hypersingular[pair share=%d %s/%s]" % (share, p0, p1_), "post", PL.ob_pipeline, "pair:%d:%s:%s" % (share, p0, p1_), dp1, dp1, None, None, "laplace_hypersingular")
    run.add("lemma.surface-curls", "lemma", ob_curl_lemma)
    # the quadrature rules the pipeline contract abstracts are discharged against their own contracts for the orders of the statement
    from checks import c12

    for n in range(6, 13):
        run.add("callee.triangle_gauss.rule(%d)::moments" % n, "table", c12.ob_triangle, n)
    for n in range(6, 11):
        run.add("callee.gauss.rule(%d)::moments" % n, "table", c12.ob_gauss, n)
    for adj in c12.ADJ:
        run.add("callee.duffy_galerkin.rule(%s)::change-of-variables-exact(deg<=6)" % adj, "lemma", c12.ob_duffy_exact, adj, 6)
    run.add("calderon.all-regular-orders[octa]", "bounded", ob_calderon_orders, "octa")
    run.add("calderon.tetra", "bounded", ob_calderon, "tetra")
    run.add("calderon.octa", "bounded", ob_calderon, "octa")
    run.add("calderon.sequence[octa, then its moved and renumbered copy, one process]", "bounded", ob_calderon_sequence, "octa")
    run.add("calderon.position[octa translated by (8.3e5, -6.1e5, 3.7e5)]", "bounded", ob_calderon_far, "octa")
    if thorough:
        run.add("calderon.cube12", "bounded", ob_calderon, "cube12")
        run.add("calderon.octa.moved", "bounded", ob_calderon, "octa", "moved")
        run.add("calderon.tetra.moved", "bounded", ob_calderon, "tetra", "moved")
    run.bound("pipeline contracts: meshes with <= 8 elements (all 72 local numberings of an adjacent pair; tetrahedron; 2x2 screen; fan of 3), "
              "2 regular points, 3/2/1 singular points, generic values")
    run.bound("Calderon residual: tetrahedron, distorted octahedron (thorough: + cube, + moved/renumbered copies), three affine u, orders (6,6),(8,8),(10,10), JIT off")
    run.assume("mathematics: exact Galerkin matrices of affine data satisfy the Calderon identities; quadrature converges (the residual bound is only checked on the listed meshes)")
    run.assume("grid_valid: no two elements with the same vertex set; no degenerate elements")
    run.assume("the kernel contract stub stands for any kernel function with the regular/singular calling convention; the Laplace kernels are proved against their spec separately")
    run.assume("sparse.identity (the mass matrices M, M') is covered by C13")
    return run.finish()


if __name__ == "__main__":
    sys.exit(main())
