"""C02 Green's representation formula for the Laplace potentials (DESIGN 3, C02)."""

import sys
import warnings

import numpy as np

from vlib import sym as S
from vlib import symgrid as SG
from vlib import potential as PT
from vlib import zoo as Z
from vlib.framework import Run, proved, violated, undecided, held
from checks.c01 import add_kernel_obligations
from checks.c05 import _Recorder

DI = {"screen2": [1, 1, 2, 2, 1, 3, 2, 2], "octa": [1, 1, 2, 2, 1, 2, 2, 3], "tetra": [1, 2, 2, 1]}


def ob_factory(name):
    """post: potential.laplace.<name>(space, points, ...) builds PotentialOperator(PotentialAssembler(space, points, descriptor, device,
    assembler, parameters)) with descriptor kernel_type laplace_<name>, assembly 'default_scalar', real, kernel dimension 1, no options."""
    import bempp_cl.api.operators.potential.laplace as L
    import bempp_cl.api.operators as OPS
    import bempp_cl.api.assembly.potential_operator as PO
    import bempp_cl.api.assembly.assembler as AS

    rd, ra, rp = _Recorder("OperatorDescriptor"), _Recorder("PotentialAssembler"), _Recorder("PotentialOperator")
    saved = (OPS.OperatorDescriptor, PO.PotentialOperator, AS.PotentialAssembler)
    OPS.OperatorDescriptor, PO.PotentialOperator, AS.PotentialAssembler = rd, rp, ra
    try:
        out = getattr(L, name)("SPACE", "POINTS", "PARAMS", "ASSEMBLER", "DEVICE", "PRECISION")
    finally:
        OPS.OperatorDescriptor, PO.PotentialOperator, AS.PotentialAssembler = saved
    ok = len(rd.calls) == 1 and len(ra.calls) == 1 and len(rp.calls) == 1
    if ok:
        d = rd.calls[0][0]
        a = ra.calls[0][0]
        ok = (list(d[1]) == [] and d[2] == "laplace_" + name and d[3] == "default_scalar" and d[4] == "PRECISION" and d[5] is False and d[7] == 1
              and a[0] == "SPACE" and a[1] == "POINTS" and a[2] == ("result-of", "OperatorDescriptor", 1) and a[3] == "DEVICE" and a[4] == "ASSEMBLER"
              and a[5] == "PARAMS" and rp.calls[0][0][0] == ("result-of", "PotentialAssembler", 1) and out == ("result-of", "PotentialOperator", 1))
    if not ok:
        return violated("potential.laplace.%s builds a wrong descriptor / assembler: %s %s" % (name, rd.calls, ra.calls), signature="factory/" + name,
                        replay={"confirmed": False})
    return proved("exec+recording-stubs", "descriptor laplace_%s / default_scalar / real / dim 1" % name)


def ob_complex_split():
    """bounded: a real potential operator applied to a complex coefficient vector acts on real and imaginary parts."""
    import bempp_cl.api as api
    from bempp_cl.api.operators.potential import laplace

    warnings.simplefilter("ignore")
    g = Z.grid_with_domains("octa")
    sp = api.function_space(g, "P", 1)
    pts = np.array([[0.1, 2.0], [0.05, 0.3], [-0.1, 1.5]])
    rng = np.random.RandomState(2)
    x = rng.randn(sp.global_dof_count) + 1j * rng.randn(sp.global_dof_count)
    worst = 0.0
    for f in (laplace.single_layer, laplace.double_layer):
        op = f(sp, pts, parameters=Z.params(4, 4))
        fun = api.GridFunction(sp, coefficients=x)
        fr = api.GridFunction(sp, coefficients=x.real)
        fi = api.GridFunction(sp, coefficients=x.imag)
        a = op.evaluate(fun)
        b = op.evaluate(fr) + 1j * op.evaluate(fi)
        worst = max(worst, Z.relerr(a, b))
    if worst > 1e-13:
        return violated("real potential on complex density differs from real/imaginary split by %.2e" % worst, signature="complex-split", replay={"confirmed": True})
    return held("%.1e" % worst)


FAR = np.array([[4.0e5], [5.5e6], [120.0]])


def representation_error(mesh, refine, order, segmentwise=False, far=False):
    import bempp_cl.api as api
    from bempp_cl.api.operators.potential import laplace

    warnings.simplefilter("ignore")
    v, e = {"octa": SG.octa, "cube12": SG.cube12, "tetra": SG.tetra}[mesh]()
    di = None
    grid = SG.make_grid(v, e)
    for _ in range(refine):
        grid = grid.refine()
    if far:
        # "for every closed surface": the same surface in map-style coordinates, far from the origin compared with its size
        grid = SG.make_grid(grid.vertices + FAR, grid.elements)
    if segmentwise == "extended":
        # segment 2: a cap plus isolated single triangles, so that segment-edge vertices with exactly one, two, ... outside elements all occur
        z = grid.centroids[:, 2]
        cut = np.quantile(z, 0.6)
        di = np.array([2 if (z[i] > cut or (z[i] < cut - 0.3 and i % 9 == 4)) else 1 for i in range(grid.number_of_elements)], dtype="uint32")
        grid = SG.make_grid(grid.vertices, grid.elements, di)
    elif segmentwise == "listed":
        # four domain ids (0 among them); each piece names two of them, in an order that is neither ascending nor the order of first occurrence
        zc, xc = grid.centroids[:, 2], grid.centroids[:, 0]
        di = np.array([2 * int(zc[i] > np.median(zc)) + int(xc[i] > np.median(xc)) for i in range(grid.number_of_elements)], dtype="uint32")
        grid = SG.make_grid(grid.vertices, grid.elements, di)
    elif segmentwise:
        di = np.array([1 + (c[2] > np.median(grid.centroids[:, 2])) for c in grid.centroids], dtype="uint32")
        grid = SG.make_grid(grid.vertices, grid.elements, di)
    # potentials must depend on the REGULAR order only: the singular order is kept small and fixed
    par = Z.params(order, 2)
    h = grid.maximum_element_diameter
    cen = grid.vertices.mean(axis=1)
    inside = np.array([cen + d for d in ([0, 0, 0], [0.08, 0.03, -0.05], [-0.06, 0.05, 0.04])]).T
    outside = np.array([cen + d for d in ([3.0, 0.2, 0.1], [-0.4, 2.8, 0.3], [0.5, -0.6, -3.1])]).T
    # keep only interior points at least one element diameter from the surface
    dist = np.array([np.min(np.linalg.norm(grid.centroids - p, axis=1)) for p in inside.T])
    inside = inside[:, dist >= h]
    if inside.shape[1] == 0:
        raise RuntimeError("no interior point one diameter away from the surface (h=%.2f)" % h)
    pts = np.hstack([inside, outside])
    worst = 0.0
    for a, b in (((1.0, 0, 0), 0.3), ((0.2, -0.7, 0.5), -1.0)):
        a = np.array(a)
        if far:
            b = b - float(a @ FAR[:, 0])      # the same affine function in local coordinates: u = a.(x - c) + b stays O(1) on the surface
        total = np.zeros(pts.shape[1])
        pieces = [{"segments": [1]}, {"segments": [2]}] if segmentwise else [{}]
        if segmentwise == "listed":
            pieces = [{"segments": [3, 0]}, {"segments": [2, 1, 2]}]
        for kw in pieces:
            if segmentwise == "extended":
                # the other documented way to split a continuous trace: piece 1 carries the hat functions of its closed segment, continued into the neighbouring
                # elements (boundary dofs, no truncation); piece 2 only the hat functions of its interior vertices
                p1 = api.function_space(grid, "P", 1, include_boundary_dofs=(kw["segments"] == [1]), truncate_at_segment_edge=False, **kw)
            else:
                p1 = api.function_space(grid, "P", 1, include_boundary_dofs=True, truncate_at_segment_edge=True, **kw) if segmentwise else api.function_space(grid, "P", 1)
            dp0 = api.function_space(grid, "DP", 0, **kw)
            slp = laplace.single_layer(dp0, pts, parameters=par)
            dlp = laplace.double_layer(p1, pts, parameters=par)
            # coefficients of u in the (segment) spaces: vertex values / element normal derivative
            gcoef = np.zeros(p1.global_dof_count)
            for E in p1.support_elements:
                for f in range(3):
                    if p1.local_multipliers[E, f] != 0:      # slots without dof map to another dof of the element
                        gcoef[p1.local2global[E, f]] = a @ grid.vertices[:, grid.elements[f, E]] + b
            psi = np.zeros(dp0.global_dof_count)
            for E in dp0.support_elements:
                psi[dp0.local2global[E, 0]] = grid.normals[E] @ a
            total = total + (slp.evaluate(api.GridFunction(dp0, coefficients=psi)) - dlp.evaluate(api.GridFunction(p1, coefficients=gcoef))).ravel()
        exact = np.concatenate([a @ inside + b, np.zeros(outside.shape[1])])
        scale = np.max(np.abs(a @ inside + b))
        worst = max(worst, float(np.max(np.abs(total - exact)) / scale))
    return worst, inside.shape[1], h


def ob_representation(mesh, refine, segmentwise=False, far=False):
    """bounded: SLP[a.n](x) - DLP[u](x) == u(x) inside / 0 outside, relative error <= 1e-6 at regular order >= 8 (10), decreasing from 4."""
    errs = {}
    for o in (4, 8, 10):
        errs[o], nin, h = representation_error(mesh, refine, o, segmentwise, far)
    ok = errs[10] <= 1e-6 and errs[8] <= 1e-5 and errs[8] < errs[4]
    txt = "h=%.2f, %d interior pts; errors o4 %.1e o8 %.1e o10 %.1e" % (h, nin, errs[4], errs[8], errs[10])
    if not ok:
        return violated("representation formula on %s (refined %d%s): %s" % (mesh, refine, ", segment-wise pieces" if segmentwise else "", txt),
                        witness={"mesh": mesh, "refine": refine, "segmentwise": segmentwise},
                        replay={"callable": "checks.c02:replay_representation", "kwargs": {"mesh": mesh, "refine": refine, "segmentwise": segmentwise, "far": far}, "confirmed": True},
                        signature="representation/%s/%d/%s" % (mesh, refine, segmentwise))
    return held(txt)


def replay_point_batches():
    """Native: "for every evaluation point x": the value at a point does not depend on which other points are evaluated with it - the same 5 interior / exterior points
    evaluated in batches of 1, 2, 3, 4 and 5 (3 x n arrays, n = 3 included) give the same values, and each batch satisfies the representation formula."""
    import bempp_cl.api as api
    from bempp_cl.api.operators.potential import laplace

    warnings.simplefilter("ignore")
    grid = SG.make_grid(*SG.octa())
    for _ in range(2):
        grid = grid.refine()
    par = Z.params(10, 2)
    cen = grid.vertices.mean(axis=1)
    pts = np.array([cen + d for d in ([0.05, 0.02, -0.04], [-0.08, 0.05, 0.03], [0.02, -0.07, 0.06], [3.0, 0.2, 0.1], [-0.4, 2.8, 0.3])]).T
    a, b = np.array([0.2, -0.7, 0.5]), 0.3
    p1, dp0 = api.function_space(grid, "P", 1), api.function_space(grid, "DP", 0)
    gcoef = a @ grid.vertices + b
    psi = grid.normals @ a
    exact = np.concatenate([a @ pts[:, :3] + b, np.zeros(2)])
    failing = []

    def value(P):
        s_ = laplace.single_layer(dp0, P, parameters=par).evaluate(api.GridFunction(dp0, coefficients=psi))
        d_ = laplace.double_layer(p1, P, parameters=par).evaluate(api.GridFunction(p1, coefficients=gcoef))
        return (s_ - d_).ravel()

    full = value(pts)
    for n in (1, 2, 3, 4):
        for start in range(0, 5 - n + 1, max(1, n - 1)):
            sub = value(np.ascontiguousarray(pts[:, start:start + n]))
            err = float(np.abs(sub - exact[start:start + n]).max())
            dev = float(np.abs(sub - full[start:start + n]).max())
            if err > 1e-6 or dev > 1e-12:
                failing.append("points %d..%d evaluated as a batch of %d: error %.2e against u(x) / 0, deviation %.2e from the batch of 5" % (start, start + n - 1, n, err, dev))
    return {"violates": bool(failing), "failing": failing}


def ob_point_batches():
    """bounded: see replay_point_batches"""
    r = replay_point_batches()
    if r["violates"]:
        return violated("the representation formula depends on how the evaluation points are batched: %s" % r["failing"][:3], witness={"failing": r["failing"]}, signature="point-batches",
                        replay={"callable": "checks.c02:replay_point_batches", "kwargs": {}, "confirmed": True, "result": r})
    return held("batches of 1..5 points agree and satisfy the formula")


def ob_order_sweep(mesh, refine):
    """bounded: "all regular quadrature orders >= 8": the representation error is <= 1e-6 relative at EVERY regular order 8..20 of the rule table
    (each order maps to its own stored rule, so a single bad table entry or offset is visible at one order only)."""
    errs = {o: representation_error(mesh, refine, o)[0] for o in range(8, 21)}
    bad = {o: e for o, e in errs.items() if not e <= 1e-6}
    if bad:
        return violated("representation formula on %s (refined %d): relative error above 1e-6 at regular order(s) %s" % (mesh, refine, {o: "%.1e" % e for o, e in bad.items()}),
                        witness={"mesh": mesh, "refine": refine, "orders": sorted(bad)}, signature="representation-order/%s" % mesh,
                        replay={"callable": "checks.c02:replay_order_sweep", "kwargs": {"mesh": mesh, "refine": refine, "orders": sorted(bad)}, "confirmed": True})
    return held("orders 8..20: worst %.1e (order %d)" % (max(errs.values()), max(errs, key=errs.get)))


def replay_order_sweep(mesh, refine, orders):
    errs = {o: representation_error(mesh, refine, o)[0] for o in orders}
    return {"violates": any(not e <= 1e-6 for e in errs.values()), "errors": {str(o): e for o, e in errs.items()}}


def replay_representation(mesh, refine, segmentwise=False, far=False):
    r = ob_representation(mesh, refine, segmentwise, far)
    return {"violates": r["status"] == "violated", "detail": r["detail"]}


SPACES = [("DP", 0, {}), ("P", 1, {}), ("DP", 1, {}), ("P", 1, {"segments": [1, 2]}), ("DP", 0, {"segments": [2]}),
          ("P", 1, {"segments": [2], "include_boundary_dofs": True, "truncate_at_segment_edge": False}), ("DP", 1, {"segments": [1], "swapped_normals": [1]})]


def main():
    run = Run("C02", "other")
    thorough = run.tier == "thorough"
    run.explanation = ("Deductive: Laplace kernels == Green's function / normal derivative (all values); the real potential pipeline "
                       "(PotentialAssembler.evaluate -> map_to_full_grid -> default_scalar_potential_kernel) executed on small real grids with "
                       "symbolic geometry, coefficients, evaluation points and quadrature rule equals the closed-form kernel sum with the "
                       "coefficient map T, for whole-grid and segment-wise spaces (bounded in mesh size); factories build the right descriptor. "
                       "Bounded: the representation formula itself on refined small closed meshes.")
    from bempp_cl.core import numba_kernels as NK, dense_potential_assembler as DPA
    from bempp_cl.api.assembly import assembler as AS
    import bempp_cl.api.operators.potential.laplace as L

    add_kernel_obligations(run)
    for f in (NK.default_scalar_potential_kernel, DPA.DensePotentialAssembler, AS.PotentialAssembler.evaluate, NK.get_normals, NK.get_global_points):
        run.under_contract(f, dropped="numeric dtypes; scipy sparse T replaced by its dense array for object-vector products")
    for mesh in ("tetra", "screen2") + (("octa",) if thorough else ()):
        for sp in SPACES:
            for key in ("laplace_single_layer", "laplace_double_layer"):
                run.add("potential.%s[%s %s%d %s] (kernel stub)" % (key, mesh, sp[0], sp[1], sorted(sp[2].items())), "post", PT.ob_potential, mesh, sp, key, "stub", DI[mesh])
    for sp in SPACES[:3]:
        for key in ("laplace_single_layer", "laplace_double_layer"):
            run.add("potential.%s[tetra %s%d] (real kernel == closed form)" % (key, sp[0], sp[1]), "post", PT.ob_potential, "tetra", sp, key, "real", None, "noparam")
    for name in ("single_layer", "double_layer"):
        run.under_contract(getattr(L, name))
        run.add("operators.potential.laplace.%s::descriptor" % name, "post", ob_factory, name)
    run.add("PotentialAssembler.evaluate::complex-split", "bounded", ob_complex_split)
    # "spaces assembled from segment-wise pieces": which elements a piece covers (space._process_segments) - deductive block contract, for every grid size and
    # every list of domain ids as a set (the native link for list order / repetitions is an obligation of C03)
    from vlib import vrun as VR

    VR.add_block(run, "contracts.dofmap_blocks", "_process_segments_block")
    run.add("representation.octa(refined 2)", "bounded", ob_representation, "octa", 2)
    run.add("representation.octa(refined 2): every regular order 8..20", "bounded", ob_order_sweep, "octa", 2)
    run.add("representation.octa(refined 2): point batches of size 1..5", "bounded", ob_point_batches)
    run.add("representation.octa(refined 2, trace split into an extended piece and an interior piece)", "bounded", ob_representation, "octa", 2, "extended")
    run.add("representation.octa(refined 2, pieces given as unordered lists of domain ids)", "bounded", ob_representation, "octa", 2, "listed")
    run.add("representation.octa(refined 2, translated to (4e5, 5.5e6, 120))", "bounded", ob_representation, "octa", 2, False, True)
    if thorough:
        run.add("representation.cube12(refined 3)", "bounded", ob_representation, "cube12", 3)
        run.add("representation.octa(refined 2, segment-wise pieces)", "bounded", ob_representation, "octa", 2, True)
        run.add("representation.octa(refined 3)", "bounded", ob_representation, "octa", 3)
    run.bound("potential contract: meshes with <= 8 elements, 2 quadrature points, 2 evaluation points, generic values")
    run.bound("representation formula: octahedron refined twice (thorough: + cube, + segment-wise, + refined 3x); 3 interior points >= one diameter from the surface, 3 exterior; orders 4, 8, 10")
    run.assume("mathematics: Green's representation theorem for harmonic (affine) u; quadrature convergence")
    run.assume("scipy sparse product A @ x equals the dense product (used for map_to_full_grid)")
    return run.finish()


if __name__ == "__main__":
    sys.exit(main())
