"""C03 equivariance under motion, scaling and relabelling (DESIGN 3, C03)."""

import itertools
import sys
import warnings

import numpy as np

from vlib import sym as S
from vlib import kernelrun as KR
from vlib import symgrid as SG
from vlib import pipeline as PL
from vlib import zoo as Z
from vlib.framework import Run, proved, violated, undecided, held
from specs import kernels as KS

PERMS = ["".join(map(str, p)) for p in itertools.permutations(range(3))]
HOMOGENEITY = {"single_layer": 1, "double_layer": 2, "adjoint_double_layer": 2}


def _rot(axis, c, s, v):
    i, j = [(1, 2), (2, 0), (0, 1)][axis]
    out = list(v)
    out[i] = c * v[i] - s * v[j]
    out[j] = s * v[i] + c * v[j]
    return out


def _apply(transform, X, is_point, env):
    """Apply the transform to a (3,) or (3,n) array of coordinates (points) or directions (normals)."""
    X = np.asarray(X, dtype=object)
    cols = [X] if X.ndim == 1 else [X[:, j] for j in range(X.shape[1])]
    outc = []
    for v in cols:
        v = list(v)
        if transform == "translate":
            w = [v[i] + env["t"][i] for i in range(3)] if is_point else v
        elif transform.startswith("rotate"):
            w = _rot(int(transform[-1]), env["c"], env["s"], v)
        elif transform == "scale":
            w = [v[i] * env["a"] for i in range(3)] if is_point else v
        outc.append(w)
    if X.ndim == 1:
        out = np.empty(3, dtype=object)
        for i in range(3):
            out[i] = outc[0][i]
        return out
    out = np.empty(X.shape, dtype=object)
    for j, w in enumerate(outc):
        for i in range(3):
            out[i, j] = w[i]
    return out


def ob_kernel_invariance(key, mode, transform):
    """lemma: K(gx, gy; g n_x, g n_y; k) == K(x, y; n_x, n_y; k) for translations and rotations about each coordinate axis
    (generators of the rigid motions), and K(a x, a y; n; k/a) == a^-h K(x, y; n; k) for a > 0."""
    out = []
    for case, _ in KR.param_cases(key):
        S.reset()
        par = [c for c in KR.param_cases(key) if c[0] == case][0][1]
        X, Y, NX, NY = KR.inputs(mode, 1)
        env = {}
        if transform == "translate":
            env["t"] = [S.var("t%d" % i) for i in range(3)]
        elif transform.startswith("rotate"):
            env["c"] = S.var("c")
            env["s"] = S.alg("s", 1 - env["c"] * env["c"])
        else:
            env["a"] = S.var("a", positive=True)
        base = KR.run_real(key, mode, X, Y, NX, NY, par)[0]
        par2 = [p / env["a"] for p in par] if transform == "scale" else par
        moved = KR.run_real(key, mode, _apply(transform, X, True, env), _apply(transform, Y, True, env),
                            _apply(transform, NX, False, env), _apply(transform, NY, False, env), par2)[0]
        if transform == "scale":
            layer = key.split("_", 1)[1] if key.startswith("laplace") else key.replace("modified_helmholtz_", "").replace("helmholtz_", "")
            h = HOMOGENEITY[layer]
            d = moved * env["a"] ** h - base
        else:
            d = moved - base
        if S.is_zero(d):
            out.append((case, proved("sym-normal-form", "%s invariance of %s (%s)" % (transform, key, mode))))
            continue
        w = S.find_witness(d, seed=5)
        if w is None:
            out.append((case, undecided("normal form non-zero, no numeric witness")))
        else:
            out.append((case, violated("kernel %s (%s) is not %s-equivariant: difference %s at the witness" % (key, mode, transform, w[1]),
                                       witness=w[0], signature="invariance/%s/%s/%s" % (key, mode, transform),
                                       replay={"callable": "checks.c03:replay_invariance", "kwargs": {"key": key, "mode": mode, "transform": transform, "case": case, "env": w[0]},
                                               "confirmed": replay_invariance(key, mode, transform, case, w[0])["violates"]})))
    return out


def replay_invariance(key, mode, transform, case, env):
    X, Y, NX, NY = KR.numeric_inputs(mode, env, 1)
    n = KS.NPARAMS[key]
    par = [] if n == 0 else [env.get("w", 0.9)] if n == 1 else [env.get("kr", 1.1), 0.0 if case == "ki==0" else env.get("ki", 0.4)]
    f = KR.pyfunc(KR.kernel_function(key, mode))
    base = complex(f(X, Y, NX, NY, np.array(par, dtype=float))[0])
    e = {}
    fac = 1.0
    if transform == "translate":
        e["t"] = [env.get("t%d" % i, 0.3 * i + 0.2) for i in range(3)]
    elif transform.startswith("rotate"):
        e["c"] = env.get("c", 0.6)
        e["s"] = float(np.real(env.get("s", np.sqrt(1 - e["c"] ** 2))))
    else:
        e["a"] = env.get("a", 1.7)
        par = [p / e["a"] for p in par]
        layer = key.split("_", 1)[1] if key.startswith("laplace") else key.replace("modified_helmholtz_", "").replace("helmholtz_", "")
        fac = e["a"] ** HOMOGENEITY[layer]
    tf = lambda A, pt: np.array(_apply(transform, A, pt, e), dtype=float)  # noqa
    moved = complex(f(tf(X, True), tf(Y, True), tf(NX, False), tf(NY, False), np.array(par, dtype=float))[0]) * fac
    err = abs(moved - base) / max(1e-300, abs(base))
    return {"violates": bool(err > 1e-9), "relative_error": err}


def ob_geometry_equivariance(transform):
    """lemma: Grid._compute_geometric_quantities on transformed vertices: normals rotate (unchanged by translation/scaling), volumes and
    integration elements scale by a^2, diameters by a, centroids and Jacobians transform like points / vectors, J^-T scales by 1/a."""
    S.reset()
    el = np.array([[0, 1], [1, 3], [2, 2]])
    from bempp_cl.api.grid import grid as G
    from vlib.objnp import patched

    V = S.symarray("v", (3, 4))
    env = {}
    if transform == "translate":
        env["t"] = [S.var("t%d" % i) for i in range(3)]
    elif transform.startswith("rotate"):
        env["c"] = S.var("c")
        env["s"] = S.alg("s", 1 - env["c"] * env["c"])
    else:
        env["a"] = S.var("a", positive=True)
    g0 = SG._GeomSelf(V, el)
    g1 = SG._GeomSelf(_apply(transform, V, True, env), el)
    with patched(G):
        G.Grid._compute_geometric_quantities(g0)
        G.Grid._compute_geometric_quantities(g1)
    a = env.get("a", S.Sym.const(1))

    def vec(x):
        return _apply(transform, x, False, env) if transform.startswith("rotate") else x

    checks = []
    for e in range(2):
        checks += [("normal", g1._normals[e][i], vec(g0._normals[e])[i]) for i in range(3)]
        checks += [("volume", g1._volumes[e], g0._volumes[e] * a * a), ("int_elem", g1._integration_elements[e], g0._integration_elements[e] * a * a),
                   ("diameter", g1._diameters[e], g0._diameters[e] * a)]
        cen = _apply(transform, g0._centroids[e], True, env)
        checks += [("centroid", g1._centroids[e][i], cen[i]) for i in range(3)]
        for col in range(2):
            jv = vec(g0._jacobians[e][:, col])
            jiv = vec(g0._jacobian_inverse_transposed[e][:, col])
            checks += [("jacobian", g1._jacobians[e][i, col], jv[i] * a) for i in range(3)]
            checks += [("jac_inv_trans", g1._jacobian_inverse_transposed[e][i, col], jiv[i] / a) for i in range(3)]
    for name, got, want in checks:
        if not S.is_zero(S.Sym._coerce(got) - S.Sym._coerce(want)):
            w = S.find_witness(S.Sym._coerce(got) - S.Sym._coerce(want))
            if w is None:
                return undecided("%s: normal form non-zero, no witness" % name)
            return violated("geometric quantity %s is not %s-equivariant" % (name, transform), witness=w[0], signature="geometry/%s/%s" % (transform, name))
    return proved("sym-normal-form", "%d quantities on 2 generic elements" % len(checks))


# ---- bounded: whole matrices ------------------------------------------------------------------------

FACTORS = {"laplace_single": 3, "laplace_double": 2, "laplace_adjoint": 2, "laplace_hyp": 1, "helmholtz_single": 3, "helmholtz_double": 2,
           "helmholtz_adjoint": 2, "helmholtz_hyp": 1, "modified_single": 3, "modified_double": 2, "modified_adjoint": 2, "modified_hyp": 1,
           "maxwell_electric": 2, "maxwell_magnetic": 2, "identity": 2, "laplace_beltrami": 0}


def _spaces(grid, op):
    import bempp_cl.api as api

    if op.startswith("maxwell"):
        return api.function_space(grid, "RWG", 0), api.function_space(grid, "SNC", 0)
    if op.endswith("hyp") or op == "laplace_beltrami":
        p1 = api.function_space(grid, "P", 1, include_boundary_dofs=True)
        return p1, p1
    return api.function_space(grid, "P", 1, include_boundary_dofs=True), api.function_space(grid, "DP", 0)


def _assemble(grid, op, par, wavenumber_scale=1.0):
    from bempp_cl.api.operators.boundary import sparse

    dom, dual = _spaces(grid, op)
    if op == "identity":
        return Z.dense(sparse.identity(dom, dom, dual, parameters=par))
    if op == "laplace_beltrami":
        return Z.dense(sparse.laplace_beltrami(dom, dom, dual, parameters=par))
    k = {**Z.SCALAR_OPS, **Z.MAXWELL_OPS}[op][2]
    return Z.dense(Z.boundary_operator(op, dom, dom, dual, par, wavenumber=None if k is None else k * wavenumber_scale))


def ob_matrix_motion(gridname, op):
    """bounded: same matrix on a rotated+translated copy (1e-10), matrix * a^p on a copy scaled by a with wavenumber / a."""
    warnings.simplefilter("ignore")
    g = Z.grid_with_domains(gridname)
    par = Z.params(3, 3)
    A = _assemble(g, op, par)
    c1, s1, c2, s2 = np.cos(0.7), np.sin(0.7), np.cos(1.9), np.sin(1.9)
    R = np.array([[c1, -s1, 0], [s1, c1, 0], [0, 0, 1.0]]) @ np.array([[1, 0, 0], [0, c2, -s2], [0, s2, c2]])
    g2 = SG.make_grid(R @ g.vertices + np.array([[4.0], [-7.0], [2.5]]), g.elements, g.domain_indices)
    e1 = Z.relerr(_assemble(g2, op, par), A)
    a = 2.5
    g3 = SG.make_grid(a * g.vertices, g.elements, g.domain_indices)
    e2 = Z.relerr(_assemble(g3, op, par, 1.0 / a), A * a ** FACTORS[op])
    # far from the origin (map-style coordinates) and at extreme sizes: differences of coordinates lose about 7 digits at 5e6, nothing else may be lost
    g4 = SG.make_grid(g.vertices + np.array([[4.0e5], [5.5e6], [120.0]]), g.elements, g.domain_indices)
    e3 = Z.relerr(_assemble(g4, op, par), A)
    e4 = 0.0
    for a4 in (1e-5, 1e4):
        g5 = SG.make_grid(a4 * g.vertices, g.elements, g.domain_indices)
        e4 = max(e4, Z.relerr(_assemble(g5, op, par, 1.0 / a4), A * a4 ** FACTORS[op]))
    if e3 > 1e-6 or e4 > 1e-9:
        return violated("%s on %s: translation to (4e5, 5.5e6, 120) changes the matrix by %.2e (allowed 1e-6); sizes 1e-5 / 1e4 by %.2e (allowed 1e-9)" % (op, gridname, e3, e4),
                        witness={"grid": gridname, "op": op}, replay={"callable": "checks.c03:replay_motion", "kwargs": {"gridname": gridname, "op": op}, "confirmed": True},
                        signature="motion-extreme/%s" % op)
    if e1 > 1e-10 or e2 > 1e-10:
        return violated("%s on %s: rigid motion error %.2e, scaling (factor a^%d) error %.2e" % (op, gridname, e1, FACTORS[op], e2),
                        witness={"grid": gridname, "op": op}, replay={"callable": "checks.c03:replay_motion", "kwargs": {"gridname": gridname, "op": op}, "confirmed": True},
                        signature="motion/%s" % op)
    return held("motion %.1e scaling %.1e; far translation %.1e, sizes 1e-5 / 1e4 %.1e" % (e1, e2, e3, e4))


def replay_motion(gridname, op):
    r = ob_matrix_motion(gridname, op)
    return {"violates": r["status"] == "violated", "detail": r["detail"]}


def ob_matrix_relabel(gridname, op):
    """bounded: renumbering vertices and elements and cyclically rotating local vertex orders gives the permuted matrix (DP0/P1: vertex and
    element permutations; singular-quadrature tolerance 1e-4 at singular order 6, exact 1e-12 for pure renumbering)."""
    import bempp_cl.api as api

    warnings.simplefilter("ignore")
    g = Z.grid_with_domains(gridname)
    par = Z.params(4, 6)
    rng = np.random.RandomState(11)
    pv = rng.permutation(g.number_of_vertices)   # new index of old vertex v is pv[v]
    pe = rng.permutation(g.number_of_elements)   # new element j is old element pe[j]
    newv = np.empty_like(g.vertices)
    newv[:, pv] = g.vertices
    worst = {}
    for rot in (0, 1):
        el = pv[g.elements[:, pe].astype(int)]
        if rot:
            el = np.array([np.roll(el[:, j], j % 3) for j in range(el.shape[1])]).T
        g2 = SG.make_grid(newv, el, g.domain_indices[pe])
        p1a, p0a = api.function_space(g, "P", 1, include_boundary_dofs=True), api.function_space(g, "DP", 0)
        p1b, p0b = api.function_space(g2, "P", 1, include_boundary_dofs=True), api.function_space(g2, "DP", 0)
        if op.endswith("hyp"):
            A = Z.dense(Z.boundary_operator(op, p1a, p1a, p1a, par))
            B = Z.dense(Z.boundary_operator(op, p1b, p1b, p1b, par))
            # P1 dofs follow the vertex numbering when all vertices are dofs
            Bp = B[np.ix_(pv, pv)]
        else:
            A = Z.dense(Z.boundary_operator(op, p1a, p1a, p0a, par))   # rows: elements, cols: vertices
            B = Z.dense(Z.boundary_operator(op, p1b, p1b, p0b, par))
            inv = np.argsort(pe)
            Bp = B[np.ix_(inv, pv)]
        err = Z.relerr(Bp, A)
        worst[rot] = err
        tol = 1e-11 if rot == 0 else 1e-4
        if err > tol:
            return violated("%s on %s: %s gives error %.2e (tolerance %.0e)" % (op, gridname, "renumbering" if rot == 0 else "renumbering + local rotation", err, tol),
                            witness={"grid": gridname, "op": op, "local_rotation": bool(rot)},
                            replay={"callable": "checks.c03:replay_relabel", "kwargs": {"gridname": gridname, "op": op}, "confirmed": True}, signature="relabel/%s" % op)
    return held("renumbering %.1e, with local rotations %.1e" % (worst[0], worst[1]))


def replay_relabel(gridname, op):
    r = ob_matrix_relabel(gridname, op)
    return {"violates": r["status"] == "violated", "detail": r["detail"]}


def bary_relabel_invariants(kind, rot, seed=11):
    """label-independent invariants (singular values, sorted diagonal) of the mass and Laplace single-layer matrices of a barycentric-refinement space on
    the octahedron and on a renumbered (+ locally rotated) copy of it"""
    import bempp_cl.api as api
    from bempp_cl.api.operators.boundary import sparse

    warnings.simplefilter("ignore")
    g = Z.grid_with_domains("octa")
    par = Z.params(4, 6)
    rng = np.random.RandomState(seed)
    pv = rng.permutation(g.number_of_vertices)
    pe = rng.permutation(g.number_of_elements)
    newv = np.empty_like(g.vertices)
    newv[:, pv] = g.vertices
    el = pv[g.elements[:, pe].astype(int)]
    if rot:
        el = np.array([np.roll(el[:, j], (j + rot) % 3) for j in range(el.shape[1])]).T
    g2 = SG.make_grid(newv, el, g.domain_indices[pe])
    out = []
    for grid in (g, g2):
        S = api.function_space(grid, kind[0], kind[1])
        M = Z.dense(sparse.identity(S, S, S, parameters=par))
        if kind[0] in ("BC", "RBC"):
            # vector-valued: pair with the rotated space so that the mass matrix is the (non-degenerate) Maxwell pairing, and use the electric field operator
            R = api.function_space(grid, "RBC" if kind[0] == "BC" else "BC", 0)
            M = Z.dense(sparse.identity(S, S, R, parameters=par))
            Vm = None
        else:
            # dense assembly rejects spaces with a dof transformation; the singular part (adjacent element pairs of the barycentric grid) supports them
            Vm = Z.dense(Z.boundary_operator("laplace_single", S, S, S, par, assembler="only_singular_part"))
        out.append({"dofs": S.global_dof_count, "mass_sv": np.linalg.svd(M, compute_uv=False), "mass_diag": np.sort(np.abs(np.diag(M))),
                    "single_sv": None if Vm is None else np.linalg.svd(Vm, compute_uv=False)})
    return out


def replay_bary_relabel(kind, rot):
    a, b = bary_relabel_invariants(tuple(kind), rot)
    res = {"dofs": [a["dofs"], b["dofs"]]}
    bad = a["dofs"] != b["dofs"]
    if not bad:
        res["mass_singular_values"] = float(np.abs(a["mass_sv"] - b["mass_sv"]).max() / a["mass_sv"].max())
        res["mass_diagonal"] = float(np.abs(a["mass_diag"] - b["mass_diag"]).max() / a["mass_sv"].max())
        bad = res["mass_singular_values"] > 1e-10 or res["mass_diagonal"] > 1e-10
        if a["single_sv"] is not None:
            res["single_layer_singular_values"] = float(np.abs(a["single_sv"] - b["single_sv"]).max() / a["single_sv"].max())
            bad = bad or res["single_layer_singular_values"] > (1e-4 if rot else 1e-10)
    res["violates"] = bool(bad)
    return res


def ob_bary_relabel(kind, rot):
    """bounded: for the spaces on the barycentric refinement (DUAL0, DUAL1, BC, RBC) renumbering vertices and elements of the coarse grid and rotating
    local vertex orders leaves the label-independent invariants of the mass matrix (exactly integrated: 1e-10) and of the singular part of the Laplace
    single-layer matrix (singular quadrature: 1e-4 under rotation, 1e-10 under pure renumbering) unchanged: singular values and sorted |diagonal|."""
    r = replay_bary_relabel(list(kind), rot)
    if r["violates"]:
        return violated("%s%d on the octahedron: matrices are not invariant under renumbering%s: %s" % (kind[0], kind[1], " + local rotation" if rot else "", r),
                        witness={"kind": list(kind), "local_rotation": rot}, signature="bary-relabel/%s%d" % kind,
                        replay={"callable": "checks.c03:replay_bary_relabel", "kwargs": {"kind": list(kind), "rot": rot}, "confirmed": True, "result": r})
    return held("%d dofs; %s" % (r["dofs"][0], {k: "%.1e" % v for k, v in r.items() if isinstance(v, float)}))


def replay_open_relabel(gridname):
    """Open grids, P1 with default options (dofs at the interior vertices only): renumbering vertices and elements and rotating the local vertex order (several rotation
    patterns) must select the same vertices (by coordinates) as dofs and give the same mass and hypersingular matrices after matching the dofs through their vertices."""
    import bempp_cl.api as api
    from bempp_cl.api.operators.boundary import sparse

    warnings.simplefilter("ignore")
    v, e = {"screen2": lambda: SG.screen(2), "screen3": lambda: SG.screen(3), "fringe": _fringe_screen}[gridname]()
    v, e = np.asarray(v, dtype=float), np.asarray(e)
    par = Z.params(4, 6)
    g = SG.make_grid(v, e)

    def dof_vertices(sp, grid):
        out = []
        for d in range(sp.global_dof_count):
            vs = {int(grid.elements[i, E]) for E, i in sp.global2local[d]}
            out.append(tuple(np.round(grid.vertices[:, vs.pop()], 9)) if len(vs) == 1 else None)
        return out

    sa = api.function_space(g, "P", 1)
    va = dof_vertices(sa, g)
    Ma = Z.dense(sparse.identity(sa, sa, sa, parameters=par))
    Wa = Z.dense(Z.boundary_operator("laplace_hyp", sa, sa, sa, par))
    failing = []
    rng = np.random.RandomState(4)
    import itertools

    # all nine affine rotation patterns r_j = (a j + b) mod 3 of the local vertex order; every third one combined with a renumbering of vertices and elements
    for pattern, (ra, rb) in enumerate(itertools.product(range(3), range(3))):
        renumber = pattern % 3 == 2
        pv = rng.permutation(v.shape[1]) if renumber else np.arange(v.shape[1])
        pe = rng.permutation(e.shape[1]) if renumber else np.arange(e.shape[1])
        newv = np.empty_like(v)
        newv[:, pv] = v
        el = np.array([np.roll(e[:, j], (ra * j + rb) % 3) for j in range(e.shape[1])]).T
        el = pv[el[:, pe].astype(int)]
        g2 = SG.make_grid(newv, el)
        sb = api.function_space(g2, "P", 1)
        vb = dof_vertices(sb, g2)
        if None in va or None in vb or sorted(va) != sorted(vb):
            failing.append("rotation pattern %d: dofs at %d vertices, the original numbering selects %d (sets differ: %s)" % (pattern, len(vb), len(va), sorted(set(map(str, vb)) ^ set(map(str, va)))[:3]))
            continue
        perm = [vb.index(x) for x in va]
        Mb = Z.dense(sparse.identity(sb, sb, sb, parameters=par))[np.ix_(perm, perm)]
        em = Z.relerr(Mb, Ma)
        ew = Z.relerr(Z.dense(Z.boundary_operator("laplace_hyp", sb, sb, sb, par))[np.ix_(perm, perm)], Wa) if pattern % 4 == 1 else 0.0
        if em > 1e-12 or ew > 1e-4:
            failing.append("rotation pattern %d: mass matrix differs by %.2e, hypersingular by %.2e" % (pattern, em, ew))
    return {"violates": bool(failing), "failing": failing}


def replay_segment_relabel(op):
    """Test space = P1 on one segment with default options (elements of the support mix dof slots and slots without dof), trial space = P1 on the whole grid: rotating the
    local vertex order of the elements and renumbering must give the same matrix after matching the dofs through their vertices (1e-4: singular quadrature frames move)."""
    import itertools
    import bempp_cl.api as api

    warnings.simplefilter("ignore")
    g = Z.grid_with_domains("octa").refine()
    v, e, di = np.asarray(g.vertices), np.asarray(g.elements), np.asarray(g.domain_indices)
    par = Z.params(4, 6)

    def dof_vertices(sp, grid):
        return [tuple(np.round(grid.vertices[:, {int(grid.elements[i, E]) for E, i in sp.global2local[d]}.pop()], 9)) for d in range(sp.global_dof_count)]

    def build(grid):
        test = api.function_space(grid, "P", 1, segments=[1])
        trial = api.function_space(grid, "P", 1)
        return Z.dense(Z.boundary_operator(op, trial, trial, test, par)), dof_vertices(test, grid), dof_vertices(trial, grid)

    A, ta, ra = build(g)
    failing = []
    rng = np.random.RandomState(6)
    for pattern, (ra_, rb_) in enumerate(((1, 0), (2, 1), (1, 2))):
        pe = rng.permutation(e.shape[1]) if pattern == 1 else np.arange(e.shape[1])
        el = np.array([np.roll(e[:, j], (ra_ * j + rb_) % 3) for j in range(e.shape[1])]).T[:, pe]
        g2 = SG.make_grid(v, el, di[pe])
        B, tb, rb2 = build(g2)
        if sorted(ta) != sorted(tb) or sorted(ra) != sorted(rb2):
            failing.append("rotation pattern %d: different dof vertices" % pattern)
            continue
        Bp = B[np.ix_([tb.index(x) for x in ta], [rb2.index(x) for x in ra])]
        err = Z.relerr(Bp, A)
        if err > 1e-4:
            failing.append("rotation pattern (%d j + %d) mod 3%s: relative change %.2e" % (ra_, rb_, " + element renumbering" if pattern == 1 else "", err))
    return {"violates": bool(failing), "failing": failing}


def ob_segment_relabel(op):
    """bounded: see replay_segment_relabel"""
    r = replay_segment_relabel(op)
    if r["violates"]:
        return violated("%s with a segment P1 test space is not invariant under local rotation / renumbering: %s" % (op, r["failing"][:2]), witness={"op": op, "failing": r["failing"]},
                        signature="segment-relabel/%s" % op, replay={"callable": "checks.c03:replay_segment_relabel", "kwargs": {"op": op}, "confirmed": True, "result": r})
    return held("3 rotation patterns, matrices agree to 1e-4 after matching dofs through vertices")


def _fringe_screen():
    """3 x 2 screen with a sawtooth fringe: extra triangles on the upper rim whose two free sides are both on the boundary, neighbouring ears meeting in rim vertices"""
    v, e = SG.screen(3)
    v, e = np.asarray(v, dtype=float), np.asarray(e)
    top = [j for j in range(v.shape[1]) if abs(v[1, j] - v[1].max()) < 1e-12]
    top.sort(key=lambda j: v[0, j])
    newv, newe = [v], [e]
    nv = v.shape[1]
    for a, b in zip(top[:-1], top[1:]):
        apex = 0.5 * (v[:, a] + v[:, b]) + np.array([0.02, 0.25, 0.07])
        newv.append(apex[:, None])
        newe.append(np.array([[b], [a], [nv]]))
        nv += 1
    return np.hstack(newv), np.hstack(newe)


def ob_open_relabel(gridname):
    """bounded: see replay_open_relabel"""
    r = replay_open_relabel(gridname)
    if r["violates"]:
        return violated("P1 on the open grid %s is not equivariant under renumbering / local rotation: %s" % (gridname, r["failing"][:2]), witness={"grid": gridname, "failing": r["failing"]},
                        signature="open-relabel/%s" % gridname, replay={"callable": "checks.c03:replay_open_relabel", "kwargs": {"gridname": gridname}, "confirmed": True, "result": r})
    return held("9 rotation patterns (3 with renumbering): same dof vertices, mass 1e-12, hypersingular 1e-4 (2 patterns)")


def ob_extreme_scales(key, mode):
    """bounded (floats): the real kernel function agrees with its closed form (1e-8) for point sets scaled by 1e-9 .. 1e6 and translated 1e5 diameters away from
    the origin, with the wavenumber scaled inversely: absolute tolerances, clamps and numerically unstable (cancelling) distance formulas inside a kernel are
    invisible to the real-arithmetic proofs and show up here."""
    out = []
    for case, _ in KR.param_cases(key):
        rp = KR.extreme_scale_replay(key, mode, case)
        if rp["violates"]:
            out.append((case, violated("kernel %s (%s, %s) differs from its closed form at an extreme scale / far from the origin: %s" % (key, mode, case, rp),
                                       witness=rp.get("where"), replay={"callable": "vlib.kernelrun:extreme_scale_replay", "kwargs": {"key": key, "mode": mode, "case": case},
                                                                       "confirmed": True, "result": rp}, signature="extreme-scales/%s/%s" % (key, mode))))
        else:
            out.append((case, held("worst relative deviation %.1e over 6 scales x 2 translations" % rp["relative_error"])))
    return out


def replay_maxwell_relabel(gridname, segments, perm_seed):
    """Maxwell electric / magnetic field matrices (RWG trial, SNC test) on a grid and on its renumbered copy (vertices and elements permuted): equal up to the
    permutation of the edge dofs and the sign changes of the basis functions (the sign of an edge function is fixed by which of its elements has the lower number)."""
    import bempp_cl.api as api

    warnings.simplefilter("ignore")
    g = Z.grid_with_domains(gridname)
    rng = np.random.RandomState(perm_seed)
    pv = rng.permutation(g.number_of_vertices)
    pe = rng.permutation(g.number_of_elements)
    if perm_seed == 0:
        pe = np.arange(g.number_of_elements)[::-1].copy()      # reversal: what was numbered last comes first
    newv = np.empty_like(g.vertices)
    newv[:, pv] = g.vertices
    g2 = SG.make_grid(newv, pv[g.elements[:, pe].astype(int)], g.domain_indices[pe])
    inv = np.argsort(pe)                                     # old element E is new element inv[E]
    kw = {} if segments is None else {"segments": list(segments)}
    par = Z.params(3, 3)
    ra, sa = api.function_space(g, "RWG", 0, **kw), api.function_space(g, "SNC", 0, **kw)
    rb, sb = api.function_space(g2, "RWG", 0, **kw), api.function_space(g2, "SNC", 0, **kw)
    if ra.global_dof_count != rb.global_dof_count:
        return {"violates": True, "detail": "dof counts differ: %d vs %d" % (ra.global_dof_count, rb.global_dof_count)}

    def mapping(a, b):
        key_b = {}
        for d in range(b.global_dof_count):
            E, i = b.global2local[d][0]
            key_b[frozenset(int(x) for x in g2.edges[:, g2.element_edges[i, E]])] = d
        perm, sign = np.zeros(a.global_dof_count, dtype=int), np.zeros(a.global_dof_count)
        for d in range(a.global_dof_count):
            E, i = a.global2local[d][0]
            verts = frozenset(int(pv[x]) for x in g.edges[:, g.element_edges[i, E]])
            d2 = key_b[verts]
            perm[d] = d2
            j = int(inv[E])
            i2 = [q for q in range(3) if frozenset(int(x) for x in g2.edges[:, g2.element_edges[q, j]]) == verts][0]
            sign[d] = a.local_multipliers[E, i] * b.local_multipliers[j, i2]
        return perm, sign

    pr, sr = mapping(ra, rb)
    ps, ss = mapping(sa, sb)
    worst, bad = 0.0, {}
    for name in ("maxwell_electric", "maxwell_magnetic"):
        A = np.asarray(Z.dense(Z.boundary_operator(name, ra, ra, sa, par)))
        B = np.asarray(Z.dense(Z.boundary_operator(name, rb, rb, sb, par)))
        Bp = B[np.ix_(ps, pr)] * ss[:, None] * sr[None, :]
        e = float(np.abs(Bp - A).max() / np.abs(A).max())
        worst = max(worst, e)
        if e > 1e-10 or np.any(sr == 0) or np.any(ss == 0):
            bad[name] = e
    return {"violates": bool(bad), "failing": bad, "worst": worst, "dofs": int(ra.global_dof_count)}


def ob_maxwell_relabel(gridname, segments, perm_seed):
    r = replay_maxwell_relabel(gridname, segments, perm_seed)
    if r["violates"]:
        return violated("Maxwell matrices on %s (segments %s) are not equivariant under renumbering (up to dof permutation and signs): %s" % (gridname, segments, r.get("failing", r.get("detail"))),
                        witness={"grid": gridname, "segments": segments, "permutation_seed": perm_seed}, signature="relabel/maxwell",
                        replay={"callable": "checks.c03:replay_maxwell_relabel", "kwargs": {"gridname": gridname, "segments": segments, "perm_seed": perm_seed}, "confirmed": True})
    return held("%d edge dofs: permuted and sign-corrected matrices agree to %.1e" % (r["dofs"], r["worst"]))


def ob_swapped_normals(op, kind_override=None):
    """bounded: swapped_normals=[2] == physically reversing the orientation of the elements of domain 2 (DP0 x DP0 spaces, P1 x P1 for
    the hypersingular operators; element, vertex and DOF numbering unchanged, only the local vertex order flips): equal up to
    singular-quadrature error."""
    import bempp_cl.api as api

    warnings.simplefilter("ignore")
    g = Z.grid_with_domains("octa")
    par = Z.params(4, 6)
    el = g.elements.copy()
    for j in range(el.shape[1]):
        if g.domain_indices[j] == 2:
            el[[1, 2], j] = el[[2, 1], j]
    g2 = SG.make_grid(g.vertices, el, g.domain_indices)
    kind, deg = (("P", 1) if op.endswith("hyp") else ("DP", 0))
    if kind_override:
        kind, deg = kind_override
    a0 = api.function_space(g, kind, deg, swapped_normals=[2])
    b0 = api.function_space(g2, kind, deg)
    A = Z.dense(Z.boundary_operator(op, a0, a0, a0, par))
    B = Z.dense(Z.boundary_operator(op, b0, b0, b0, par))
    err = Z.relerr(B, A)
    plain = api.function_space(g, kind, deg)
    C = Z.dense(Z.boundary_operator(op, plain, plain, plain, par))
    differs = Z.relerr(C, A)
    if err > 1e-4:
        return violated("%s: swapped-normals flag vs reversed orientation differ by %.2e" % (op, err), witness={"op": op},
                        replay={"callable": "checks.c03:replay_swapped", "kwargs": {"op": op, "kind_override": kind_override}, "confirmed": True}, signature="swapped/%s" % op)
    return held("flag vs flipped orientation %.1e (flag changes the matrix by %.1e)" % (err, differs))


def replay_swapped(op, kind_override=None):
    r = ob_swapped_normals(op, tuple(kind_override) if kind_override else None)
    return {"violates": r["status"] == "violated", "detail": r["detail"]}


def ob_process_segments():
    """post (bounded, exhaustive over small inputs): _process_segments: normal_multipliers[e] == -1 <=> domain_indices[e] in swapped_normals
    else +1; support[e] <=> e in support_elements / domain index in segments / all."""
    from bempp_cl.api.space.space import _process_segments

    n = 0
    for name in ("screen2", "octa", "tetra"):
        g = Z.grid_with_domains(name)
        doms = sorted(set(int(d) for d in g.domain_indices))
        subsets = [list(c) for r in range(len(doms) + 1) for c in itertools.combinations(doms + [99], r)][:12]
        # the block contract abstracts the user-supplied lists to the set of their entries: also descending lists, lists with repeated entries, tuples and sets
        variants = [list(reversed(c)) + [c[0]] for c in subsets if len(c) >= 2][:5]
        variants += [tuple(reversed(variants[0])), set(variants[0]), dict.fromkeys(variants[0], "label"), dict.fromkeys(variants[0]).keys(), frozenset(variants[0])] if variants else []
        for sw in [None] + subsets + variants:
            for seg in [None] + subsets[:6] + variants:
                support, nm = _process_segments(g, None, seg, sw)
                for e in range(g.number_of_elements):
                    want_nm = -1 if (sw is not None and int(g.domain_indices[e]) in sw) else 1
                    want_s = True if seg is None else int(g.domain_indices[e]) in seg
                    n += 1
                    if nm[e] != want_nm or bool(support[e]) != want_s:
                        return violated("_process_segments(%s, segments=%s, swapped=%s): element %d gets multiplier %d support %s" % (name, seg, sw, e, nm[e], support[e]),
                                        witness={"grid": name, "segments": repr(seg), "swapped_normals": repr(sw)}, signature="process_segments", replay={"confirmed": True})
        # support_elements (index array, any order, repeated entries): support[e] <=> e listed
        rng = np.random.RandomState(5)
        for size in (0, 1, 3, g.number_of_elements):
            for _ in range(3):
                se = rng.randint(0, g.number_of_elements, size=size)
                support, nm = _process_segments(g, se, None, None)
                n += g.number_of_elements
                if [bool(x) for x in support] != [e in set(int(t) for t in se) for e in range(g.number_of_elements)] or any(int(m) != 1 for m in nm):
                    return violated("_process_segments(%s, support_elements=%s): support %s" % (name, se.tolist(), [int(x) for x in support]),
                                    witness={"grid": name, "support_elements": se.tolist()}, signature="process_segments/support_elements", replay={"confirmed": True})
        try:
            _process_segments(g, np.array([0]), [doms[0]], None)
        except ValueError:
            pass
        else:
            return violated("_process_segments accepts support_elements together with segments", signature="process_segments/both", replay={"confirmed": True})
    return held("%d element evaluations" % n)


def main():
    run = Run("C03", "other")
    thorough = run.tier == "thorough"
    run.explanation = ("Deductive: every regular/singular kernel function is invariant under translations and rotations about the three axes "
                       "(generators of the rigid motions; c, s with s^2 = 1 - c^2) and homogeneous of degree -h under scaling with k -> k/a; the "
                       "real geometry code is equivariant; the real singular pipeline equals the numbering-independent Galerkin spec for all 72 "
                       "local numberings of an edge-/vertex-adjacent pair and for renumbered small meshes (so relabelling permutes the matrix). "
                       "Bounded: whole matrices of all operator families under motion, scaling, renumbering, local rotation, swapped normals.")
    tables = KR.kernel_tables()
    transforms = ["translate", "rotate0", "rotate1", "rotate2", "scale"]
    for mode in ("regular", "singular"):
        for fam in ("laplace", "helmholtz", "modified_helmholtz"):
            for layer in ("single_layer", "double_layer", "adjoint_double_layer"):
                key = "%s_%s" % (fam, layer)
                run.under_contract(tables["kernel_functions_" + mode][key])
                for tr in transforms:
                    run.add("lemma.%s_%s.%s" % (key, mode, tr), "lemma", ob_kernel_invariance, key, mode, tr)
    from bempp_cl.api.grid import grid as G

    run.under_contract(G.Grid._compute_geometric_quantities, dropped="numpy linalg.norm/det/inv replaced by listed shims (vlib/objnp.py)")
    for tr in transforms:
        run.add("Grid._compute_geometric_quantities.%s" % tr, "lemma", ob_geometry_equivariance, tr)
    dp1 = ("DP", 1, {})
    for share in (2, 1):
        for p0 in PERMS:
            for p1_ in PERMS:
                run.add("pipeline.singular-remap[pair share=%d %s/%s DP1xDP0]" % (share, p0, p1_), "post", PL.ob_pipeline, "pair:%d:%s:%s" % (share, p0, p1_), dp1, ("DP", 0, {}))
    # space._process_segments: deductive block contract (all grid sizes, all index patterns; lists abstracted to sets) + native link of the abstraction
    from vlib import vrun as VR

    VR.add_block(run, "contracts.dofmap_blocks", "_process_segments_block")
    run.add("_process_segments_block::canary", "cover", VR.ob_block_canary, "contracts.dofmap_blocks", "_process_segments_block",
            [("normal_multipliers[element_index] = -1", "normal_multipliers[element_index] = 1"), ("in segments", "not in segments"),
             ("support[support_elements] = True", "support[support_elements] = False"), ("_np.full(number_of_elements, True", "_np.full(number_of_elements, False"),
             ("in swapped_normals", "in segments")])
    run.add("space._process_segments::native[lists in any order, with repetitions, tuples, sets; support_elements; both -> ValueError]", "bounded", ob_process_segments)
    for gname in ("screen2", "fringe") + (("screen3",) if thorough else ()):
        run.add("matrix.relabel.open-grid.P1[%s]" % gname, "bounded", ob_open_relabel, gname)
    for op in ("modified_hyp", "laplace_hyp") + (("helmholtz_hyp", "laplace_double") if thorough else ()):
        run.add("matrix.relabel.segment-P1-test-space.%s[octa refined]" % op, "bounded", ob_segment_relabel, op)
    for kind in (("DUAL", 0), ("DUAL", 1), ("BC", 0), ("RBC", 0)):
        for rot in ((0, 1, 2) if thorough or kind == ("DUAL", 0) else (1,)):
            run.add("matrix.relabel.barycentric[%s%d rot=%d]" % (kind[0], kind[1], rot), "bounded", ob_bary_relabel, kind, rot)
    ops = list(FACTORS)
    for op in ops:
        for gname in (("octa", "screen2") if thorough else ("octa",)):
            run.add("matrix.motion+scaling.%s[%s]" % (op, gname), "bounded", ob_matrix_motion, gname, op)
    for op in ("laplace_single", "laplace_double", "laplace_hyp", "helmholtz_adjoint") + (("modified_single", "helmholtz_hyp") if thorough else ()):
        run.add("matrix.relabel.%s[octa]" % op, "bounded", ob_matrix_relabel, "octa", op)
    for op in ("laplace_single", "laplace_double", "laplace_adjoint", "helmholtz_double", "laplace_hyp", "helmholtz_hyp", "modified_hyp"):
        run.add("matrix.swapped-normals.%s" % op, "bounded", ob_swapped_normals, op)
    for op in ("laplace_double", "laplace_adjoint", "helmholtz_double"):
        # P1: the colour-sorted element order of the launches is not the identity
        run.add("matrix.swapped-normals.%s[P1]" % op, "bounded", ob_swapped_normals, op, ("P", 1))
    # Maxwell spaces: closed grid, and a multi-domain grid with a junction (two tetrahedra sharing a face) restricted to the two caps
    for gname, seg, seed in (("octa", None, 5), ("two_tets_face", [1, 2], 0), ("two_tets_face", [1, 2], 4), ("two_tets_face", [2, 3], 0)):
        run.add("matrix.relabel.maxwell[%s segments=%s perm=%d]" % (gname, seg, seed), "bounded", ob_maxwell_relabel, gname, seg, seed)
    tables = KR.kernel_tables()
    for mode in ("regular", "singular"):
        for key in sorted(tables["kernel_functions_" + mode]):
            if key in KS.SPEC:
                run.add("numeric.extreme-scales.%s.%s" % (key, mode), "bounded", ob_extreme_scales, key, mode)
    sw = ("DP", 1, {"swapped_normals": [2]})
    for at, pc in (("default_scalar", "-"), ("laplace_hypersingular", "-"), ("helmholtz_hypersingular", "ki!=0"), ("modified_helmholtz_hypersingular", "w")):
        run.add("pipeline.%s[tetra, swapped normals on one domain of the test space only]" % at, "post", PL.ob_pipeline, "tetra", sw, dp1, [1, 2, 2, 1], None, at, pc)
        run.add("pipeline.%s[tetra, swapped normals on the trial space only]" % at, "post", PL.ob_pipeline, "tetra", dp1, sw, [1, 2, 2, 1], None, at, pc)
    run.bound("kernel lemmas: unbounded in all values; far-field kernels are direction-based and covered in C08")
    run.bound("pipeline: 72 two-element meshes; whole-matrix checks: octahedron (thorough: + screen), orders (3,3)/(4,6)")
    run.assume("SO(3) is generated by the rotations about the coordinate axes; rigid motions = rotations o translations")
    run.assume("the Galerkin spec (specs/galerkin.py) is defined from global vertex data only and hence numbering-equivariant by construction")
    return run.finish()


if __name__ == "__main__":
    sys.exit(main())
