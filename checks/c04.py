"""C04 operators on a subspace are congruence transforms T'AT of the element-wise operator (DESIGN 3, C04)."""

import ast
import inspect
import itertools
import sys
import textwrap
import warnings

import numpy as np

from vlib import pipeline as PL
from vlib import kernelrun as KR
from vlib import symgrid as SG
from vlib import zoo as Z
from vlib.framework import Run, proved, violated, undecided, held

REGULAR_ASSEMBLERS = ["default_scalar_regular_kernel", "laplace_hypersingular_regular", "helmholtz_hypersingular_regular",
                      "modified_helmholtz_hypersingular_regular", "maxwell_efield_regular_assembler", "maxwell_mfield_regular_assembler"]
DOF_ARGS = {"test_multipliers", "trial_multipliers", "test_global_dofs", "trial_global_dofs"}


def ob_frame(name):
    """frame: inside the regular assembler the DOF maps and multipliers (test/trial_multipliers, test/trial_global_dofs) are read only by
    the final scatter statement `result[tgd[te, f], trgd[tr, g]] += local_result[...] * tm[te, f] * trm[tr, g]`; in particular the
    local integrals do not depend on the space's DOF numbering, which is what makes the assembled matrix T' A_loc T."""
    from bempp_cl.core import numba_kernels as NK

    f = KR.pyfunc(getattr(NK, name))
    fd = ast.parse(textwrap.dedent(inspect.getsource(f))).body[0]
    uses = []

    class V(ast.NodeVisitor):
        def __init__(self):
            self.stack = []

        def generic_visit(self, node):
            self.stack.append(node)
            super().generic_visit(node)
            self.stack.pop()

        def visit_Name(self, node):
            if node.id in DOF_ARGS:
                stmt = next((s for s in reversed(self.stack) if isinstance(s, ast.stmt)), None)
                uses.append((node.id, stmt))

    V().visit(ast.Module(body=fd.body, type_ignores=[]))
    if not uses:
        return violated("%s never uses the DOF maps" % name, signature="frame/" + name)
    bad = []
    for nm, stmt in uses:
        ok = (isinstance(stmt, ast.AugAssign) and isinstance(stmt.op, ast.Add) and isinstance(stmt.target, ast.Subscript)
              and isinstance(stmt.target.value, ast.Name) and stmt.target.value.id == "result")
        if not ok:
            bad.append("%s at line %d" % (nm, getattr(stmt, "lineno", -1)))
    if bad:
        return violated("%s reads DOF maps outside the scatter statement: %s" % (name, ", ".join(bad)), signature="frame/" + name,
                        replay={"confirmed": False})
    # the scatter statement has the contract shape
    stmt = uses[0][1]
    src = ast.unparse(stmt)
    idx = stmt.target.slice
    shape_ok = (isinstance(idx, ast.Tuple) and len(idx.elts) == 2 and "test_global_dofs[test_element" in ast.unparse(idx.elts[0])
                and "trial_global_dofs[trial_element" in ast.unparse(idx.elts[1]) and "test_multipliers[test_element" in src
                and "trial_multipliers[trial_element" in src and "local_result[" in src)
    if not shape_ok:
        return undecided("scatter statement of %s is not of the contract shape: %s" % (name, src[:200]))
    return proved("ast-frame", "%d uses, all in `result[...] += local_result * multipliers`" % len(uses))


def space_variants(kind, degree):
    base = [{}, {"segments": [1, 2]}, {"segments": [2], "include_boundary_dofs": True},
            {"segments": [2], "include_boundary_dofs": True, "truncate_at_segment_edge": False},
            {"support_elements": [0, 3, 4]}, {"segments": [1, 2], "swapped_normals": [2]}]
    if kind == "DP":
        return [b for b in base if "include_boundary_dofs" not in b] + [{"segments": [2]}]
    return base


def full_space(grid, kind, degree, kw):
    import bempp_cl.api as api

    extra = {"swapped_normals": kw["swapped_normals"]} if "swapped_normals" in kw else {}
    if kind == "P":
        return api.function_space(grid, "DP", 1, **extra)
    if kind == "DP":
        return api.function_space(grid, "DP", degree, **extra)
    return api.function_space(grid, kind, degree, include_boundary_dofs=True, **extra).localised_space


def ob_map_to_full_grid(gridname):
    """post (bounded, exact integers): map_to_full_grid[nshape*E + f, l2g[E, f]] == mult[E, f] for support elements E, zero elsewhere;
    map_to_localised_space[nshape*pos(E) + f, l2g[E,f]] == mult[E,f]."""
    import bempp_cl.api as api

    grid = Z.grid_with_domains(gridname)
    n = 0
    for kind, deg in (("P", 1), ("DP", 0), ("DP", 1), ("RWG", 0), ("SNC", 0)):
        for kw in space_variants(kind, deg):
            S = api.function_space(grid, kind, deg, **kw)
            ns = S.number_of_shape_functions
            T = np.zeros((ns * grid.number_of_elements, S.grid_dof_count))
            L = np.zeros((ns * S.number_of_support_elements, S.grid_dof_count))
            for pos, E in enumerate(S.support_elements):
                for f in range(ns):
                    T[ns * E + f, S.local2global[E, f]] += S.local_multipliers[E, f]
                    L[ns * pos + f, S.local2global[E, f]] += S.local_multipliers[E, f]
            if not (np.array_equal(T, S.map_to_full_grid.toarray()) and np.array_equal(L, S.map_to_localised_space.toarray())):
                return violated("map_to_full_grid / map_to_localised_space of %s%d %s on %s is not the coefficient map T" % (kind, deg, kw, gridname),
                                witness={"grid": gridname, "kind": kind, "kw": kw}, signature="T/%s%d" % (kind, deg), replay={"confirmed": True})
            n += 1
    return held("%d spaces on %s" % (n, gridname))


CASES = [  # (operator, test kind, trial kind)
    ("laplace_single", ("P", 1), ("DP", 0)), ("laplace_single", ("DP", 0), ("P", 1)), ("laplace_double", ("P", 1), ("P", 1)),
    ("laplace_adjoint", ("DP", 1), ("P", 1)), ("laplace_hyp", ("P", 1), ("P", 1)), ("helmholtz_single", ("P", 1), ("DP", 1)),
    ("helmholtz_double", ("DP", 0), ("P", 1)), ("helmholtz_hyp", ("P", 1), ("P", 1)), ("modified_single", ("P", 1), ("P", 1)),
    ("modified_adjoint", ("P", 1), ("DP", 0)), ("modified_hyp", ("P", 1), ("P", 1)),
    ("maxwell_electric", ("SNC", 0), ("RWG", 0)), ("maxwell_magnetic", ("SNC", 0), ("RWG", 0)),
]


def tat_error(gridname, op, tk, rk, tkw, rkw):
    import bempp_cl.api as api

    warnings.simplefilter("ignore")
    grid = Z.grid_with_domains(gridname)
    par = Z.params(2, 2)
    St = api.function_space(grid, tk[0], tk[1], **tkw)
    Sr = api.function_space(grid, rk[0], rk[1], **rkw)
    Ft = full_space(grid, tk[0], tk[1], tkw)
    Fr = full_space(grid, rk[0], rk[1], rkw)
    A = Z.dense(Z.boundary_operator(op, Sr, Sr, St, par))
    Af = Z.dense(Z.boundary_operator(op, Fr, Fr, Ft, par))
    # T from the dof map and the multipliers over ALL elements of the grid (not from the library's map_to_full_grid and not restricted to the reported support: an
    # element that carries part of a basis function belongs to the function whether or not the support table lists it)
    def coefficient_map(S):
        ns = S.number_of_shape_functions
        T = np.zeros((ns * grid.number_of_elements, S.global_dof_count))
        for E in range(grid.number_of_elements):
            for f in range(ns):
                if S.local_multipliers[E, f] != 0:
                    T[ns * E + f, S.local2global[E, f]] += S.local_multipliers[E, f]
        return T

    Tt, Tr = coefficient_map(St), coefficient_map(Sr)
    return Z.relerr(A, Tt.T @ Af @ Tr), A.shape


def ob_tat(gridname, op, tk, rk, which):
    """bounded: A(S_test, S_trial) == T_test' A(full element-wise spaces) T_trial to 1e-12, test and trial options chosen independently."""
    tv, rv = space_variants(*tk), space_variants(*rk)
    combos = list(itertools.product(range(len(tv)), range(len(rv))))
    if which == "diag":
        combos = [(i, (i * 2 + 1) % len(rv)) for i in range(len(tv))]
    worst, done = 0.0, 0
    for i, j in combos:
        try:
            err, shape = tat_error(gridname, op, tk, rk, tv[i], rv[j])
        except ValueError as e:
            if "not supported" in str(e) or "must be" in str(e):
                continue
            raise
        worst = max(worst, err)
        done += 1
        if err > 1e-11:
            return violated("%s on %s with test %s%d %s / trial %s%d %s differs from T'AT by %.2e" % (op, gridname, tk[0], tk[1], tv[i], rk[0], rk[1], rv[j], err),
                            witness={"grid": gridname, "op": op, "test": [list(tk), tv[i]], "trial": [list(rk), rv[j]]},
                            replay={"callable": "checks.c04:replay_tat", "kwargs": {"gridname": gridname, "op": op, "tk": list(tk), "rk": list(rk), "tkw": tv[i], "rkw": rv[j]},
                                    "confirmed": True}, signature="tat/%s/%s%d/%s%d" % (op, tk[0], tk[1], rk[0], rk[1]))
    if done < max(1, len(combos) // 2):
        return undecided("only %d of %d option combinations could be assembled (vacuity guard)" % (done, len(combos)))
    return held("%d option combinations (%d assembled), worst %.1e" % (len(combos), done, worst))


def contact_pairs(gridname):
    """one (test element, trial element) pair per contact class: identical, common edge, common vertex only, disjoint (where the grid has one)."""
    grid = Z.grid_with_domains(gridname)
    el = grid.elements
    out = {}
    for a in range(grid.number_of_elements):
        for b in range(grid.number_of_elements):
            k = len(set(el[:, a].tolist()) & set(el[:, b].tolist()))
            out.setdefault(k, []).append((a, b))
    return out


def ob_contact(gridname, op, tk, rk, which):
    """bounded: for test functions on one element and trial functions on another -- every pair of elements of the grid, i.e. identical,
    sharing an edge, sharing only a vertex, and disjoint supports -- A(S_test, S_trial) == T_test' A(full) T_trial."""
    import bempp_cl.api as api

    warnings.simplefilter("ignore")
    grid = Z.grid_with_domains(gridname)
    par = Z.params(2, 2)
    Ft, Fr = full_space(grid, tk[0], tk[1], {}), full_space(grid, rk[0], rk[1], {})
    Af = Z.dense(Z.boundary_operator(op, Fr, Fr, Ft, par))
    scale = np.abs(Af).max()
    classes = contact_pairs(gridname)
    worst, n = 0.0, 0

    def space(k, e):
        kw = {"support_elements": e} if k[0] == "DP" else {"support_elements": e, "include_boundary_dofs": True}
        return api.function_space(grid, k[0], k[1], **kw)

    for ncommon, pairs in sorted(classes.items()):
        if which != "all":
            pairs = pairs[:: max(1, len(pairs) // 3)][:3]
        for a, b in pairs:
            for sa, sb in (([a], [b]),) + ((([a, (a + 1) % grid.number_of_elements], [b]),) if ncommon == 1 and which == "all" else ()):
                St, Sr = space(tk, sa), space(rk, sb)
                A = Z.dense(Z.boundary_operator(op, Sr, Sr, St, par))
                ref = St.map_to_full_grid.toarray().T @ Af @ Sr.map_to_full_grid.toarray()
                err = float(np.abs(A - ref).max() / scale)
                worst = max(worst, err)
                n += 1
                if not err < 1e-11:
                    return violated("%s on %s, test %s%d on elements %s, trial %s%d on elements %s (%d common vertices): differs from the block "
                                    "T'AT of the full operator by %.2e (relative to max|A|)" % (op, gridname, tk[0], tk[1], sa, rk[0], rk[1], sb, ncommon, err),
                                    witness={"grid": gridname, "op": op, "test_elements": sa, "trial_elements": sb, "common_vertices": ncommon},
                                    replay={"callable": "checks.c04:replay_contact", "confirmed": True,
                                            "kwargs": {"gridname": gridname, "op": op, "tk": list(tk), "rk": list(rk), "sa": sa, "sb": sb}},
                                    signature="contact/%s/%d" % (op, ncommon))
    return held("%d element-pair supports in contact classes %s, worst %.1e" % (n, sorted(classes), worst))


def replay_contact(gridname, op, tk, rk, sa, sb):
    import bempp_cl.api as api

    warnings.simplefilter("ignore")
    grid = Z.grid_with_domains(gridname)
    par = Z.params(2, 2)
    tk, rk = tuple(tk), tuple(rk)

    def space(k, e):
        kw = {"support_elements": e} if k[0] == "DP" else {"support_elements": e, "include_boundary_dofs": True}
        return api.function_space(grid, k[0], k[1], **kw)

    Ft, Fr = full_space(grid, tk[0], tk[1], {}), full_space(grid, rk[0], rk[1], {})
    Af = Z.dense(Z.boundary_operator(op, Fr, Fr, Ft, par))
    St, Sr = space(tk, sa), space(rk, sb)
    A = Z.dense(Z.boundary_operator(op, Sr, Sr, St, par))
    ref = St.map_to_full_grid.toarray().T @ Af @ Sr.map_to_full_grid.toarray()
    err = float(np.abs(A - ref).max() / np.abs(Af).max())
    return {"violates": bool(not err < 1e-11), "relative_error": err, "shape": list(A.shape)}


def replay_tat(gridname, op, tk, rk, tkw, rkw):
    err, shape = tat_error(gridname, op, tuple(tk), tuple(rk), tkw, rkw)
    return {"violates": bool(err > 1e-11), "relative_error": err, "shape": list(shape)}


def prolongation(coarse, fine, kind):
    """P maps coarse coefficients to the fine nested space (uniform refinement: children 4e..4e+3, midpoint vertices nv + edge)."""
    if kind == "DP0":
        P = np.zeros((fine.number_of_elements, coarse.number_of_elements))
        for e in range(coarse.number_of_elements):
            P[4 * e: 4 * e + 4, e] = 1
        return P
    nv = coarse.number_of_vertices
    P = np.zeros((fine.number_of_vertices, nv))
    P[:nv, :nv] = np.eye(nv)
    for k in range(coarse.number_of_edges):
        P[nv + k, coarse.edges[0, k]] = 0.5
        P[nv + k, coarse.edges[1, k]] = 0.5
    return P


def ob_nesting(op, kind):
    """bounded: P' A_fine P -> A_coarse as the quadrature orders are raised (uniform refinement of the tetrahedron)."""
    import bempp_cl.api as api

    warnings.simplefilter("ignore")
    v, e = SG.tetra()
    coarse = SG.make_grid(v, e)
    fine = coarse.refine()
    errs = []
    for o in ((3, 3), (6, 6)):
        par = Z.params(*o)
        if kind == "DP0":
            sc, sf = api.function_space(coarse, "DP", 0), api.function_space(fine, "DP", 0)
        else:
            sc, sf = api.function_space(coarse, "P", 1), api.function_space(fine, "P", 1)
        Ac = Z.dense(Z.boundary_operator(op, sc, sc, sc, par))
        Af = Z.dense(Z.boundary_operator(op, sf, sf, sf, par))
        P = prolongation(coarse, fine, kind)
        errs.append(Z.relerr(P.T @ Af @ P, Ac))
    if not (errs[1] < errs[0] and errs[1] < 2e-3):
        return violated("nesting error for %s/%s does not decay: %s" % (op, kind, errs), witness={"op": op, "kind": kind},
                        replay={"callable": "checks.c04:replay_nesting", "kwargs": {"op": op, "kind": kind}, "confirmed": True}, signature="nesting/%s/%s" % (op, kind))
    return held("relative error (3,3): %.1e -> (6,6): %.1e" % tuple(errs))


def ob_bary_nesting(kind):
    """bounded (exact integrand): the barycentric representation of a space is the same space written on the barycentric refinement, so the mass matrix assembled
    with the representations (P_test' M_fine P_trial, through their dof transformations) equals the mass matrix of the original spaces - on a grid with scalene
    triangles, where the edge-wise tables of the representation are not symmetric."""
    import bempp_cl.api as api
    from bempp_cl.api.operators.boundary import sparse

    warnings.simplefilter("ignore")
    grid = Z.grid_with_domains("octa")
    par = Z.params(4, 4)
    dom, dual = {"RWG": (("RWG", 0), ("SNC", 0)), "P1": (("P", 1), ("P", 1)), "DP0": (("DP", 0), ("DP", 0))}[kind]
    worst = 0.0
    for kw in ({}, {"segments": [1, 2]}):
        a = api.function_space(grid, dom[0], dom[1], **(dict(kw, include_boundary_dofs=True) if dom[0] != "DP" else kw))
        b = api.function_space(grid, dual[0], dual[1], **(dict(kw, include_boundary_dofs=True) if dual[0] != "DP" else kw))
        Mc = Z.dense(sparse.identity(a, a, b, parameters=par))
        Mb = Z.dense(sparse.identity(a.barycentric_representation(), a.barycentric_representation(), b.barycentric_representation(), parameters=par))
        err = float(np.abs(Mb - Mc).max() / np.abs(Mc).max()) if Mb.shape == Mc.shape else float("inf")
        worst = max(worst, err)
        if not err < 1e-12:
            return violated("mass matrix of the barycentric representations of %s x %s %s differs from the mass matrix of the original spaces by %.2e" % (dom[0], dual[0], kw, err),
                            witness={"kind": kind, "options": kw}, signature="bary-nesting/%s" % kind,
                            replay={"callable": "checks.c04:replay_bary_nesting", "kwargs": {"kind": kind}, "confirmed": True})
    return held("whole grid and segments, worst %.1e" % worst)


def replay_bary_nesting(kind):
    r = ob_bary_nesting(kind)
    return {"violates": r["status"] == "violated", "detail": r["detail"]}


def replay_nesting(op, kind):
    r = ob_nesting(op, kind)
    return {"violates": r["status"] == "violated", "detail": r["detail"]}


SYM_VARIANTS = [
    (("P", 1, {"segments": [1, 2]}), ("DP", 0, {"segments": [2]})),
    (("P", 1, {"segments": [2], "include_boundary_dofs": True}), ("P", 1, {"segments": [1], "include_boundary_dofs": True, "truncate_at_segment_edge": False})),
    (("DP", 1, {"support_elements": [0, 3, 4]}), ("P", 1, {})),
    (("P", 1, {"segments": [1, 2], "swapped_normals": [2]}), ("DP", 1, {"segments": [1, 2]})),
    (("DP", 0, {}), ("P", 1, {"segments": [2], "include_boundary_dofs": True, "truncate_at_segment_edge": False})),
]


def main():
    run = Run("C04", "other")
    thorough = run.tier == "thorough"
    run.explanation = ("T'AT: (i) frame obligations -- in all six regular assemblers the DOF maps/multipliers are read only by the final "
                       "scatter statement (AST); (ii) the real pipeline on small grids with symbolic geometry and an uninterpreted kernel equals "
                       "scatter_{l2g,mult}(local integrals) == T' A_loc T for spaces with segments, support elements, boundary-dof and "
                       "truncation options and swapped normals (P-sizes); (iii) map_to_full_grid is that T (exact integer check on the zoo); "
                       "(iv) bounded float check of A(S) == T' A(full) T for all operator families incl. Maxwell with test/trial options chosen "
                       "independently; (v) nesting clause: error of P'A_fine P vs A_coarse decays with the quadrature order (bounded).")
    from bempp_cl.core import numba_kernels as NK

    for name in REGULAR_ASSEMBLERS:
        run.under_contract(getattr(NK, name))
        run.add("numba_kernels.%s::frame(dof-maps-only-in-scatter)" % name, "frame", ob_frame, name)
    di = {"screen2": [1, 1, 2, 2, 1, 3, 2, 2], "octa": [1, 1, 2, 2, 1, 2, 2, 3]}
    for mesh in ("screen2",) + (("octa",) if thorough else ()):
        for ts, rs in SYM_VARIANTS:
            run.add("pipeline.T'AT[%s %s%d%s x %s%d%s]" % (mesh, ts[0], ts[1], sorted(ts[2]), rs[0], rs[1], sorted(rs[2])), "post",
                    PL.ob_pipeline, mesh, ts, rs, di[mesh])
    for g in ("screen2", "octa") + (("cube12", "screen3") if thorough else ()):
        run.add("space.map_to_full_grid[%s]" % g, "bounded", ob_map_to_full_grid, g)
    for op, tk, rk in CASES:
        for g in (("screen2", "octa") if thorough else ("screen2",)):
            run.add("T'AT.%s[%s %s%d x %s%d]" % (op, g, tk[0], tk[1], rk[0], rk[1]), "bounded", ob_tat, g, op, tk, rk, "all" if thorough else "diag")
    for op, tk, rk in (CASES if thorough else [CASES[0], CASES[4], CASES[5], CASES[11]]):
        for g in (("octa", "screen2") if thorough else ("octa",)):
            run.add("T'AT.contact.%s[%s %s%d x %s%d]" % (op, g, tk[0], tk[1], rk[0], rk[1]), "bounded", ob_contact, g, op, tk, rk, "all" if thorough else "some")
    for mesh in ("octa", "screen2"):
        cl = contact_pairs(mesh)
        for ncommon in sorted(cl):
            a, b = cl[ncommon][len(cl[ncommon]) // 2]
            if ncommon == 3 or (not thorough and (mesh, ncommon) not in (("octa", 1), ("screen2", 0), ("octa", 2))):
                continue
            for tsp, rsp in ((("DP", 0, {"support_elements": [a]}), ("DP", 1, {"support_elements": [b]})),
                             (("P", 1, {"support_elements": [a], "include_boundary_dofs": True}), ("DP", 0, {"support_elements": [b]}))):
                run.add("pipeline.T'AT.contact%d[%s %s%d on [%d] x %s%d on [%d]]" % (ncommon, mesh, tsp[0], tsp[1], a, rsp[0], rsp[1], b), "post",
                        PL.ob_pipeline, mesh, tsp, rsp, di[mesh])
    run.add("nesting.laplace_single.DP0", "bounded", ob_nesting, "laplace_single", "DP0")
    run.add("nesting.laplace_double.DP0", "bounded", ob_nesting, "laplace_double", "DP0")
    for kind in ("RWG", "P1", "DP0"):
        run.add("nesting.barycentric.mass[%s]" % kind, "bounded", ob_bary_nesting, kind)      # normal-dependent: sees the orientation of the refined elements
    if thorough:
        run.add("nesting.laplace_single.P1", "bounded", ob_nesting, "laplace_single", "P1")
        run.add("nesting.laplace_hyp.P1", "bounded", ob_nesting, "laplace_hyp", "P1")
    run.bound("pipeline T'AT contract: 2x2 screen (thorough: + octahedron) with 3 domain indices, generic values")
    run.bound("float T'AT: zoo grids x 13 operator/space-kind cases x option combinations (quick: one trial option per test option; thorough: all pairs)")
    run.bound("contact classes: test and trial functions on single elements (and an element pair) of the octahedron / 2x2 screen, all element pairs in thorough")
    run.bound("nesting: tetrahedron refined once, orders (3,3) and (6,6); barycentric refinement: mass matrices only (octahedron with scalene faces; the pointwise representation contract is C10)")
    run.assume("accumulation order differs between spaces: equality is 'to rounding' (1e-11 relative in the float check, exact in the symbolic one)")
    run.assume("scipy coo_matrix/tocsr build the matrix from the (row, col, value) triples with duplicate summation")
    return run.finish()


if __name__ == "__main__":
    sys.exit(main())
