"""C05 Helmholtz-family consistency (DESIGN 3, C05): contracts on the real kernels and factories."""

import sys

import numpy as np

from vlib import sym as S
from vlib import kernelrun as KR
from vlib.framework import Run, proved, violated, undecided
from specs import kernels as KS

LAYERS = ["single_layer", "double_layer", "adjoint_double_layer"]
MODES = ["regular", "singular"]


# ---------------------------------------------------------------------------------------------
# relations between real kernels, written once over an input maker `mk`:
#   mk.arr(name, shape) -> array of symbols / floats,  mk.par(name, nonzero) -> symbol / float,  mk.I, mk.conj
# ---------------------------------------------------------------------------------------------


class SymMaker:
    I = property(lambda self: S.I())

    def arr(self, name, shape):
        return S.symarray(name, shape)

    def par(self, name, nonzero=False):
        return S.var(name, nonzero=nonzero)

    def conj(self, v):
        return S.conj(v)

    def zero(self, v):
        return S.is_zero(v)


class NumMaker:
    I = 1j

    def __init__(self, env):
        self.env = env

    def arr(self, name, shape):
        out = np.empty(shape, dtype=float)
        for idx in np.ndindex(*shape):
            out[idx] = self.env.get(name + "".join("_%d" % i for i in idx), 0.31 + 0.07 * sum(idx))
        return out

    def par(self, name, nonzero=False):
        return float(self.env.get(name, 0.77))

    def conj(self, v):
        return np.conj(v)


def _call(key, mode, X, Y, NX, NY, par, numeric):
    f = KR.pyfunc(KR.kernel_function(key, mode))
    if numeric:
        return f(X, Y, NX, NY, np.array([float(p) for p in par], dtype=float))
    return f(X, Y, NX, NY, KR.objarr(par))


def _inputs(mk, mode):
    Y = mk.arr("y", (3, 2))
    if mode == "regular":
        return mk.arr("x", (3,)), Y, mk.arr("nx", (3,)), mk.arr("ny", (3, 2))
    return mk.arr("x", (3, 2)), Y, mk.arr("nx", (3,)), mk.arr("ny", (3,))


def _r(mode, X, Y, j):
    x = X if mode == "regular" else X[:, j]
    d = Y[:, j] - x
    return np.sqrt(d[0] * d[0] + d[1] * d[1] + d[2] * d[2])


def rel_helm_vs_laplace(mk, layer, mode, case, numeric=False):
    """helmholtz_X(k) == laplace_X * e^{ikr} (single) resp. laplace_X * (1 - ikr) e^{ikr} (double, adjoint)."""
    X, Y, NX, NY = _inputs(mk, mode)
    kr = mk.par("kr")
    ki = mk.par("ki", nonzero=True) if case == "ki!=0" else 0
    h = _call("helmholtz_" + layer, mode, X, Y, NX, NY, [kr, ki], numeric)
    l = _call("laplace_" + layer, mode, X, Y, NX, NY, [], numeric)
    out = []
    for j in range(2):
        r = _r(mode, X, Y, j)
        k = kr + mk.I * ki
        fac = np.exp(mk.I * k * r)
        if layer != "single_layer":
            fac = fac * (1 - mk.I * k * r)
        out.append((h[j], l[j] * fac))
    return out


def rel_helm_iw_vs_modified(mk, layer, mode, case, numeric=False):
    """helmholtz_X(k = i w) == modified_helmholtz_X(w); case w!=0 and w==0."""
    X, Y, NX, NY = _inputs(mk, mode)
    w = mk.par("w", nonzero=True) if case == "w!=0" else 0
    h = _call("helmholtz_" + layer, mode, X, Y, NX, NY, [0, w], numeric)
    m = _call("modified_helmholtz_" + layer, mode, X, Y, NX, NY, [w], numeric)
    return [(h[j], m[j]) for j in range(2)]


def rel_conj(mk, layer, mode, case, numeric=False):
    """K(-conj k) == conj K(k):  (kr, ki) -> (-kr, ki)."""
    X, Y, NX, NY = _inputs(mk, mode)
    kr = mk.par("kr")
    ki = mk.par("ki", nonzero=True) if case == "ki!=0" else 0
    a = _call("helmholtz_" + layer, mode, X, Y, NX, NY, [-kr, ki], numeric)
    b = _call("helmholtz_" + layer, mode, X, Y, NX, NY, [kr, ki], numeric)
    return [(a[j], mk.conj(b[j])) for j in range(2)]


def _params(mk, family, case):
    if family == "laplace":
        return []
    if family == "modified_helmholtz":
        return [mk.par("w")]
    return [mk.par("kr"), mk.par("ki", nonzero=True) if case == "ki!=0" else 0]


def rel_symmetry_single(mk, family, mode, case, numeric=False):
    """V(x, y) == V(y, x)."""
    x = mk.arr("x", (3,))
    y = mk.arr("y", (3,))
    nx = mk.arr("nx", (3,))
    ny = mk.arr("ny", (3,))
    par = _params(mk, family, case)
    key = family + "_single_layer"
    if mode == "regular":
        a = _call(key, mode, x, y.reshape(3, 1), nx, ny.reshape(3, 1), par, numeric)
        b = _call(key, mode, y, x.reshape(3, 1), ny, nx.reshape(3, 1), par, numeric)
    else:
        a = _call(key, mode, x.reshape(3, 1), y.reshape(3, 1), nx, ny, par, numeric)
        b = _call(key, mode, y.reshape(3, 1), x.reshape(3, 1), ny, nx, par, numeric)
    return [(a[0], b[0])]


def rel_adjoint_is_transposed_double(mk, family, mode, case, numeric=False):
    """K'(x, y; n_x) == K(y, x; n_y := n_x): the adjoint double layer is the double layer with the roles exchanged."""
    x = mk.arr("x", (3,))
    y = mk.arr("y", (3,))
    nx = mk.arr("nx", (3,))
    other = mk.arr("other", (3,))
    par = _params(mk, family, case)
    if mode == "regular":
        a = _call(family + "_adjoint_double_layer", mode, x, y.reshape(3, 1), nx, other.reshape(3, 1), par, numeric)
        b = _call(family + "_double_layer", mode, y, x.reshape(3, 1), other, nx.reshape(3, 1), par, numeric)
    else:
        a = _call(family + "_adjoint_double_layer", mode, x.reshape(3, 1), y.reshape(3, 1), nx, other, par, numeric)
        b = _call(family + "_double_layer", mode, y.reshape(3, 1), x.reshape(3, 1), other, nx, par, numeric)
    return [(a[0], b[0])]


RELATIONS = {
    "helm_vs_laplace": rel_helm_vs_laplace,
    "helm_iw_vs_modified": rel_helm_iw_vs_modified,
    "conj": rel_conj,
    "symmetry_single": rel_symmetry_single,
    "adjoint_is_transposed_double": rel_adjoint_is_transposed_double,
}


def replay_relation(rel, a, mode, case, env):
    pairs = RELATIONS[rel](NumMaker(env), a, mode, case, numeric=True)
    worst = 0.0
    ob = rq = 0j
    for l, r in pairs:
        e = abs(complex(l) - complex(r)) / max(1e-300, abs(complex(r)))
        if e >= worst:
            worst, ob, rq = e, complex(l), complex(r)
    return {"violates": bool(worst > 1e-9), "relative_error": worst, "lhs": [ob.real, ob.imag], "rhs": [rq.real, rq.imag]}


def ob_relation(rel, a, mode, case):
    S.reset()
    pairs = RELATIONS[rel](SymMaker(), a, mode, case)
    for j, (l, r) in enumerate(pairs):
        d = l - r
        if S.is_zero(d):
            continue
        w = S.find_witness(d, seed=2)
        if w is None:
            return undecided("normal form non-zero, no numeric witness (column %d)" % j)
        env, val = w
        rp = replay_relation(rel, a, mode, case, env)
        return violated("%s(%s,%s,%s): lhs - rhs = %s at the witness" % (rel, a, mode, case, val), witness=env,
                        replay={"callable": "checks.c05:replay_relation",
                                "kwargs": {"rel": rel, "a": a, "mode": mode, "case": case, "env": env},
                                "confirmed": rp["violates"], "result": rp},
                        signature="%s/%s/%s" % (rel, a, mode))
    return proved("sym-normal-form", RELATIONS[rel].__doc__)


# ---------------------------------------------------------------------------------------------
# dispatch contracts of the Helmholtz factories (recording stubs)
# ---------------------------------------------------------------------------------------------


class _Recorder:
    def __init__(self, name):
        self.name = name
        self.calls = []

    def __call__(self, *a, **k):
        self.calls.append((a, k))
        return ("result-of", self.name, len(self.calls))


BOUNDARY = ["single_layer", "double_layer", "adjoint_double_layer", "hypersingular"]
POTENTIAL = ["single_layer", "double_layer"]


def _dispatch_boundary(name, wavenumber):
    """Run the real factory with create_operator and the modified factory replaced by recorders."""
    import bempp_cl.api.operators.boundary.helmholtz as H
    import bempp_cl.api.operators.boundary.modified_helmholtz as M
    import bempp_cl.api.operators.boundary.common as C

    class _Space:
        def __init__(self, tag):
            self.tag = tag
            self.shapeset = type("sh", (), {"identifier": "p1_discontinuous"})()

    dom, ran, dual = _Space("domain"), _Space("range"), _Space("dual")
    rec_mod = _Recorder("modified." + name)
    rec_create = _Recorder("create_operator")
    saved = (getattr(M, name), C.create_operator)
    setattr(M, name, rec_mod)
    C.create_operator = rec_create
    try:
        res = getattr(H, name)(dom, ran, dual, wavenumber, "PARAMS", "ASSEMBLER", "DEVICE", "PRECISION")
    finally:
        setattr(M, name, saved[0])
        C.create_operator = saved[1]
    return res, rec_mod, rec_create, (dom, ran, dual)


def _dispatch_potential(name, wavenumber):
    import bempp_cl.api.operators.potential.helmholtz as H
    import bempp_cl.api.operators.potential.modified_helmholtz as M
    import bempp_cl.api.operators as OPS
    import bempp_cl.api.assembly.potential_operator as PO
    import bempp_cl.api.assembly.assembler as AS

    rec_mod = _Recorder("modified." + name)
    rec_desc = _Recorder("OperatorDescriptor")
    rec_asm = _Recorder("PotentialAssembler")
    rec_pot = _Recorder("PotentialOperator")
    saved = (getattr(M, name), OPS.OperatorDescriptor, PO.PotentialOperator, AS.PotentialAssembler)
    setattr(M, name, rec_mod)
    OPS.OperatorDescriptor = rec_desc
    PO.PotentialOperator = rec_pot
    AS.PotentialAssembler = rec_asm
    try:
        res = getattr(H, name)("SPACE", "POINTS", wavenumber, "PARAMS", "ASSEMBLER", "DEVICE", "PRECISION")
    finally:
        setattr(M, name, saved[0])
        OPS.OperatorDescriptor, PO.PotentialOperator, AS.PotentialAssembler = saved[1:]
    return res, rec_mod, rec_desc, rec_asm, rec_pot


def _same(a, b):
    a = S.Sym._coerce(a)
    return a is not None and S.is_zero(a - S.Sym._coerce(b))


def replay_dispatch(kind, name, w):
    """Native: factory(k = i w) must produce the modified operator for omega = w (same descriptor)."""
    k = complex(0.0, w)
    try:
        if kind == "boundary":
            res, rec_mod, rec_create, sp = _dispatch_boundary(name, k)
            ok = len(rec_mod.calls) == 1 and rec_mod.calls[0][0][3] == w and not np.iscomplexobj(rec_mod.calls[0][0][3])
            got = repr(rec_mod.calls[0][0][3]) if rec_mod.calls else None
        else:
            import bempp_cl.api.operators.potential.helmholtz as H
            import bempp_cl.api.operators.potential.modified_helmholtz as M

            res, rec_mod, rec_desc, rec_asm, rec_pot = _dispatch_potential(name, k)
            ok = len(rec_mod.calls) == 1 and rec_mod.calls[0][0][2] == w and not np.iscomplexobj(rec_mod.calls[0][0][2])
            got = repr(rec_mod.calls[0][0][2]) if rec_mod.calls else None
            # and the real modified factory accepts what was forwarded
            if rec_mod.calls:
                try:
                    import bempp_cl.api.operators as OPS
                    import bempp_cl.api.assembly.potential_operator as PO
                    import bempp_cl.api.assembly.assembler as AS

                    saved = (OPS.OperatorDescriptor, PO.PotentialOperator, AS.PotentialAssembler)
                    OPS.OperatorDescriptor = _Recorder("d")
                    PO.PotentialOperator = _Recorder("p")
                    AS.PotentialAssembler = _Recorder("a")
                    try:
                        getattr(M, name)(*rec_mod.calls[0][0])
                    finally:
                        OPS.OperatorDescriptor, PO.PotentialOperator, AS.PotentialAssembler = saved
                except Exception as e:  # noqa
                    return {"violates": True, "observed": "modified factory raised %s: %s" % (type(e).__name__, e),
                            "required": "modified operator for omega=%r" % w, "forwarded": got}
        return {"violates": not ok, "observed": "omega forwarded = %s" % got, "required": "omega = %r (real)" % w}
    except Exception as e:  # noqa
        return {"violates": True, "observed": "%s: %s" % (type(e).__name__, e), "required": "modified operator for omega=%r" % w}


def ob_dispatch(kind, name):
    """Re k == 0  =>  modified factory called once with omega == Im k and otherwise identical arguments, its result
    returned, nothing else created;  Re k != 0  =>  descriptor options == [Re k, Im k], helmholtz kernel type."""
    res = []
    # case A: Re k == 0 (k = i*w, w any real)
    S.reset()
    w = S.var("w")
    k = S.I() * w
    if kind == "boundary":
        out, rec_mod, rec_create, (dom, ran, dual) = _dispatch_boundary(name, k)
        calls, other = rec_mod.calls, rec_create.calls
        expect_rest = (dom, ran, dual, None, "PARAMS", "ASSEMBLER", "DEVICE", "PRECISION")
        pos = 3
    else:
        out, rec_mod, rec_desc, rec_asm, rec_pot = _dispatch_potential(name, k)
        calls, other = rec_mod.calls, rec_desc.calls + rec_asm.calls + rec_pot.calls
        expect_rest = ("SPACE", "POINTS", None, "PARAMS", "ASSEMBLER", "DEVICE", "PRECISION")
        pos = 2
    okA = (len(calls) == 1 and not other and not calls[0][1] and len(calls[0][0]) == len(expect_rest)
           and all(i == pos or a is b for i, (a, b) in enumerate(zip(calls[0][0], expect_rest)))
           and out == ("result-of", "modified." + name, 1))
    if okA and _same(calls[0][0][pos], w):
        res.append(("Re k==0", proved("sym-exec+recording-stubs", "modified.%s called once with omega == Im k, result returned" % name)))
    else:
        got = calls[0][0][pos] if calls else None
        wv = 0.7
        rp = replay_dispatch(kind, name, wv)
        if not rp["violates"]:
            # the symbolic w has no sign: try the other half-line natively
            rp2 = replay_dispatch(kind, name, -0.7)
            if rp2["violates"]:
                wv, rp = -0.7, rp2
        res.append(("Re k==0", violated(
            "helmholtz %s %s with Re k == 0 forwards omega = %s (required: Im k = w) / calls=%d others=%d" % (kind, name, got, len(calls), len(other)),
            witness={"wavenumber": "%sj" % wv},
            replay={"callable": "checks.c05:replay_dispatch", "kwargs": {"kind": kind, "name": name, "w": wv},
                    "confirmed": rp["violates"], "result": rp},
            signature="dispatch/%s/%s" % (kind, name))))
    # case B: Re k != 0
    S.reset()
    kr = S.var("kr", nonzero=True)
    ki = S.var("ki")
    k = kr + S.I() * ki
    if kind == "boundary":
        out, rec_mod, rec_create, (dom, ran, dual) = _dispatch_boundary(name, k)
        ok = not rec_mod.calls and len(rec_create.calls) == 1
        if ok:
            a = rec_create.calls[0][0]
            ok = (a[1] is dom and a[2] is ran and a[3] is dual and a[4] == "PARAMS" and a[5] == "ASSEMBLER" and len(a[6]) == 2
                  and _same(a[6][0], kr) and _same(a[6][1], ki)
                  and a[7] == ("helmholtz_single_layer" if name == "hypersingular" else "helmholtz_" + name)
                  and a[9] == "DEVICE" and a[10] == "PRECISION" and a[11] is True
                  and out == ("result-of", "create_operator", 1))
            exp_asm = "helmholtz_hypersingular" if name == "hypersingular" else "default_scalar"
            ok = ok and a[8] == exp_asm and a[0] == "helmholtz_%s_boundary" % name
    else:
        out, rec_mod, rec_desc, rec_asm, rec_pot = _dispatch_potential(name, k)
        ok = not rec_mod.calls and len(rec_desc.calls) == 1 and len(rec_asm.calls) == 1 and len(rec_pot.calls) == 1
        if ok:
            a = rec_desc.calls[0][0]
            b = rec_asm.calls[0][0]
            ok = (len(a[1]) == 2 and _same(a[1][0], kr) and _same(a[1][1], ki) and a[2] == "helmholtz_" + name and a[3] == "default_scalar"
                  and a[4] == "PRECISION" and a[5] is True and a[7] == 1
                  and b[0] == "SPACE" and b[1] == "POINTS" and b[2] == ("result-of", "OperatorDescriptor", 1) and b[3] == "DEVICE"
                  and b[4] == "ASSEMBLER" and b[5] == "PARAMS"
                  and rec_pot.calls[0][0][0] == ("result-of", "PotentialAssembler", 1) and out == ("result-of", "PotentialOperator", 1))
    if ok:
        res.append(("Re k!=0", proved("sym-exec+recording-stubs", "descriptor carries [Re k, Im k] and the helmholtz_%s kernel" % name)))
    else:
        res.append(("Re k!=0", violated("helmholtz %s %s with Re k != 0 builds a wrong descriptor" % (kind, name),
                                         signature="dispatch-desc/%s/%s" % (kind, name))))
    return res


# ---------------------------------------------------------------------------------------------


def replay_operator_relations():
    """Native (floats), all four Helmholtz boundary operators between two DIFFERENT grids (stretched / rotated octahedron vs tetrahedron) and on one grid:
    the operator from A to B is the transpose of the operator from B to A (single layer, hypersingular; double <-> adjoint double), k -> -conj k conjugates,
    and the operator for k = eps + i w tends to the modified Helmholtz operator for w as eps -> 0."""
    import warnings

    import bempp_cl.api as api
    from bempp_cl.api.operators.boundary import helmholtz as H, modified_helmholtz as M
    from vlib import symgrid as SG, zoo as Z

    warnings.simplefilter("ignore")
    v1, e1 = SG.octa()
    v2, e2 = SG.tetra()
    c, s_ = np.cos(0.6), np.sin(0.6)
    R = np.array([[c, -s_, 0], [s_, c, 0], [0, 0, 1.0]])
    gA = SG.make_grid(v1, e1)
    gB = SG.make_grid(R @ (np.array([[1.4], [0.8], [1.1]]) * v2) + np.array([[3.2], [0.4], [-0.5]]), e2)
    par = Z.params(3, 3)
    problems, worst = [], 0.0

    class Raised(Exception):
        pass

    def dense(op):
        try:
            return np.asarray(Z.dense(op))
        except Exception as ex:  # noqa  (a well-formed operator between two grids must assemble)
            raise Raised("%s: %s" % (type(ex).__name__, str(ex)[:120]))

    gD = Z.grid_with_domains("octa")
    for (ga, gb), tag in (((gA, gB), "two grids"), ((gA, gA), "one grid"), ((gD, gD), "one grid, segment spaces")):
        if tag == "one grid, segment spaces":
            # P1 on two different segments with default options: elements of the supports mix slots with and without dof, test and trial multipliers differ
            pa, pb = api.function_space(ga, "P", 1, segments=[1, 2]), api.function_space(gb, "P", 1, segments=[2, 3])
        else:
            pa, pb = api.function_space(ga, "P", 1), api.function_space(gb, "P", 1)
        try:
            H.hypersingular(pa, pb, pb, 1.3 + 0.4j, parameters=par).weak_form()
            H.hypersingular(pb, pa, pa, 1.3 + 0.4j, parameters=par).weak_form()
        except Exception as ex:  # noqa
            problems.append("hypersingular [%s] raises %s: %s" % (tag, type(ex).__name__, str(ex)[:120]))
            continue
        for k in (1.3 + 0.4j, 0.8):
            rel = {
                "single layer symmetric": (dense(H.single_layer(pa, pb, pb, k, parameters=par)), dense(H.single_layer(pb, pa, pa, k, parameters=par)).T),
                "hypersingular symmetric": (dense(H.hypersingular(pa, pb, pb, k, parameters=par)), dense(H.hypersingular(pb, pa, pa, k, parameters=par)).T),
                "adjoint double = transposed double": (dense(H.adjoint_double_layer(pa, pb, pb, k, parameters=par)), dense(H.double_layer(pb, pa, pa, k, parameters=par)).T),
                "hypersingular(-conj k) = conj": (dense(H.hypersingular(pa, pb, pb, -np.conj(k), parameters=par)), np.conj(dense(H.hypersingular(pa, pb, pb, k, parameters=par)))),
            }
            for name, (x, y) in rel.items():
                e = float(np.abs(x - y).max() / max(1e-300, np.abs(y).max()))
                # two grids: the regular tensor rule is symmetric in test / trial, the relations hold to rounding; one grid: the Duffy rules are not symmetric in
                # the two elements, the relations hold up to the singular quadrature error (3e-5 .. 1e-3 at order 3); conjugation is exact in both cases
                tol = 1e-10 if (tag == "two grids" or "conj" in name) else 5e-3
                if tag == "two grids" or "conj" in name:
                    worst = max(worst, e)
                if e > tol:
                    problems.append("%s [%s, k=%s]: %.2e" % (name, tag, k, e))
        w = 0.9
        for name, hf, mf in (("single_layer", H.single_layer, M.single_layer), ("double_layer", H.double_layer, M.double_layer),
                             ("adjoint_double_layer", H.adjoint_double_layer, M.adjoint_double_layer), ("hypersingular", H.hypersingular, M.hypersingular)):
            x = dense(hf(pa, pb, pb, 1e-9 + 1j * w, parameters=par))
            y = dense(mf(pa, pb, pb, w, parameters=par))
            e = float(np.abs(x - y).max() / np.abs(y).max())
            worst = max(worst, e)
            if e > 1e-7:
                problems.append("%s(1e-9 + i w) vs modified(w) [%s]: %.2e" % (name, tag, e))
    return {"violates": bool(problems), "problems": problems, "worst": worst}


def ob_operator_relations():
    r = replay_operator_relations()
    if r["violates"]:
        return violated("Helmholtz operator relations fail at matrix level: %s" % "; ".join(r["problems"][:4]), witness={"problems": r["problems"]}, signature="operator-relations",
                        replay={"callable": "checks.c05:replay_operator_relations", "kwargs": {}, "confirmed": True})
    from vlib.framework import held

    return held("symmetry / adjointness / conjugation / limit relations between two grids and on one grid: worst %.1e" % r["worst"])


def main():
    run = Run("C05", "proof")
    run.explanation = ("Every Helmholtz / modified Helmholtz Green's-function kernel of numba_kernels.py is executed as plain Python "
                       "(NUMBA_DISABLE_JIT=1) on symbolic proxies with generic columns; the outputs are compared as exponential "
                       "polynomials with the spec functions and with each other (all real k_r, k_i, w: case split k_i != 0 / k_i == 0). "
                       "The factories are executed on a symbolic wavenumber with recording stubs.")
    tables = KR.kernel_tables()
    for mode in MODES:
        for fam in ("helmholtz", "modified_helmholtz"):
            for layer in LAYERS:
                key = "%s_%s" % (fam, layer)
                f = tables["kernel_functions_" + mode][key]
                run.under_contract(f, dropped="@numba.jit decorator options (nopython, fastmath, boundscheck)")
                run.add("numba_kernels.%s::map-rule" % KR.pyfunc(f).__name__, "frame", KR.ob_map_rule, key, mode)
                run.add("numba_kernels.%s::post" % KR.pyfunc(f).__name__, "post", KR.ob_code_equals_spec, key, mode)
        for layer in LAYERS:
            f = tables["kernel_functions_" + mode]["laplace_" + layer]
            run.under_contract(f)
            run.add("numba_kernels.%s::map-rule" % KR.pyfunc(f).__name__, "frame", KR.ob_map_rule, "laplace_" + layer, mode)
            for case in ("ki!=0", "ki==0"):
                run.add("lemma.helmholtz_%s_%s==laplace*factor[%s]" % (layer, mode, case), "lemma", ob_relation, "helm_vs_laplace", layer, mode, case)
                run.add("lemma.helmholtz_%s_%s(-conj k)==conj[%s]" % (layer, mode, case), "lemma", ob_relation, "conj", layer, mode, case)
            for case in ("w!=0", "w==0"):
                run.add("lemma.helmholtz_%s_%s(iw)==modified(w)[%s]" % (layer, mode, case), "lemma", ob_relation, "helm_iw_vs_modified", layer, mode, case)
        for fam in ("laplace", "helmholtz", "modified_helmholtz"):
            for case in (("ki!=0", "ki==0") if fam == "helmholtz" else ("-",)):
                run.add("lemma.%s_single_layer_%s.symmetric[%s]" % (fam, mode, case), "lemma", ob_relation, "symmetry_single", fam, mode, case)
                run.add("lemma.%s_adjoint_%s==double(exchanged)[%s]" % (fam, mode, case), "lemma", ob_relation, "adjoint_is_transposed_double", fam, mode, case)
    import bempp_cl.api.operators.boundary.helmholtz as HB
    import bempp_cl.api.operators.potential.helmholtz as HP

    for name in BOUNDARY:
        run.under_contract(getattr(HB, name))
        run.add("operators.boundary.helmholtz.%s::dispatch" % name, "post", ob_dispatch, "boundary", name)
    for name in POTENTIAL:
        run.under_contract(getattr(HP, name))
        run.add("operators.potential.helmholtz.%s::dispatch" % name, "post", ob_dispatch, "potential", name)
    run.add("operators.relations[two grids + one grid, matrices]", "bounded", ob_operator_relations)
    run.bound("matrix-level relations: octahedron vs a stretched, rotated, shifted tetrahedron, P1 spaces, orders (3, 3)")
    run.assume("analytic: |e^z - 1 - z| <= |z|^2 e^{|z|}/2 and its integration against |phi||psi| (Taylor clause of C05) -- not mechanised; "
               "the code-dependent content (helmholtz kernel == laplace kernel * e^{ikr}(1-ikr)^{0/1}) is proved")
    run.assume("x != y (r > 0) in every kernel identity; the kernels are singular there")
    run.assume("create_operator / PotentialAssembler build the operator from the descriptor they are given (covered under C01/C02/C18)")
    return run.finish()


if __name__ == "__main__":
    sys.exit(main())
