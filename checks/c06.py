"""C06 hypersingular and Maxwell operators equal their single-layer decompositions (DESIGN 3, C06)."""

import sys
import warnings

import numpy as np

from vlib import sym as S
from vlib import kernelrun as KR
from vlib import symgrid as SG
from vlib import pipeline as PL
from vlib import zoo as Z
from vlib.objnp import patched
from vlib.framework import Run, proved, violated, undecided, held
from specs import galerkin as GS
from specs import maxwell as MS
from checks.c01 import ob_curl_lemma

RWG = ("RWG", 0, {"include_boundary_dofs": True})
SNC = ("SNC", 0, {"include_boundary_dofs": True})
DP1 = ("DP", 1, {})


def ob_piola_lemma():
    """lemma (generic triangle, geometry from the real geometric code): get_piola_transform * get_edge_lengths equals the spec RWG function
    l_f J ref_f / |J|; the reference divergence of the rwg0 shapeset is 2 (so div phi_f = 2 l_f / |J|);
    space evaluators: _numba_rwg0_evaluate = multiplier * that, _numba_snc0_evaluate = n x (rwg)."""
    from bempp_cl.core import numba_kernels as NK
    from bempp_cl.api.space import shapesets as SH, maxwell_spaces as MX
    from bempp_cl.api.grid import grid as G

    S.reset()
    el = np.array([[0], [1], [2]])
    g = SG.symbolic_geometry(el, 3)
    data = G.GridDataDouble(g._vertices, el.astype("uint32"), None, None, g._volumes, g._normals, g._jacobians, g._jacobian_inverse_transposed,
                            g._diameters, g._integration_elements, g._centroids, None, None, None, None)
    geo = GS.Geometry(g._vertices, el)
    pts = S.symarray("q", (2, 1))
    with patched(NK), patched(MX):
        piola = KR.pyfunc(NK.get_piola_transform)(data, [0], pts)
        lens = KR.pyfunc(NK.get_edge_lengths)(data, [0])
        mult = np.array([[1, -1, 1]])
        nm = np.array([1])
        rwg_eval = KR.pyfunc(MX._numba_rwg0_evaluate)(0, KR.pyfunc(SH._rwg0_shapeset_evaluate), pts, data, mult, nm)
        snc_eval = KR.pyfunc(MX._numba_snc0_evaluate)(0, KR.pyfunc(SH._rwg0_shapeset_evaluate), pts, data, mult, nm)
    res = []
    J = geo.int_elem(0)
    n = geo.normal(0)
    ok = True
    for f in range(3):
        want = [c / J for c in MS.rwg_times_jac(geo, 0, f, pts[0, 0], pts[1, 0])]
        for c in range(3):
            if not S.is_zero(S.Sym._coerce(piola[0, f, c, 0]) * lens[0, f] - want[c]):
                ok = False
            if not S.is_zero(S.Sym._coerce(rwg_eval[c, f, 0]) - want[c] * int(mult[0, f])):
                res.append(("rwg0_evaluate[%d,%d]" % (f, c), violated("_numba_rwg0_evaluate differs from multiplier * l J ref / |J|", signature="piola/rwg_eval")))
        cr = [n[1] * want[2] - n[2] * want[1], n[2] * want[0] - n[0] * want[2], n[0] * want[1] - n[1] * want[0]]
        for c in range(3):
            if not S.is_zero(S.Sym._coerce(snc_eval[c, f, 0]) - cr[c] * int(mult[0, f])):
                res.append(("snc0_evaluate[%d,%d]" % (f, c), violated("_numba_snc0_evaluate differs from n x rwg", signature="piola/snc_eval")))
    res.append(("piola*edge_length", proved("sym-normal-form", "9 components") if ok else violated("get_piola_transform * edge length differs from the RWG spec", signature="piola")))
    ref = KR.pyfunc(SH._rwg0_shapeset_evaluate)(pts)
    okd = all(S.is_zero(S.diff(S.Sym._coerce(ref[0, f, 0]), pts[0, 0]) + S.diff(S.Sym._coerce(ref[1, f, 0]), pts[1, 0]) - 2) for f in range(3))
    res.append(("reference-divergence==2", proved("sym-diff") if okd else violated("reference divergence of the rwg0 shapeset is not 2", signature="piola/div")))
    if len(res) == 2:
        res.append(("space-evaluators", proved("sym-normal-form", "rwg0 and snc0 evaluators, 18 components")))
    return res


# ---- bounded: matrix-level decompositions ------------------------------------------------------------


def _maps_p1(space, grid):
    """C_c (curl components, -> DP0 dofs = element index), N_c (normal weighting, -> DP1 dofs 3E+f)."""
    ne = grid.number_of_elements
    nd = space.global_dof_count
    C = [np.zeros((ne, nd)) for _ in range(3)]
    N = [np.zeros((3 * ne, nd)) for _ in range(3)]
    for E in space.support_elements:
        v = grid.vertices[:, grid.elements[:, E]]
        J = grid.integration_elements[E]
        nm = space.normal_multipliers[E]
        curls = [(v[:, 1] - v[:, 2]) / J * nm, (v[:, 2] - v[:, 0]) / J * nm, (v[:, 0] - v[:, 1]) / J * nm]
        for f in range(3):
            d = space.local2global[E, f]
            m = space.local_multipliers[E, f]
            for c in range(3):
                C[c][E, d] += m * curls[f][c]
                N[c][3 * E + f, d] += m * grid.normals[E, c] * nm
    return C, N


def _maps_rwg(space, grid):
    """R_c (component maps -> DP1 dofs 3E+v: value of component c at local vertex v), D (divergence -> DP0 dof E)."""
    ne = grid.number_of_elements
    nd = space.global_dof_count
    R = [np.zeros((3 * ne, nd)) for _ in range(3)]
    D = np.zeros((ne, nd))
    refv = [(0.0, 0.0), (1.0, 0.0), (0.0, 1.0)]
    for E in space.support_elements:
        v = grid.vertices[:, grid.elements[:, E]]
        Jm = np.column_stack([v[:, 1] - v[:, 0], v[:, 2] - v[:, 0]])
        J = grid.integration_elements[E]
        for f in range(3):
            a, b = MS.EDGE_LOCAL[f]
            l = np.linalg.norm(v[:, a] - v[:, b])
            d = space.local2global[E, f]
            m = space.local_multipliers[E, f]
            D[E, d] += m * 2 * l / J
            for vi, (x1, x2) in enumerate(refv):
                val = l / J * (Jm @ np.array(MS.ref_rwg(f, x1, x2)))
                for c in range(3):
                    R[c][3 * E + vi, d] += m * val[c]
    return R, D


P1_VARIANTS = [{}, {"include_boundary_dofs": True}, {"segments": [1, 2]}, {"segments": [2], "include_boundary_dofs": True, "truncate_at_segment_edge": False},
               {"segments": [1, 2], "swapped_normals": [2]}]
EDGE_VARIANTS = [{}, {"include_boundary_dofs": True}, {"segments": [1, 2]}, {"segments": [2], "include_boundary_dofs": True},
                 {"segments": [2], "include_boundary_dofs": True, "truncate_at_segment_edge": False}]


def ob_decomposition(gridname, family, k):
    """bounded: W == sum_c C_c' V0 C_c - k^2 sum_c N_c' V1 N_c  (Laplace k=0, Helmholtz, modified k = i w) and
    E == -ik sum_c R_c' V1 R_c - (1/(ik)) D' V0 D, to rounding (1e-11), with V0, V1 the library's own single-layer matrices of the same
    wavenumber and quadrature orders on the full-grid DP0 / DP1 spaces."""
    import bempp_cl.api as api

    warnings.simplefilter("ignore")
    grid = Z.grid_with_domains(gridname)
    par = Z.params(3, 3)
    dp0 = api.function_space(grid, "DP", 0)
    dp1 = api.function_space(grid, "DP", 1)
    slname = {"laplace": "laplace_single", "helmholtz": "helmholtz_single", "modified": "modified_single", "maxwell": "helmholtz_single"}[family]
    V0 = Z.dense(Z.boundary_operator(slname, dp0, dp0, dp0, par, wavenumber=k))
    V1 = Z.dense(Z.boundary_operator(slname, dp1, dp1, dp1, par, wavenumber=k))
    worst = 0.0
    n = 0
    if family == "maxwell":
        for kw_t in EDGE_VARIANTS:
            for kw_r in (kw_t, EDGE_VARIANTS[1]):
                test = api.function_space(grid, "SNC", 0, **kw_t)
                trial = api.function_space(grid, "RWG", 0, **kw_r)
                if kw_r is kw_t and not (np.array_equal(test.support, trial.support) and np.array_equal(test.local2global, trial.local2global)
                                         and np.array_equal(test.local_multipliers, trial.local_multipliers) and test.global_dof_count == trial.global_dof_count):
                    # "complex symmetric when test and trial come from the same edge space": SNC and RWG built with the same options are that space (same support,
                    # dof map and multipliers); with equal maps the decomposition below is symmetric term by term
                    return violated("SNC and RWG spaces built on %s with the same options %s are not the same edge space: supports %s / %s, %d / %d dofs" % (
                        gridname, kw_t, np.flatnonzero(test.support).tolist(), np.flatnonzero(trial.support).tolist(), test.global_dof_count, trial.global_dof_count),
                        witness={"grid": gridname, "options": kw_t}, signature="decomposition/maxwell/same-edge-space",
                        replay={"callable": "checks.c06:replay_decomposition", "kwargs": {"gridname": gridname, "family": family, "k": [np.real(k), np.imag(k)]}, "confirmed": True})
                A = Z.dense(Z.boundary_operator("maxwell_electric", trial, trial, test, par, wavenumber=k))
                Rt, Dt = _maps_rwg(test, grid)
                Rr, Dr = _maps_rwg(trial, grid)
                B = -1j * k * sum(Rt[c].T @ V1 @ Rr[c] for c in range(3)) - (1 / (1j * k)) * Dt.T @ V0 @ Dr
                err = Z.relerr(A, B)
                worst = max(worst, err)
                n += 1
                if err > 1e-11:
                    return violated("Maxwell E on %s (k=%s, test %s, trial %s) differs from -ik R'V1R - D'V0D/(ik) by %.2e" % (gridname, k, kw_t, kw_r, err),
                                    witness={"grid": gridname, "k": str(k), "test": kw_t, "trial": kw_r}, signature="decomposition/maxwell",
                                    replay={"callable": "checks.c06:replay_decomposition", "kwargs": {"gridname": gridname, "family": family, "k": [np.real(k), np.imag(k)]}, "confirmed": True})
    else:
        opname = {"laplace": "laplace_hyp", "helmholtz": "helmholtz_hyp", "modified": "modified_hyp"}[family]
        k2 = 0 if family == "laplace" else (k * k if family == "helmholtz" else -(k * k))
        for kw_t in P1_VARIANTS:
            for kw_r in (kw_t, P1_VARIANTS[1]):
                test = api.function_space(grid, "P", 1, **kw_t)
                trial = api.function_space(grid, "P", 1, **kw_r)
                A = Z.dense(Z.boundary_operator(opname, trial, trial, test, par, wavenumber=k))
                Ct, Nt = _maps_p1(test, grid)
                Cr, Nr = _maps_p1(trial, grid)
                B = sum(Ct[c].T @ V0 @ Cr[c] for c in range(3)) - k2 * sum(Nt[c].T @ V1 @ Nr[c] for c in range(3))
                err = Z.relerr(A, B)
                worst = max(worst, err)
                n += 1
                if err > 1e-11:
                    return violated("%s hypersingular on %s (k=%s, test %s, trial %s) differs from C'V0C - k^2 N'V1N by %.2e" % (family, gridname, k, kw_t, kw_r, err),
                                    witness={"grid": gridname, "k": str(k), "test": kw_t, "trial": kw_r}, signature="decomposition/" + family,
                                    replay={"callable": "checks.c06:replay_decomposition", "kwargs": {"gridname": gridname, "family": family, "k": [np.real(k), np.imag(k)] if k is not None else None},
                                            "confirmed": True})
    return held("%d space combinations, worst %.1e" % (n, worst))


def replay_decomposition(gridname, family, k):
    kk = None if k is None else (k[0] if k[1] == 0 else complex(k[0], k[1]))
    r = ob_decomposition(gridname, family, kk)
    return {"violates": r["status"] == "violated", "detail": r["detail"]}


def ob_symmetry_and_constants(gridname):
    """bounded: on a closed grid the Laplace hypersingular matrix annihilates constants (rounding); Maxwell E and M matrices are complex
    symmetric for equal edge spaces up to singular-quadrature error (decreasing with the singular order)."""
    import bempp_cl.api as api

    warnings.simplefilter("ignore")
    grid = Z.grid_with_domains(gridname)
    p1 = api.function_space(grid, "P", 1)
    W = Z.dense(Z.boundary_operator("laplace_hyp", p1, p1, p1, Z.params(4, 4)))
    ann = np.linalg.norm(W @ np.ones(p1.global_dof_count)) / np.linalg.norm(W)
    if ann > 1e-12:
        return violated("Laplace hypersingular matrix does not annihilate constants on %s: %.2e" % (gridname, ann), signature="constants", replay={"confirmed": True})
    rwg = api.function_space(grid, "RWG", 0)
    snc = api.function_space(grid, "SNC", 0)
    txt = ["W*1 %.1e" % ann]
    for name in ("maxwell_electric", "maxwell_magnetic"):
        errs = []
        for so in (3, 6):
            A = Z.dense(Z.boundary_operator(name, rwg, rwg, snc, Z.params(4, so), wavenumber=1.2 + 0.3j))
            errs.append(Z.relerr(A, A.T))
        txt.append("%s asym %.1e -> %.1e" % (name, errs[0], errs[1]))
        if not (errs[1] < 1e-4 and errs[1] <= errs[0] * 1.01):
            return violated("%s on %s is not complex symmetric: %.2e (order 3), %.2e (order 6)" % (name, gridname, errs[0], errs[1]), signature="symmetry/" + name,
                            replay={"confirmed": True})
    return held("; ".join(txt))


def replay_factory_guards():
    """Error paths of the factories whose bilinear forms need particular spaces: hypersingular operators take surface curls of piecewise-linear functions (shapeset
    p1_discontinuous: P1, DP1) and reject piecewise constants; the Maxwell boundary operators take div-conforming trial functions (identifier rwg0: RWG, BC) and
    curl-conforming test functions (snc0: SNC, RBC).  Anything else must raise ValueError instead of producing numbers."""
    import importlib
    import warnings

    import bempp_cl.api as api

    warnings.simplefilter("ignore")
    g = Z.grid_with_domains("octa")
    par = Z.params(2, 2)
    sp = {k: api.function_space(g, *v) for k, v in {"DP0": ("DP", 0), "DP1": ("DP", 1), "P1": ("P", 1), "RWG": ("RWG", 0), "SNC": ("SNC", 0), "BC": ("BC", 0), "RBC": ("RBC", 0)}.items()}
    problems = []

    def expect(label, thunk, ok):
        try:
            thunk()
        except ValueError:
            if ok:
                problems.append("%s is rejected although the spaces are admissible" % label)
            return
        except Exception as ex:  # noqa
            problems.append("%s raises %s instead of %s" % (label, type(ex).__name__, "nothing" if ok else "ValueError"))
            return
        if not ok:
            problems.append("%s is accepted although the spaces are not admissible" % label)

    for fam, k in (("laplace", None), ("helmholtz", 1.1 + 0.2j), ("modified_helmholtz", 0.8)):
        mod = importlib.import_module("bempp_cl.api.operators.boundary." + fam)
        for dom in ("DP0", "DP1", "P1"):
            for dual in ("DP0", "DP1", "P1"):
                args = (sp[dom], sp[dom], sp[dual]) + (() if k is None else (k,))
                expect("%s.hypersingular(domain %s, dual %s)" % (fam, dom, dual), lambda a=args: mod.hypersingular(*a, parameters=par), dom != "DP0" and dual != "DP0")
    from bempp_cl.api.operators.boundary import maxwell as MB

    for name in ("electric_field", "magnetic_field"):
        for dom in ("RWG", "SNC", "BC", "RBC", "P1"):
            for dual in ("RWG", "SNC", "BC", "RBC"):
                expect("maxwell.%s(domain %s, dual %s)" % (name, dom, dual), lambda d=dom, t=dual, n=name: getattr(MB, n)(sp[d], sp[d], sp[t], 1.2, parameters=par),
                       dom in ("RWG", "BC") and dual in ("SNC", "RBC"))
    return {"violates": bool(problems), "problems": problems[:8]}


def ob_factory_guards():
    r = replay_factory_guards()
    if r["violates"]:
        return violated("space-kind guards of the hypersingular / Maxwell factories: %s" % "; ".join(r["problems"][:4]), witness={"problems": r["problems"]}, signature="factory-guards",
                        replay={"callable": "checks.c06:replay_factory_guards", "kwargs": {}, "confirmed": True})
    return held("hypersingular: P1 / DP1 accepted, DP0 rejected (3 families); Maxwell: RWG / BC x SNC / RBC accepted, everything else rejected")


def main():
    run = Run("C06", "other")
    thorough = run.tier == "thorough"
    run.explanation = ("Deductive: the real hypersingular (Laplace/Helmholtz/modified) and Maxwell (electric/magnetic) regular and singular "
                       "assemblers, run through the real pipeline with a kernel stub, free geometry fields and generic quadrature rules, equal "
                       "the Galerkin sums with integrand curl.curl -/+ k^2 n.n phi psi, -ik phi.psi - div div/(ik), grad G.(phi x psi) (P-sizes); "
                       "element lemmas on a generic triangle with the real geometry code: Piola transform * edge length = RWG spec, SNC = n x RWG, "
                       "reference divergence 2, surface curls = edge vectors/|J| summing to zero. These integrands are pointwise the "
                       "single-layer integrands of the component/curl/divergence maps, so the matrix decompositions hold for the same quadrature. "
                       "Bounded: the decompositions at matrix level with the library's own V0, V1; symmetry; constants annihilated.")
    from bempp_cl.core import numba_kernels as NK

    for name in ("laplace_hypersingular_regular", "laplace_hypersingular_singular", "helmholtz_hypersingular_regular", "helmholtz_hypersingular_singular",
                 "modified_helmholtz_hypersingular_regular", "modified_helmholtz_hypersingular_singular", "maxwell_efield_regular_assembler",
                 "maxwell_efield_singular", "maxwell_mfield_regular_assembler", "maxwell_mfield_singular", "get_piola_transform", "get_edge_lengths"):
        run.under_contract(getattr(NK, name), dropped="numeric dtypes; linalg.norm shim; kernel and quadrature rules replaced by contract stubs")
    cases = [("helmholtz_hypersingular", DP1, DP1, ("ki!=0", "ki==0")), ("modified_helmholtz_hypersingular", DP1, DP1, ("w",)),
             ("maxwell_electric_field", SNC, RWG, ("ki!=0", "ki==0")), ("maxwell_magnetic_field", SNC, RWG, ("ki!=0", "ki==0"))]
    for at, ts, rs, pcs in cases:
        for pc in pcs:
            for mesh in ("pair:2:012:120", "pair:2:201:021", "pair:1:012:201", "pair:1:120:012") + (("tetra",) if (thorough or pc == pcs[0]) else ()):
                run.add("pipeline.%s[%s %s]" % (at, mesh, pc), "post", PL.ob_pipeline, mesh, ts, rs, None, None, at, pc)
            run.add("pipeline.%s[two grids, all regular, %s]" % (at, pc), "post", PL.ob_pipeline, "pair:2:012:120", ts, rs, None, "pair:1:012:201", at, pc)
            if at.startswith("maxwell") and pc == pcs[0]:
                # "with and without boundary dofs": default options leave two of the three local edge functions of every element without a dof (multiplier 0)
                run.add("pipeline.%s[two grids, all regular, no boundary dofs (zero multipliers), %s]" % (at, pc), "post", PL.ob_pipeline, "pair:2:012:120", ("SNC", 0, {}), ("RWG", 0, {}),
                        None, "pair:2:201:021", at, pc)
    sw = ("DP", 1, {"swapped_normals": [2]})
    for at, pc in (("laplace_hypersingular", "-"), ("helmholtz_hypersingular", "ki!=0"), ("modified_helmholtz_hypersingular", "w")):
        run.add("pipeline.%s[tetra, mixed swapped normals]" % at, "post", PL.ob_pipeline, "tetra", sw, DP1, [1, 2, 2, 1], None, at, pc)
    if thorough:
        for at, ts, rs, pcs in cases:
            run.add("pipeline.%s[screen2 %s]" % (at, pcs[0]), "post", PL.ob_pipeline, "screen2", ts, rs, None, None, at, pcs[0])
    run.add("lemma.piola+evaluators", "lemma", ob_piola_lemma)
    run.add("lemma.surface-curls", "lemma", ob_curl_lemma)
    for g in ("octa", "screen2") if thorough else ("octa",):
        run.add("decomposition.laplace[%s]" % g, "bounded", ob_decomposition, g, "laplace", None)
        run.add("decomposition.helmholtz[%s]" % g, "bounded", ob_decomposition, g, "helmholtz", 1.1 + 0.3j)
        run.add("decomposition.modified[%s]" % g, "bounded", ob_decomposition, g, "modified", 0.8)
        run.add("decomposition.maxwell[%s]" % g, "bounded", ob_decomposition, g, "maxwell", 1.2 + 0.2j)
        run.add("decomposition.maxwell.real-k[%s]" % g, "bounded", ob_decomposition, g, "maxwell", 1.5)
        run.add("decomposition.maxwell.imaginary-k[%s]" % g, "bounded", ob_decomposition, g, "maxwell", 0.9j)
        run.add("decomposition.helmholtz.imaginary-k[%s]" % g, "bounded", ob_decomposition, g, "helmholtz", 0.7j)
    run.add("symmetry+constants[octa]", "bounded", ob_symmetry_and_constants, "octa")
    run.add("factories.space-kind-guards", "bounded", ob_factory_guards)
    run.bound("pipeline contracts: two-element meshes (4 local numberings), tetrahedron, two disjoint grids (thorough: 2x2 screen); 2 regular / 3,2,1 singular points")
    run.bound("matrix decompositions: octahedron (thorough: + screen) with 3 domain indices, 5 space option sets x 2, orders (3,3)")
    run.assume("Piola identity: surface divergence of J ref/|J| equals the reference divergence / |J| (mathematics)")
    run.assume("x != y, k != 0")
    return run.finish()


if __name__ == "__main__":
    sys.exit(main())
