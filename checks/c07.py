"""C07 boundary operators between disjoint grids equal Galerkin-tested potentials (DESIGN 3, C07)."""

import sys
import warnings

import numpy as np

from vlib import sym as S
from vlib import symgrid as SG
from vlib import pipeline as PL
from vlib import potential as PT
from vlib import kernelrun as KR
from vlib import zoo as Z
from vlib.objnp import patched
from vlib.framework import Run, proved, violated, undecided, held


def ob_tested_potential(kernel_key, par_case, test_spec, trial_spec, mesh1="pair:2:012:120", mesh2="pair:1:012:201"):
    """lemma over the two real code paths (regular assembler with grids_identical=False, potential kernel), same symbolic two-grid data,
    real kernel: sum_c A[r,c] x_c == sum_{E,f -> r} m_{E,f} sum_p w_p |J_E| phi_f(q_p) Pot[x](x_{E,p}), the points x_{E,p} taken
    from the library's own grid_to_points (ordering nq*E + p)."""
    import bempp_cl.api as api
    from bempp_cl.api.operators import OperatorDescriptor
    from bempp_cl.api.assembly.assembler import PotentialAssembler
    from bempp_cl.core.dense_assembler import assemble_dense
    from bempp_cl.api.grid import grid as G

    S.reset()
    par = [c for c in KR.param_cases(kernel_key) if c[0] == par_case][0][1]
    g1 = SG.make_grid(*PL._mesh(mesh1))
    v2, e2 = PL._mesh(mesh2)
    g2 = SG.make_grid(v2 + np.array([[3.0], [0.4], [0.2]]), e2)
    test = PL.make_space(g1, test_spec)
    trial = PL.make_space(g2, trial_spec)
    SG.attach_symbolic(g1, "v")
    SG.attach_symbolic(g2, "u")
    pts = PT.keep(S.symarray("q", (2, 2)))
    wts = PT.keep(S.symarray("qw", (2,), positive=True))
    x = S.symarray("x", (trial.global_dof_count,))
    desc = OperatorDescriptor("c07", par, kernel_key, "default_scalar", "double", True, None, 1)
    PT.densify(trial)
    with SG.object_pipeline(lambda order: (pts, wts), None, {}):
        A = assemble_dense(trial, test, api.GLOBAL_PARAMETERS, desc, "numba")
        with patched(G):
            cloud = G.grid_to_points(g1.data("double"), np.asarray(pts))
        points = PT.keep(np.asarray(cloud).T)
        pot = np.asarray(PotentialAssembler(trial, points, desc, "numba", "dense", api.GLOBAL_PARAMETERS).evaluate(x))
    if pot.shape != (1, 2 * g1.number_of_elements):
        return violated("tested potential has shape %s" % (pot.shape,), signature="c07/shape")
    phi = np.asarray(KR.pyfunc(test.shapeset.evaluate)(np.asarray(pts)))
    d1 = g1.data("double")
    tested = np.empty(test.global_dof_count, dtype=object)
    tested.fill(0)
    for E in test.support_elements:
        E = int(E)
        for f in range(test.number_of_shape_functions):
            acc = 0
            for p in range(2):
                acc = acc + wts[p] * phi[0, f, p] * pot[0, 2 * E + p]
            r = int(test.local2global[E, f])
            tested[r] = tested[r] + acc * d1.integration_elements[E] * int(test.local_multipliers[E, f])
    for r in range(test.global_dof_count):
        lhs = 0
        for c in range(trial.global_dof_count):
            lhs = lhs + A[r, c] * x[c]
        d = S.Sym._coerce(lhs) - S.Sym._coerce(tested[r])
        if not S.is_zero(d):
            w = S.find_witness(d, seed=9)
            if w is None:
                return undecided("row %d: normal form non-zero, no witness" % r)
            return violated("row %d of the two-grid %s matrix differs from the tested potential (difference %s at the witness)" % (r, kernel_key, w[1]),
                            witness={"env": w[0]}, signature="c07/%s" % kernel_key, replay={"confirmed": False})
    return proved("sym-exec+normal-form", "%d rows x %d columns, %d test points" % (test.global_dof_count, trial.global_dof_count, pot.shape[1]))


# ---- bounded numeric: all families incl. Maxwell -----------------------------------------------------


def _two_grids(translate=False):
    v, e = SG.octa()
    g1 = SG.make_grid(v, e)
    if translate:
        # the second grid is a pure translate of the first with the same vertex / element numbering
        return g1, SG.make_grid(v + np.array([[4.0], [0.5], [-0.3]]), e)
    v2, e2 = SG.tetra()
    g2 = SG.make_grid(0.8 * v2 + np.array([[3.5], [0.6], [-0.4]]), e2)
    return g1, g2


def tested_scalar(op, pot_mod, pot_name, k, tk, rk, order, translate=False):
    import importlib
    import bempp_cl.api as api
    from bempp_cl.api.integration.triangle_gauss import rule

    warnings.simplefilter("ignore")
    g1, g2 = _two_grids(translate)
    # between disjoint grids only the REGULAR order may matter: the singular order is chosen different from it
    par = Z.params(order, order + 2 if order % 2 else max(1, order - 3))
    test = api.function_space(g1, tk[0], tk[1], **(tk[2] if len(tk) > 2 else {}))
    trial = api.function_space(g2, rk[0], rk[1], **(rk[2] if len(rk) > 2 else {}))
    A = Z.dense(Z.boundary_operator(op, trial, trial, test, par, wavenumber=k))
    q, w = rule(order)
    pts = g1.map_to_point_cloud(local_points=q).T
    pm = importlib.import_module("bempp_cl.api.operators.potential." + pot_mod)
    pot = getattr(pm, pot_name)(trial, pts, parameters=par) if k is None else getattr(pm, pot_name)(trial, pts, k, parameters=par)
    phi = test.shapeset.evaluate(q)
    nq = len(w)
    B = np.zeros(A.shape, dtype=complex)
    for c in range(trial.global_dof_count):
        coef = np.zeros(trial.global_dof_count)
        coef[c] = 1
        vals = pot.evaluate(api.GridFunction(trial, coefficients=coef))
        for E in test.support_elements:
            for f in range(test.number_of_shape_functions):
                B[test.local2global[E, f], c] += test.local_multipliers[E, f] * g1.integration_elements[E] * np.sum(w * phi[0, f, :] * vals[0, nq * E: nq * (E + 1)])
    return Z.relerr(B, A)


SCALAR_CASES = [("laplace_single", "laplace", "single_layer", None), ("laplace_double", "laplace", "double_layer", None),
                ("helmholtz_single", "helmholtz", "single_layer", 1.3 + 0.4j), ("helmholtz_double", "helmholtz", "double_layer", 1.1),
                ("modified_single", "modified_helmholtz", "single_layer", 0.8), ("modified_double", "modified_helmholtz", "double_layer", 0.8)]


def ob_numeric_scalar(op, pot_mod, pot_name, k):
    """bounded: two-grid matrix == tested potential to 1e-12 (octahedron vs displaced tetrahedron; P1 x DP0 and DP1 x P1; regular orders 3 and 6 with a
    different singular order, which must be irrelevant between disjoint grids)."""
    worst = 0.0
    for tk, rk, tr, order in ((("P", 1), ("DP", 0), False, 3), (("DP", 1), ("P", 1), False, 6), (("DP", 0), ("P", 1), True, 3),
                              # spaces on a SUBSET of their grid (the potential goes through map_to_full_grid, the matrix through local2global)
                              # an odd total number of trial quadrature nodes (odd number of support elements x odd number of points per element: orders 2 and 5)
                              (("DP", 0), ("DP", 0, {"support_elements": [0, 1, 3]}), False, 5), (("P", 1), ("DP", 1, {"support_elements": [2]}), False, 2),
                              (("DP", 0), ("DP", 1, {"support_elements": [1, 3]}), False, 3), (("P", 1, {"support_elements": [0, 2, 5], "include_boundary_dofs": True}), ("P", 1, {"support_elements": [0, 2], "include_boundary_dofs": True}), False, 3)):
        err = tested_scalar(op, pot_mod, pot_name, k, tk, rk, order, tr)
        worst = max(worst, err)
        if err > 1e-12:
            return violated("%s between disjoint grids%s differs from the tested %s.%s potential by %.2e" % (op, " (second grid = translate of the first)" if tr else "", pot_mod, pot_name, err),
                            witness={"op": op, "test": [tk[0], tk[1]], "trial": [rk[0], rk[1]], "options": [tk[2] if len(tk) > 2 else {}, rk[2] if len(rk) > 2 else {}], "translate": tr},
                            replay={"callable": "checks.c07:replay_numeric_scalar", "kwargs": {"op": op, "pot_mod": pot_mod, "pot_name": pot_name, "k": [np.real(k), np.imag(k)] if k is not None else None},
                                    "confirmed": True}, signature="c07-numeric/%s" % op)
    return held("worst %.1e" % worst)


def replay_numeric_scalar(op, pot_mod, pot_name, k):
    kk = None if k is None else (k[0] if k[1] == 0 else complex(k[0], k[1]))
    r = ob_numeric_scalar(op, pot_mod, pot_name, kk)
    return {"violates": r["status"] == "violated", "detail": r["detail"]}


def tested_maxwell(which, order, k=1.2):
    """Maxwell: test functions SNC, trial RWG; tested field = (potential x n) . snc_f  ... see ob_numeric_maxwell."""
    import bempp_cl.api as api
    from bempp_cl.api.integration.triangle_gauss import rule
    from bempp_cl.api.operators.potential import maxwell as pm
    from bempp_cl.api.operators.boundary import maxwell as bm

    warnings.simplefilter("ignore")
    g1, g2 = _two_grids()
    par = Z.params(order, order + 2 if order % 2 else max(1, order - 3))
    test = api.function_space(g1, "SNC", 0)
    trial = api.function_space(g2, "RWG", 0)
    fac = getattr(bm, which)
    A = Z.dense(fac(trial, trial, test, k, parameters=par))
    q, w = rule(order)
    pts = g1.map_to_point_cloud(local_points=q).T
    pot = getattr(pm, which)(trial, pts, k, parameters=par)
    nq = len(w)
    B = np.zeros(A.shape, dtype=complex)
    for c in range(trial.global_dof_count):
        coef = np.zeros(trial.global_dof_count)
        coef[c] = 1
        vals = pot.evaluate(api.GridFunction(trial, coefficients=coef))  # (3, npts)
        for E in test.support_elements:
            basis = test.evaluate(E, q)  # (3, 3, nq): component, function, point  (SNC = n x RWG)
            n = g1.normals[E]
            for f in range(3):
                # (field x n) . snc_f  ==  field . (n x snc_f)
                nxs = np.cross(n, basis[:, f, :].T).T
                integrand = np.sum(vals[:, nq * E: nq * (E + 1)] * nxs, axis=0)
                B[test.local2global[E, f], c] += g1.integration_elements[E] * np.sum(w * integrand)
    return A, B


def ob_numeric_maxwell(which):
    """bounded: Maxwell two-grid matrix vs the potential's tangential trace (field x n) tested with the SNC functions: magnetic field to
    rounding (up to the global sign convention, reported), electric field up to quadrature error (decreasing with the order)."""
    A3, B3 = tested_maxwell(which, 3)
    sign = 1.0 if np.linalg.norm(A3 - B3) <= np.linalg.norm(A3 + B3) else -1.0
    e3 = Z.relerr(sign * B3, A3)
    if which == "magnetic_field":
        worst = e3
        for k in (1.2, 2.5 + 1.0j, 0.3 + 2.0j, 1.5j):
            Ak, Bk = tested_maxwell(which, 3, k)
            ek = Z.relerr(sign * Bk, Ak)
            worst = max(worst, ek)
            if ek > 1e-11:
                return violated("Maxwell magnetic two-grid matrix differs from the tested magnetic potential by %.2e for k = %s" % (ek, k), witness={"which": which, "k": str(k)},
                                replay={"callable": "checks.c07:replay_numeric_maxwell", "kwargs": {"which": which}, "confirmed": True}, signature="c07-numeric/maxwell_" + which)
        return held("order 3, real / complex / purely imaginary k: %.1e (sign %+d)" % (worst, sign))
    A6, B6 = tested_maxwell(which, 6)
    e6 = Z.relerr(sign * B6, A6)
    for k in (2.5 + 1.0j, 1.5j):
        # complex and purely imaginary wavenumbers: the error must still be quadrature error (decreasing with the order)
        Ak3, Bk3 = tested_maxwell(which, 3, k)
        Ak6, Bk6 = tested_maxwell(which, 6, k)
        ek3, ek6 = Z.relerr(sign * Bk3, Ak3), Z.relerr(sign * Bk6, Ak6)
        if not (ek6 < 1e-4 and ek6 < ek3):
            return violated("Maxwell electric two-grid matrix vs tested electric potential for k = %s: error %.2e at order 3, %.2e at order 6" % (k, ek3, ek6), witness={"which": which, "k": str(k)},
                            replay={"callable": "checks.c07:replay_numeric_maxwell", "kwargs": {"which": which}, "confirmed": True}, signature="c07-numeric/maxwell_" + which)
    if not (e6 < 1e-5 and e6 < e3):
        return violated("Maxwell electric two-grid matrix vs tested electric potential: error %.2e at order 3, %.2e at order 6" % (e3, e6), witness={"which": which},
                        replay={"callable": "checks.c07:replay_numeric_maxwell", "kwargs": {"which": which}, "confirmed": True}, signature="c07-numeric/maxwell_" + which)
    return held("order 3: %.1e, order 6: %.1e (sign %+d)" % (e3, e6, sign))


def replay_numeric_maxwell(which):
    r = ob_numeric_maxwell(which)
    return {"violates": r["status"] == "violated", "detail": r["detail"]}


def main():
    run = Run("C07", "other")
    run.explanation = ("Deductive: (i) the real dense pipeline with test and trial spaces on different grids (grids_identical=False: nothing "
                       "skipped, no singular part) equals the all-regular Galerkin sum (P-sizes, kernel stub); (ii) lemma over the two real code "
                       "paths: assembled two-grid matrix applied to a symbolic vector == potential of that vector evaluated at the library's "
                       "own test quadrature points (grid_to_points) and integrated against the test functions, with the real Laplace/Helmholtz/"
                       "modified single- and double-layer kernels (polynomial identity). Bounded: the same at float level for all families incl. "
                       "the Maxwell magnetic (rounding) and electric (quadrature error) operators.")
    from bempp_cl.core import numba_kernels as NK, dense_assembler
    from bempp_cl.api.grid import grid as G

    for f in (dense_assembler.assemble_dense, NK.default_scalar_regular_kernel, NK.default_scalar_potential_kernel, G.grid_to_points):
        run.under_contract(f)
    for ts, rs in ((("P", 1, {"include_boundary_dofs": True}), ("DP", 0, {})), (("DP", 1, {}), ("P", 1, {"include_boundary_dofs": True})), (("DP", 0, {}), ("DP", 1, {}))):
        for m1, m2 in (("pair:2:012:120", "pair:1:012:201"), ("tetra", "fan3")):
            run.add("pipeline.two-grids[%s|%s %s%dx%s%d]" % (m1, m2, ts[0], ts[1], rs[0], rs[1]), "post", PL.ob_pipeline, m1, ts, rs, None, m2)
    # the second grid is a pure translate of the first with identical numbering: still two different, disjoint grids (no pair may be treated as adjacent)
    for m in ("pair:2:012:120", "tetra"):
        run.add("pipeline.two-grids[%s and its translate, same numbering, DP0 x P1]" % m, "post", PL.ob_pipeline, m, ("DP", 0, {}), ("P", 1, {"include_boundary_dofs": True}), None, m)
    # trial / test spaces with swapped normals on some domains only and a colour-sorted element order that is not the identity (P1 on the 2x2 screen):
    # the normal multiplier must follow the element, not its position in the launch
    swp = ("P", 1, {"include_boundary_dofs": True, "swapped_normals": [2]})
    sdi = [1, 1, 2, 2, 1, 3, 2, 2]
    run.add("pipeline.two-grids[pair|screen2 DP0 x P1 swapped normals on trial domain 2]", "post", PL.ob_pipeline, "pair:2:012:120", ("DP", 0, {}), swp, None, "screen2",
            "default_scalar", "-", sdi)
    run.add("pipeline.two-grids[screen2|pair P1 swapped normals on test domain 2 x DP0]", "post", PL.ob_pipeline, "screen2", swp, ("DP", 0, {}), sdi, "pair:1:012:201")
    for key, case in (("laplace_single_layer", "noparam"), ("laplace_double_layer", "noparam"), ("helmholtz_single_layer", "ki!=0"), ("helmholtz_double_layer", "ki!=0"),
                      ("helmholtz_double_layer", "ki==0"), ("modified_helmholtz_single_layer", "w"), ("modified_helmholtz_double_layer", "w")):
        for ts, rs in ((("P", 1, {"include_boundary_dofs": True}), ("DP", 0, {})), (("DP", 1, {}), ("P", 1, {"include_boundary_dofs": True}))):
            run.add("lemma.matrix==tested-potential[%s %s %s%dx%s%d]" % (key, case, ts[0], ts[1], rs[0], rs[1]), "lemma", ob_tested_potential, key, case, ts, rs)
    for op, pm_, pn, k in SCALAR_CASES:
        run.add("numeric.%s" % op, "bounded", ob_numeric_scalar, op, pm_, pn, k)
    run.add("numeric.maxwell_magnetic", "bounded", ob_numeric_maxwell, "magnetic_field")
    run.add("numeric.maxwell_electric", "bounded", ob_numeric_maxwell, "electric_field")
    run.bound("symbolic lemma: two-element test grid, two-element trial grid, 2 quadrature points, generic values; Maxwell only numerically")
    run.bound("float check: octahedron vs displaced tetrahedron, orders 3 (and 6 for the electric field)")
    run.assume("adjoint double layer and hypersingular are not claimed by the statement for disjoint grids")
    return run.finish()


if __name__ == "__main__":
    sys.exit(main())
