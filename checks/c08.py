"""C08 potentials and far fields: PDEs, closed-form kernel sums, far-field normalisation and translation law (DESIGN 3, C08)."""

import sys
import warnings

import numpy as np

from vlib import sym as S
from vlib import kernelrun as KR
from vlib import symgrid as SG
from vlib import potential as PT
from vlib import pipeline as PL
from vlib import zoo as Z
from vlib.objnp import patched
from vlib.framework import Run, proved, violated, undecided, held
from specs import kernels as KS
from specs import galerkin as GS
from specs import maxwell as MS


def _k_and_sign(key, par):
    if key.startswith("laplace"):
        return 0
    if key.startswith("modified"):
        return -(par[0] * par[0])          # (Delta - w^2) K = 0
    k = par[0] + S.I() * par[1]
    return k * k                            # (Delta + k^2) K = 0


def ob_pde(key):
    """lemma: the output of the real regular kernel, as a function of the evaluation point x, satisfies (Delta_x + k^2) K = 0
    (Laplace: k = 0, modified: k^2 = -w^2), x != y, by symbolic differentiation of the code's own output."""
    out = []
    for case, _ in KR.param_cases(key):
        S.reset()
        par = [c for c in KR.param_cases(key) if c[0] == case][0][1]
        X, Y, NX, NY = KR.inputs("regular", 1)
        val = S.Sym._coerce(KR.run_real(key, "regular", X, Y, NX, NY, par)[0])
        lap = S.Sym()
        for i in range(3):
            lap = lap + S.diff(S.diff(val, X[i]), X[i])
        res = lap + _k_and_sign(key, par) * val
        if S.is_zero(res):
            out.append((case, proved("sym-diff+normal-form", "PDE residual is the zero term")))
            continue
        w = S.find_witness(res, seed=12)
        if w is None:
            out.append((case, undecided("residual normal form non-zero, no numeric witness")))
        else:
            out.append((case, violated("kernel %s does not satisfy its PDE: residual %s at the witness" % (key, w[1]), witness=w[0],
                                       signature="pde/" + key, replay={"callable": "checks.c08:replay_pde", "kwargs": {"key": key, "case": case, "env": w[0]},
                                                                      "confirmed": replay_pde(key, case, w[0])["violates"]})))
    return out


def replay_pde(key, case, env):
    """Finite-difference Laplacian of the real kernel on floats."""
    X, Y, NX, NY = KR.numeric_inputs("regular", env, 1)
    n = KS.NPARAMS[key]
    par = [] if n == 0 else [env.get("w", 0.9)] if n == 1 else [env.get("kr", 1.1), 0.0 if case == "ki==0" else env.get("ki", 0.4)]
    f = KR.pyfunc(KR.kernel_function(key, "regular"))
    pa = np.array(par, dtype=float)
    h = 1e-3
    v0 = complex(f(X, Y, NX, NY, pa)[0])
    lap = 0
    for i in range(3):
        e = np.zeros(3)
        e[i] = h
        lap += (complex(f(X + e, Y, NX, NY, pa)[0]) + complex(f(X - e, Y, NX, NY, pa)[0]) - 2 * v0) / h**2
    k2 = 0 if n == 0 else -(par[0] ** 2) if n == 1 else complex(par[0], par[1]) ** 2
    res = abs(lap + k2 * v0) / max(1e-300, abs(v0))
    return {"violates": bool(res > 1e-3), "fd_residual_relative": res}


def ob_far_translation(key):
    """lemma: F(x^, y + t) == exp(-ik x^.t) F(x^, y) on the real far-field kernel's own output (complex k)."""
    out = []
    for case, _ in KR.param_cases(key):
        S.reset()
        par = [c for c in KR.param_cases(key) if c[0] == case][0][1]
        X, Y, NX, NY = KR.inputs("regular", 1)
        t = S.symarray("t", (3,))
        base = S.Sym._coerce(KR.run_real(key, "regular", X, Y, NX, NY, par)[0])
        Y2 = Y.copy()
        for i in range(3):
            Y2[i, 0] = Y[i, 0] + t[i]
        moved = S.Sym._coerce(KR.run_real(key, "regular", X, Y2, NX, NY, par)[0])
        k = par[0] + S.I() * par[1]
        fac = np.exp(-S.I() * k * (X[0] * t[0] + X[1] * t[1] + X[2] * t[2]))
        d = moved - fac * base
        if S.is_zero(d):
            out.append((case, proved("sym-normal-form", "translation law")))
            continue
        w = S.find_witness(d, seed=13)
        if w is None:
            out.append((case, undecided("normal form non-zero, no witness")))
        else:
            out.append((case, violated("far-field kernel %s violates F(y+t) = exp(-ik x.t) F(y): difference %s" % (key, w[1]), witness=w[0],
                                       signature="far-translation/" + key,
                                       replay={"callable": "checks.c08:replay_far_translation", "kwargs": {"key": key, "case": case, "env": w[0]},
                                               "confirmed": replay_far_translation(key, case, w[0])["violates"]})))
    return out


def replay_far_translation(key, case, env):
    X, Y, NX, NY = KR.numeric_inputs("regular", env, 1)
    par = [env.get("kr", 1.1), 0.0 if case == "ki==0" else env.get("ki", 0.4)]
    t = np.array([env.get("t_%d" % i, 0.2 + 0.3 * i) for i in range(3)])
    f = KR.pyfunc(KR.kernel_function(key, "regular"))
    pa = np.array(par, dtype=float)
    base = complex(f(X, Y, NX, NY, pa)[0])
    moved = complex(f(X, Y + t.reshape(3, 1), NX, NY, pa)[0])
    want = np.exp(-1j * complex(*par) * (X @ t)) * base
    err = abs(moved - want) / max(1e-300, abs(want))
    return {"violates": bool(err > 1e-9), "relative_error": err, "observed": [moved.real, moved.imag], "required": [want.real, want.imag]}


# ---- Maxwell potentials ------------------------------------------------------------------------------

MAXWELL = {"maxwell_efield_potential": "helmholtz_single_layer", "maxwell_mfield_potential": "helmholtz_single_layer",
           "maxwell_efield_far_field": "helmholtz_far_field_single_layer", "maxwell_mfield_far_field": "helmholtz_far_field_single_layer"}


def ob_maxwell_contract(name, case):
    """post (sizes: 2 elements, 2 quadrature points, 2 evaluation points; free geometry fields; kernel stub): the real Maxwell potential
    assembler equals sum_j [summand(K_j, p, y_j, A_j, B_j)] with A_j = w|J| sum_f x_f phi_f, B_j = w|J| sum_f x_f div phi_f (specs/maxwell.py)."""
    from bempp_cl.core import numba_kernels as NK
    import bempp_cl.api as api

    S.reset()
    v, e = SG.two_triangles()
    grid = SG.make_grid(v, e)
    sp = api.function_space(grid, "RWG", 0, include_boundary_dofs=True)
    data = SG.attach_free(grid, "v")
    geo = GS.FieldGeometry(data)
    pts, wts = S.symarray("q", (2, 2)), S.symarray("qw", (2,), positive=True)
    P = S.symarray("p", (3, 2))
    x = S.symarray("x", (3 * grid.number_of_elements,))
    par = [S.var("kr"), S.var("ki", nonzero=True)] if case == "ki!=0" else [S.var("kr", nonzero=True), 0]
    k = par[0] + S.I() * par[1]

    def stub(test_point, trial_points, tn, trn, kp):
        n = trial_points.shape[1]
        o = np.empty(n, dtype=object)
        for j in range(n):
            o[j] = S.fn("G", list(test_point) + list(trial_points[:, j]) + list(kp), None)
        return o

    with patched(NK):
        got = KR.pyfunc(getattr(NK, name))(np.dtype(object), np.dtype(object), 3, P, x, data, pts, wts, 3, None, stub, KR.objarr(par),
                                           sp.normal_multipliers, sp.support_elements)
    dens = MS.density_sums(geo, sp.support_elements, (pts, wts), x)
    for i in range(2):
        p = [P[c, i] for c in range(3)]
        exp = [S.Sym(), S.Sym(), S.Sym()]
        for (y, A, B) in dens:
            G = S.fn("G", list(p) + list(y) + list(par), None)
            if name == "maxwell_efield_potential":
                s = MS.efield_summand(G, p, y, A, B, k)
            elif name == "maxwell_mfield_potential":
                s = MS.mfield_summand(G, p, y, A, k)
            elif name == "maxwell_efield_far_field":
                s = MS.efield_far_summand(G, p, A, B, k)
            else:
                s = MS.mfield_far_summand(G, p, A, k)
            exp = [exp[c] + s[c] for c in range(3)]
        for c in range(3):
            d = S.Sym._coerce(got[c, i]) - exp[c]
            if not S.is_zero(d):
                return violated("%s: component %d at point %d differs from the kernel-sum spec" % (name, c, i), signature="maxwell-contract/" + name,
                                replay={"confirmed": False})
    return proved("sym-exec+normal-form", "3 components x 2 points, 4 source points")


def ob_maxwell_summand(case):
    """lemma on the spec summands with the real Helmholtz kernel output G(p, y): for arbitrary constant vector A and scalar B,
    curl_p E == ik H, div_p H == 0, (Delta_p + k^2) E == 0, (Delta_p + k^2) H == 0  (p != y, k != 0)."""
    S.reset()
    par = [S.var("kr"), S.var("ki", nonzero=True)] if case == "ki!=0" else [S.var("kr", nonzero=True), 0]
    k = par[0] + S.I() * par[1]
    X, Y, NX, NY = KR.inputs("regular", 1)
    G = S.Sym._coerce(KR.run_real("helmholtz_single_layer", "regular", X, Y, NX, NY, par)[0])
    p = [X[i] for i in range(3)]
    y = [Y[i, 0] for i in range(3)]
    A = list(S.symarray("a", (3,)))
    B = S.var("b")
    E = MS.efield_summand(G, p, y, A, B, k)
    H = MS.mfield_summand(G, p, y, A, k)

    def d(f, i):
        return S.diff(S.Sym._coerce(f), p[i])

    def curl(F):
        return [d(F[2], 1) - d(F[1], 2), d(F[0], 2) - d(F[2], 0), d(F[1], 0) - d(F[0], 1)]

    res = []
    cE = curl(E)
    ok = all(S.is_zero(cE[i] - S.I() * k * H[i]) for i in range(3))
    res.append(("curl E == ik H", proved("sym-diff+normal-form") if ok else violated("curl E != ik H for the summand", signature="maxwell-summand/curlE")))
    divH = d(H[0], 0) + d(H[1], 1) + d(H[2], 2)
    res.append(("div H == 0", proved("sym-diff+normal-form") if S.is_zero(divH) else violated("div H != 0 for the summand", signature="maxwell-summand/divH")))
    for nm, F in (("E", E), ("H", H)):
        ok = True
        for c in range(3):
            lap = d(d(F[c], 0), 0) + d(d(F[c], 1), 1) + d(d(F[c], 2), 2)
            if not S.is_zero(lap + k * k * F[c]):
                ok = False
        res.append(("(Delta + k^2) %s == 0" % nm, proved("sym-diff+normal-form") if ok else violated("vector Helmholtz equation fails for %s" % nm, signature="maxwell-summand/helm" + nm)))
    return res


# ---- bounded ---------------------------------------------------------------------------------------------


def ob_far_limit(kind):
    """bounded: r exp(-ikr) * potential(r x^) -> far-field operator value as r grows (r = 1e3, 1e4), complex k with small Im k."""
    import bempp_cl.api as api
    from bempp_cl.api.operators import potential as pot, far_field as ff

    warnings.simplefilter("ignore")
    g = Z.grid_with_domains("octa")
    par = Z.params(4, 4)
    dirs = np.array([[1.0, 0, 0], [0.36, 0.48, 0.8], [-0.6, 0.0, 0.8]]).T
    rng = np.random.RandomState(5)
    worst = {}
    for k in (1.3, 1.1 + 0.002j):
        if kind in ("single_layer", "double_layer"):
            sp = api.function_space(g, "P", 1) if kind == "double_layer" else api.function_space(g, "DP", 0)
            coef = rng.randn(sp.global_dof_count) + 1j * rng.randn(sp.global_dof_count)
            fun = api.GridFunction(sp, coefficients=coef)
            far = getattr(ff.helmholtz, kind)(sp, dirs, k, parameters=par).evaluate(fun)
            mk = lambda pts: getattr(pot.helmholtz, kind)(sp, pts, k, parameters=par).evaluate(fun)  # noqa
        else:
            sp = api.function_space(g, "RWG", 0)
            coef = rng.randn(sp.global_dof_count) + 1j * rng.randn(sp.global_dof_count)
            fun = api.GridFunction(sp, coefficients=coef)
            far = getattr(ff.maxwell, kind)(sp, dirs, k, parameters=par).evaluate(fun)
            mk = lambda pts: getattr(pot.maxwell, kind)(sp, pts, k, parameters=par).evaluate(fun)  # noqa
        errs = []
        for r in (1e3, 1e4):
            val = mk(r * dirs) * r * np.exp(-1j * k * r)
            errs.append(Z.relerr(val, far))
        worst[k] = errs
        if not (errs[1] < 5e-4 and errs[1] < errs[0] * 0.5):
            return violated("far field %s (k=%s) is not the limit of r e^{-ikr} potential: relative errors at r=1e3, 1e4: %s" % (kind, k, errs),
                            witness={"kind": kind, "k": str(k)}, replay={"callable": "checks.c08:replay_far_limit", "kwargs": {"kind": kind}, "confirmed": True},
                            signature="far-limit/" + kind)
    return held("; ".join("k=%s: %.1e -> %.1e" % (k, e[0], e[1]) for k, e in worst.items()))


def replay_far_limit(kind):
    r = ob_far_limit(kind)
    return {"violates": r["status"] == "violated", "detail": r["detail"]}


def ob_maxwell_fd():
    """bounded: finite differences on the real Maxwell potentials of an RWG density (octahedron, order 6): curl E = ik H, curl H = -ik E,
    div E = div H = 0 to 1e-4 relative (finite-difference + quadrature accuracy)."""
    import bempp_cl.api as api
    from bempp_cl.api.operators.potential import maxwell as pm

    warnings.simplefilter("ignore")
    g = SG.make_grid(*SG.octa())
    sp = api.function_space(g, "RWG", 0)
    rng = np.random.RandomState(8)
    fun = api.GridFunction(sp, coefficients=rng.randn(sp.global_dof_count) + 1j * rng.randn(sp.global_dof_count))
    k = 1.2 + 0.1j
    par = Z.params(8, 8)
    x0 = np.array([2.1, 1.7, -1.9])
    h = 1e-3
    offs = [np.zeros(3)] + [s * h * np.eye(3)[i] for i in range(3) for s in (1, -1)]
    pts = np.array([x0 + o for o in offs]).T
    E = pm.electric_field(sp, pts, k, parameters=par).evaluate(fun)
    H = pm.magnetic_field(sp, pts, k, parameters=par).evaluate(fun)

    def grad(F):  # grad[i][c] = d F_c / d x_i
        return [(F[:, 1 + 2 * i] - F[:, 2 + 2 * i]) / (2 * h) for i in range(3)]

    def curl(F):
        gF = grad(F)
        return np.array([gF[1][2] - gF[2][1], gF[2][0] - gF[0][2], gF[0][1] - gF[1][0]])

    def div(F):
        gF = grad(F)
        return gF[0][0] + gF[1][1] + gF[2][2]

    e1 = Z.relerr(curl(E), 1j * k * H[:, 0])
    e2 = Z.relerr(curl(H), -1j * k * E[:, 0])
    e3 = abs(div(E)) / np.linalg.norm(E[:, 0])
    e4 = abs(div(H)) / np.linalg.norm(H[:, 0])
    if max(e1, e2, e3, e4) > 1e-4:
        return violated("Maxwell potentials: curlE-ikH %.1e, curlH+ikE %.1e, divE %.1e, divH %.1e" % (e1, e2, e3, e4), signature="maxwell-fd", replay={"confirmed": True})
    return held("curlE-ikH %.1e, curlH+ikE %.1e, divE %.1e, divH %.1e" % (e1, e2, e3, e4))


def _api_potential_cases():
    return [("laplace", None), ("helmholtz", 1.7), ("helmholtz", 1.1 + 0.6j), ("helmholtz", 1.3j), ("helmholtz", -0.4j), ("modified_helmholtz", 0.9)]


def replay_api_potential(order, offset=None):
    """Potential operators created through the public factories, with an explicit parameter object of regular order `order` (different from the global
    default 4), against an independent numpy sum of the closed-form kernel over the points of triangle_gauss.rule(order).  With `offset` the grid and the
    evaluation points are translated by it ("for all grids": map-style coordinates; the kernels depend on x - y only, so the values agree to rounding of
    x - y, not of |x|^2)."""
    import importlib
    import warnings

    import bempp_cl.api as api
    from bempp_cl.api.integration.triangle_gauss import rule
    from vlib import zoo as Z

    warnings.simplefilter("ignore")
    g = Z.grid_with_domains("octa")
    par = Z.params(order, 2)
    pts = np.array([[2.1, -0.3, 0.4], [0.2, 2.4, -1.9], [0.5, 0.3, 2.2]])
    tol = 1e-11
    if offset is not None:
        from vlib import symgrid as SG

        off = np.asarray(offset, dtype=float).reshape(3, 1)
        g = SG.make_grid(g.vertices + off, g.elements, g.domain_indices)
        # also points close to the surface (0.05 .. 0.5 away from the face centres)
        pts = np.hstack([pts, (g.centroids[:3] - off.T).T * np.array([1.1, 1.4, 2.0])]) + off
        tol = 1e-10
    q, w = rule(order)
    rng = np.random.RandomState(3)
    bad, worst = {}, 0.0
    for fam, k in _api_potential_cases():
        mod = importlib.import_module("bempp_cl.api.operators.potential." + fam)
        for layer, kind, deg in (("single_layer", "DP", 0), ("double_layer", "P", 1)):
            sp = api.function_space(g, kind, deg)
            c = rng.randn(sp.global_dof_count) + 1j * rng.randn(sp.global_dof_count)
            args = (sp, pts) if k is None else (sp, pts, k)
            val = np.asarray(getattr(mod, layer)(*args, parameters=par).evaluate(api.GridFunction(sp, coefficients=c)))[0]
            kk = 0.0 if k is None else (1j * k if fam == "modified_helmholtz" else k)
            ref = np.zeros(pts.shape[1], dtype=complex)
            for E in range(g.number_of_elements):
                y = g.vertices[:, g.elements[0, E]][:, None] + g.jacobians[E] @ q
                fv = sp.evaluate(E, q)[0]          # (ns, nq), multipliers applied
                dens = sum(c[sp.local2global[E, f]] * fv[f] for f in range(fv.shape[0]))
                for i in range(pts.shape[1]):
                    d = pts[:, i][:, None] - y
                    r = np.linalg.norm(d, axis=0)
                    G = np.exp(1j * kk * r) / (4 * np.pi * r)
                    if layer == "double_layer":
                        # d/dn_y G = (n_y . (x - y)) (1 - i k r) e^{ikr} / (4 pi r^3)
                        G = (g.normals[E] @ d) * (1 - 1j * kk * r) * np.exp(1j * kk * r) / (4 * np.pi * r ** 3)
                    ref[i] += g.integration_elements[E] * np.sum(w * G * dens)
            e = float(np.abs(val - ref).max() / np.abs(ref).max())
            worst = max(worst, e)
            if e > tol:
                bad["%s.%s k=%s order=%d" % (fam, layer, k, order)] = e
    # potentials built by arithmetic from the factory-made ones (combined-layer potential D - i eta S, rescaled and negated operators): the same linear combination of the
    # values verified above
    from bempp_cl.api.operators.potential import helmholtz as _ph

    sp = api.function_space(g, "P", 1)
    c = rng.randn(sp.global_dof_count) + 1j * rng.randn(sp.global_dof_count)
    f = api.GridFunction(sp, coefficients=c)
    S_, D_ = _ph.single_layer(sp, pts, 1.7 + 0.3j, parameters=par), _ph.double_layer(sp, pts, 1.7 + 0.3j, parameters=par)
    vs, vd = np.asarray(S_.evaluate(f)), np.asarray(D_.evaluate(f))
    for lab, op_, want in (("D - 1j*0.7*S", D_ - 1j * 0.7 * S_, vd - 0.7j * vs), ("(2.5*S)*3", (2.5 * S_) * 3.0, 7.5 * vs), ("-(2.5*S)", -(2.5 * S_), -2.5 * vs)):
        e = float(np.abs(np.asarray(op_.evaluate(f)) - want).max() / np.abs(want).max())
        worst = max(worst, e)
        if e > 1e-12:
            bad["helmholtz %s order=%d" % (lab, order)] = e
    return {"violates": bool(bad), "failing": bad, "worst": worst}


def replay_maxwell_space_kinds():
    """Maxwell potentials are defined for div-conforming densities: RWG and BC spaces are accepted (the BC potential equals the potential of the RWG functions of the
    barycentric grid with the coefficients dof_transformation c), SNC and RBC spaces (curl-conforming: n x RWG, n x BC) are rejected with ValueError."""
    import warnings

    import bempp_cl.api as api
    from bempp_cl.api.operators.potential import maxwell as PM
    from vlib import zoo as Z
    from vlib import barycheck as BC

    warnings.simplefilter("ignore")
    g = Z.grid_with_domains("octa")
    par = Z.params(3, 3)
    pts = np.array([[2.1, -0.3], [0.2, 2.4], [0.5, 0.3]])
    problems = []
    rng = np.random.RandomState(8)
    for name, k in (("electric_field", 1.3 + 0.2j), ("magnetic_field", 0.9)):
        f = getattr(PM, name)
        for kind in ("SNC", "RBC"):
            try:
                f(api.function_space(g, kind, 0), pts, k, parameters=par)
            except ValueError:
                continue
            except Exception as ex:  # noqa
                problems.append("%s on %s raises %s instead of ValueError" % (name, kind, type(ex).__name__))
                continue
            problems.append("%s accepts a %s space (curl-conforming) without error" % (name, kind))
        bc = api.function_space(g, "BC", 0)
        try:
            c = rng.randn(bc.global_dof_count) + 1j * rng.randn(bc.global_dof_count)
            vb = np.asarray(f(bc, pts, k, parameters=par).evaluate(api.GridFunction(bc, coefficients=c)))
            rb = api.function_space(bc.grid, "RWG", 0)
            # barycentric RWG with its own global dofs: express the BC function on the localised barycentric basis and map to the continuous one
            T = BC.dense(bc.dof_transformation)
            loc = T @ c
            # independent route: sum of the potentials of the three local RWG functions of every barycentric element (localised space of the barycentric RWG space)
            lsp = rb.localised_space
            cl = np.zeros(lsp.global_dof_count, dtype=complex)
            for b in range(bc.grid.number_of_elements):
                for j in range(3):
                    cl[lsp.local2global[b, j]] = loc[bc.local2global[b, j]] * (1 if bc.support[b] else 0)
            vr = np.asarray(f(rb, pts, k, parameters=par).evaluate(api.GridFunction(rb, coefficients=np.linalg.lstsq(BC.dense(rb.map_to_localised_space), cl, rcond=None)[0])))
            e = float(np.abs(vb - vr).max() / np.abs(vr).max())
            if e > 1e-10:
                problems.append("%s of a BC function differs from the potential of its barycentric RWG expansion by %.2e" % (name, e))
        except ValueError as ex:
            problems.append("%s rejects a BC space: %s" % (name, ex))
    return {"violates": bool(problems), "problems": problems}


def ob_maxwell_space_kinds():
    r = replay_maxwell_space_kinds()
    if r["violates"]:
        return violated("Maxwell potential operators and space kinds: %s" % "; ".join(r["problems"]), witness={"problems": r["problems"]}, signature="maxwell-potential/space-kinds",
                        replay={"callable": "checks.c08:replay_maxwell_space_kinds", "kwargs": {}, "confirmed": True})
    return held("RWG / BC accepted (BC == its barycentric RWG expansion), SNC / RBC rejected with ValueError")


def ob_api_potential(order, offset=None):
    r = replay_api_potential(order, offset)
    if r["violates"]:
        return violated("potential operator created by the public factory differs from the closed-form kernel sum over the order-%d quadrature points%s: %s" % (
            order, "" if offset is None else " (grid and points translated by %s)" % (list(offset),), r["failing"]),
                        witness=r["failing"], signature="api-potential", replay={"callable": "checks.c08:replay_api_potential", "kwargs": {"order": order, "offset": None if offset is None else list(offset)}, "confirmed": True})
    return held("12 factory-made potentials (real, complex and +/- imaginary k) equal the kernel sum to %.1e at order %d" % (r["worst"], order))


def main():
    run = Run("C08", "other")
    thorough = run.tier == "thorough"
    run.explanation = ("Deductive: PDE residual of every Green's-function kernel output is the zero term (symbolic differentiation of the real "
                       "code's output); far-field kernels equal exp(-ik x.y)/(4 pi) (and its double-layer form) for complex k and satisfy the "
                       "translation law; scalar potentials equal the closed-form kernel sum (real pipeline, small sizes); the four Maxwell "
                       "potential assemblers equal the kernel-sum spec (kernel stub, free geometry fields) and the spec summands built on the real "
                       "Helmholtz kernel satisfy curl E = ik H, div H = 0 and the vector Helmholtz equation. curl H = -ik E and div E = 0 hold only "
                       "after integration by parts over the density and are checked by bounded finite differences, as is the r -> infinity limit.")
    from bempp_cl.core import numba_kernels as NK

    tables = KR.kernel_tables()["kernel_functions_regular"]
    for fam in ("laplace", "helmholtz", "modified_helmholtz"):
        for layer in ("single_layer", "double_layer"):
            key = "%s_%s" % (fam, layer)
            run.under_contract(tables[key])
            run.add("numba_kernels.%s::map-rule" % KR.pyfunc(tables[key]).__name__, "frame", KR.ob_map_rule, key, "regular")
            run.add("numba_kernels.%s::post" % KR.pyfunc(tables[key]).__name__, "post", KR.ob_code_equals_spec, key, "regular")
            run.add("lemma.pde.%s" % key, "lemma", ob_pde, key)
    for key in ("helmholtz_far_field_single_layer", "helmholtz_far_field_double_layer"):
        run.under_contract(tables[key])
        run.add("numba_kernels.%s::map-rule" % key, "frame", KR.ob_map_rule, key, "regular")
        run.add("numba_kernels.%s::post(closed form, complex k)" % key, "post", KR.ob_code_equals_spec, key, "regular")
        run.add("lemma.far-field-translation.%s" % key, "lemma", ob_far_translation, key)
    for key, case in (("helmholtz_single_layer", "ki!=0"), ("helmholtz_double_layer", "ki==0"), ("modified_helmholtz_single_layer", "w"),
                      ("modified_helmholtz_double_layer", "w"), ("helmholtz_far_field_single_layer", "ki!=0"), ("helmholtz_far_field_double_layer", "ki!=0")):
        for sp in (("P", 1, {}), ("DP", 0, {"segments": [2]})):
            run.add("potential.%s[tetra %s%d%s]==closed-form-sum" % (key, sp[0], sp[1], sorted(sp[2])), "post", PT.ob_potential, "tetra", sp, key, "real", [1, 2, 2, 1], case)
    for key, case in (("laplace_single_layer", None), ("laplace_double_layer", None), ("helmholtz_single_layer", "ki!=0"), ("helmholtz_double_layer", "ki==0"),
                      ("modified_helmholtz_double_layer", "w"), ("helmholtz_far_field_single_layer", "ki!=0")):
        for sp in (("P", 1, {}), ("DP", 1, {"segments": [2]})):
            run.add("potential.%s[tetra %s%d%s]: coefficient patterns (unit vectors, half zero, zero)" % (key, sp[0], sp[1], sorted(sp[2])), "bounded", PT.ob_potential_patterns,
                    "tetra", sp, key, [1, 2, 2, 1], case)
    for name in MAXWELL:
        run.under_contract(getattr(NK, name), dropped="numeric dtypes; linalg.norm shim")
        for case in ("ki!=0", "ki==0"):
            run.add("numba_kernels.%s::post[%s]" % (name, case), "post", ob_maxwell_contract, name, case)
    for case in ("ki!=0", "ki==0"):
        run.add("lemma.maxwell-summand[%s]" % case, "lemma", ob_maxwell_summand, case)
    for kind in ("single_layer", "double_layer", "electric_field", "magnetic_field"):
        run.add("far-field-limit.%s" % kind, "bounded", ob_far_limit, kind)
    run.add("maxwell.finite-differences", "bounded", ob_maxwell_fd)
    for order in (2, 7):
        run.add("api-potential==kernel-sum[order %d]" % order, "bounded", ob_api_potential, order)
    run.add("api-potential==kernel-sum[order 5, grid and points translated by (3000, -2000, 1000)]", "bounded", ob_api_potential, 5, (3000.0, -2000.0, 1000.0))
    run.add("maxwell-potential.space-kinds", "bounded", ob_maxwell_space_kinds)
    run.bound("potential / Maxwell assembler contracts: <= 4 elements, 2 quadrature points, 2 evaluation points, generic values")
    run.bound("far-field limit: octahedron, r = 1e3, 1e4, k = 1.3 and 1.1+0.002i, three directions")
    run.bound("factory-made potentials: octahedron, 3 points, 6 (family, k) cases x 2 layers, explicit orders 2 and 7 (global default 4)")
    run.bound("Maxwell finite differences: one point, h = 1e-3, order 8")
    run.assume("analytic: lim r e^{-ikr} G(r x^, y) = exp(-ik x^.y)/(4 pi) (complex k), and its derivative form for the double layer")
    run.assume("curl H = -ik E and div E = 0 need integration by parts over the RWG density (divergence theorem on each element); not mechanised")
    run.assume("x != y, k != 0 for the Maxwell potentials")
    return run.finish()


if __name__ == "__main__":
    sys.exit(main())
