"""C09 function spaces are conforming and their DOF maps are coherent (DESIGN 3, C09).

Deductive (P-engine: the real space constructors build the DOF maps on each topology, the real `space.evaluate` is executed on symbolic vertex
coordinates and a symbolic point t on every edge with two neighbours; all geometries at once):
  * conformity[P1]: the trace of every global basis function on an interior edge is the same from both sides (continuity);
  * conformity[RWG]: f+.nu+ + f-.nu- = 0 with nu = outward unit co-normal (normal component continuous);  conformity[SNC]: f+.e = f-.e (tangential);
  * on an edge between a support element and a non-support element every trace vanishes, unless boundary dofs are included AND truncated at the
    segment edge (the documented discontinuous case);
  * lemma.conormal: |w| |e| = 2 area for the co-normal construction used (symbolic);
  * partition-of-unity[DP0 / P1]: the basis functions sum to one at a generic point of every element (closed grid or boundary dofs included).
Exact on each topology of a sweep:
  * partition-of-unity[DUAL0 / DUAL1]: every row of the dof transformation sums to one.
Bounded:
  * bc-conformity[BC / RBC]: normal / tangential continuity of every BC / RBC basis function across all interior edges of the barycentric grid, on
    perturbed (non-uniform) geometries (floats, 1e-11) -- the coefficients depend on numerically computed edge lengths;
  * dof-map[kind]: on meshes (closed, open, non-manifold fan, genus 1) x all / sampled supports x the four option combinations: local2global and
    global2local are mutually inverse on non-zero multipliers; every dof is attached to one entity (element / vertex / edge) and to all of its
    occurrences in the final support; the dof count equals the number of entities the options select (independent specification
    p1_vertex_spec / rwg_edge_spec written from the documentation); RWG/SNC signs are +1 on the lower-numbered element and -1 on the other.
"""

import itertools
import sys
import warnings

import numpy as np

from vlib import sym as S
from vlib import symgrid as SG
from vlib import pipeline as PL
from vlib import barycheck as BC
from vlib.objnp import patched
from vlib.sparsestub import patched_scipy
from vlib.framework import Run, proved, violated, undecided, held
from checks.c10 import p1_vertex_spec, DI as DI10

DI = dict(DI10, **{"octa+tetra": [1] * 8 + [2] * 4}, two_tets_face=[1, 1, 1, 3, 2, 2, 2], cube12=[1, 1, 2, 2, 3, 3, 1, 1, 2, 2, 3, 3], torus33=[1 + (i % 3 == 0) for i in range(18)], screen3=[1 + (i % 5 in (0, 1)) + (i > 12) for i in range(18)])


def _grid(mesh, perturb=None):
    v, e = PL._mesh(mesh)
    v = np.asarray(v, dtype=float)
    if perturb is not None:
        v = v + 0.06 * np.random.RandomState(perturb).randn(*v.shape)
    return SG.make_grid(v, e, np.array(DI[mesh], dtype="uint32") if mesh in DI else None)


def _vec(a, b):
    return [a[i] - b[i] for i in range(3)]


def _dot(a, b):
    return sum(x * y for x, y in zip(a, b))


def conormal_unnormalised(P, a, b, c):
    """w = (c - a) - ((c - a).e / e.e) e  with e = b - a: in-plane vector orthogonal to the edge pointing INTO the triangle; |w| = 2 area / |e|.
    Returned multiplied by e.e (polynomial)."""
    e = _vec(P[b], P[a])
    ca = _vec(P[c], P[a])
    ee, ce = _dot(e, e), _dot(ca, e)
    return [ca[i] * ee - ce * e[i] for i in range(3)], e, ee


def ob_lemma_conormal():
    S.reset()
    v, e = PL._mesh("pair:2:012:120")
    grid = SG.make_grid(v, e)
    g = SG.attach_symbolic(grid)
    for E in range(2):
        P = {int(grid.elements[k, E]): [g._vertices[i, int(grid.elements[k, E])] for i in range(3)] for k in range(3)}
        a, b, c = [int(x) for x in grid.elements[:, E]]
        w, ev, ee = conormal_unnormalised(P, a, b, c)
        J = g._integration_elements[E]
        # (w / ee) is the true co-normal vector: |w/ee|^2 * ee = J^2
        d = S.Sym._coerce(_dot(w, w)) - S.Sym._coerce(J * J * ee * ee * ee) / S.Sym._coerce(ee * ee) * 1 if False else S.Sym._coerce(_dot(w, w)) - S.Sym._coerce(J * J * ee)
        if not S.is_zero(d):
            return undecided("|w|^2 = J^2 e.e not reduced to zero", backend="sym-exec+normal-form")
        if not S.is_zero(S.Sym._coerce(_dot(w, ev))):
            return undecided("w.e = 0 not reduced")
    return proved("sym-exec+normal-form", "co-normal construction: w orthogonal to the edge, |w|^2 = (2 area)^2 |e|^2 (w scaled by |e|^2)")


def _traces(sp, g, grid, E, k, A, B, t, kind):
    """per global dof: trace quantity of the basis functions of element E on its local edge k at the point A + t (B - A)"""
    a, b = BC.EDGE_LOCAL[k]
    ga, gb_ = int(grid.elements[a, E]), int(grid.elements[b, E])
    tl = t if ga == A else 1 - t
    xi = BC.point_on_local_edge(k, tl)
    vals = sp.evaluate(E, BC.local_point(xi[0], xi[1]))          # (dim, ns, 1), multipliers applied
    P = {int(grid.elements[j, E]): [g._vertices[i, int(grid.elements[j, E])] for i in range(3)] for j in range(3)}
    c = [int(grid.elements[j, E]) for j in range(3) if j not in (a, b)][0]
    out = {}
    for f in range(vals.shape[1]):
        d = int(sp.local2global[E, f])
        if kind == "P":
            q = vals[0, f, 0]
        elif kind == "RWG":
            w, ev, ee = conormal_unnormalised(P, A, B, c)
            # outward unit co-normal nu = -w / (|e| J) (w already carries |e|^2): compare f.nu * |e| on both sides
            q = -_dot([vals[i, f, 0] for i in range(3)], w) / (g._integration_elements[E] * ee)
        else:
            ev = _vec(P[B], P[A])
            q = _dot([vals[i, f, 0] for i in range(3)], ev)
        out[d] = out.get(d, 0) + q
    return out


def _edge_pairs(grid, sp, kind):
    """pairs of (element, local edge) occurrences to compare on each edge.  Manifold edge: its two neighbours.  Edge with more than two neighbours
    (non-manifold fan, multitrace junction): P1 - every pair; edge spaces - the two neighbours inside the support (a junction edge belongs to one
    surface at a time), or one supported and one unsupported neighbour for the vanishing-trace clause."""
    pairs = []
    for edge, occ in BC.edge_table(grid).items():
        if len(occ) < 2:
            continue
        if len(occ) == 2 or kind == "P":
            pairs += [(edge, o0, o1) for o0, o1 in itertools.combinations(occ, 2)]
            continue
        sup = [o for o in occ if sp.support[o[0]]]
        out = [o for o in occ if not sp.support[o[0]]]
        if len(sup) == 2:
            pairs.append((edge, sup[0], sup[1]))
        elif len(sup) == 1 and out:
            pairs.append((edge, sup[0], out[0]))
    return pairs


def replay_conformity(mesh, spec, seed=2):
    """numeric replay of the jump of every basis function across every edge with two neighbours, on a perturbed geometry"""
    import bempp_cl.api as api

    warnings.simplefilter("ignore")
    grid = _grid(mesh, seed)
    kind, deg, kw = spec
    sp = api.function_space(grid, kind, deg, **kw)
    worst, where = 0.0, None
    ib, tr = kw.get("include_boundary_dofs", False), kw.get("truncate_at_segment_edge", True)

    class G:
        _vertices = grid.vertices
        _integration_elements = grid.integration_elements

    for edge, (E0, k0), (E1, k1) in _edge_pairs(grid, sp, kind):
        A, B = int(grid.edges[0, edge]), int(grid.edges[1, edge])
        s0, s1 = bool(sp.support[E0]), bool(sp.support[E1])
        if not (s0 or s1) or ((s0 != s1) and ib and tr):
            continue
        for t in (0.0, 0.37, 1.0):
            tr0 = _traces(sp, G, grid, E0, k0, A, B, t, kind) if s0 else {}
            tr1 = _traces(sp, G, grid, E1, k1, A, B, t, kind) if s1 else {}
            for d in set(tr0) | set(tr1):
                j = float(tr0.get(d, 0.0) + tr1.get(d, 0.0)) if kind == "RWG" else float(tr0.get(d, 0.0) - tr1.get(d, 0.0))
                if abs(j) > worst:
                    worst, where = abs(j), {"edge": edge, "dof": d, "t": t}
    return {"violates": worst > 1e-10, "max_jump": worst, "where": where}


def ob_conformity(mesh, spec):
    from bempp_cl.api.space import maxwell_spaces as MX, scalar_spaces as SC

    S.reset()
    grid = _grid(mesh)
    g = SG.attach_symbolic(grid)
    kind, deg, kw = spec
    ib, tr = kw.get("include_boundary_dofs", False), kw.get("truncate_at_segment_edge", True)
    t = S.var("t")
    n = 0
    with patched(MX), patched(SC):
        sp = PL.make_space(grid, spec)
        pairs = _edge_pairs(grid, sp, kind)
        for edge, (E0, k0), (E1, k1) in pairs:
            A, B = int(grid.edges[0, edge]), int(grid.edges[1, edge])
            s0, s1 = bool(sp.support[E0]), bool(sp.support[E1])
            if not (s0 or s1) or ((s0 != s1) and ib and tr):
                continue
            tr0 = _traces(sp, g, grid, E0, k0, A, B, t, kind) if s0 else {}
            tr1 = _traces(sp, g, grid, E1, k1, A, B, t, kind) if s1 else {}
            for d in sorted(set(tr0) | set(tr1)):
                j = (tr0.get(d, 0) + tr1.get(d, 0)) if kind == "RWG" else (tr0.get(d, 0) - tr1.get(d, 0))
                j = S.Sym._coerce(j)
                n += 1
                if not S.is_zero(j):
                    nat = replay_conformity(mesh, spec)
                    if S.find_witness(j, seed=5) is None and not nat["violates"]:
                        return undecided("jump of dof %d across edge %d not reduced to zero, no numeric witness" % (d, edge), backend="sym-exec+normal-form")
                    what = {"P": "is discontinuous", "RWG": "has a discontinuous normal component", "SNC": "has a discontinuous tangential component"}[kind]
                    return violated("%s%d%s on %s: basis function %d %s across edge %d (elements %d|%d, support %s|%s); native replay on a perturbed mesh: max jump %.3g at %s"
                                    % (kind, deg, kw, mesh, d, what, edge, E0, E1, s0, s1, nat["max_jump"], nat["where"]), witness={"edge": edge, "dof": d},
                                    backend="sym-exec+normal-form", signature="conformity/%s" % kind,
                                    replay={"callable": "checks.c09:replay_conformity", "kwargs": {"mesh": mesh, "spec": list(spec)}, "confirmed": nat["violates"], "result": nat})
    if n == 0:
        return {"status": "error", "detail": "no interior edge / dof pair examined on %s %s" % (mesh, spec)}
    return proved("sym-exec+normal-form", "%d (edge, dof) jumps vanish identically in the vertex coordinates and the edge parameter" % n)


def ob_partition(mesh, spec):
    from bempp_cl.api.space import scalar_spaces as SC

    S.reset()
    grid = _grid(mesh)
    SG.attach_symbolic(grid)
    s1, s2 = S.var("s1"), S.var("s2")
    with patched(SC):
        sp = PL.make_space(grid, spec)
        for E in sp.support_elements:
            vals = sp.evaluate(int(E), BC.local_point(s1, s2))
            tot = sum(vals[0, f, 0] for f in range(vals.shape[1]))
            if not S.is_zero(S.Sym._coerce(tot) - 1):
                return violated("%s on %s: the basis functions sum to %s on element %d" % (spec, mesh, tot, int(E)), signature="partition/%s%d" % (spec[0], spec[1]),
                                replay={"confirmed": False})
    return proved("sym-exec+normal-form", "sum of the basis = 1 at a generic point of each of %d elements" % sp.number_of_support_elements)


def ob_partition_dual(mesh, degree, thorough):
    import bempp_cl.api as api

    warnings.simplefilter("ignore")
    v, e = PL._mesh(mesh)
    ne = np.asarray(e).shape[1]
    closed = not SG.make_grid(v, e).vertex_on_boundary.any()
    n = 0
    for sub in [None] + (BC.subsets(ne, 12) if thorough else []):
        grid = SG.make_grid(v, e)
        kw = {} if sub is None else {"support_elements": np.array(sub, dtype="uint32")}
        if degree == 0:
            if sub is None and not closed:
                kw["include_boundary_dofs"] = True
            elif sub is not None:
                kw["include_boundary_dofs"] = True
                kw["truncate_at_segment_edge"] = True
        else:
            if sub is not None or not closed:
                # DUAL1 has no boundary-dof option: on an open grid the midpoints of boundary edges carry 1/2 (one adjacent element) -- outside the statement
                continue
        sp = api.function_space(grid, "DUAL", degree, **kw)
        T = BC.dense(sp.dof_transformation)
        rows = T.sum(axis=1)
        used = sorted(set(int(x) for b in np.flatnonzero(sp.support) for x in sp.local2global[b]))
        bad = [r for r in used if abs(rows[r] - 1.0) > 1e-14]
        n += 1
        if bad:
            return violated("DUAL%d on %s support=%s: the basis sums to %s at barycentric dof %d (not 1)" % (degree, mesh, sub, rows[bad[0]], bad[0]),
                            witness={"mesh": mesh, "support": sub}, signature="partition/DUAL%d" % degree, replay={"confirmed": True})
    if n == 0:
        return held("not applicable: DUAL1 on an open grid (no boundary-dof option)")
    return held("%d spaces: every used row of the dof transformation sums to 1" % n)


# ---- BC / RBC conformity on the barycentric grid (numeric) ---------------------------------------------------------------


def replay_bc(mesh, kind, seed, sub=None, swapped=None):
    import bempp_cl.api as api

    warnings.simplefilter("ignore")
    grid = _grid(mesh, seed)
    kw = {} if sub is None else {"support_elements": np.array(sub, dtype="uint32")}
    if swapped is not None:
        kw["swapped_normals"] = list(swapped)
    sp = api.function_space(grid, kind, 0, **kw)
    bary = sp.grid
    T = BC.dense(sp.dof_transformation)
    worst, where = 0.0, None

    class G:
        _vertices = bary.vertices
        _integration_elements = bary.integration_elements

    tk = "RWG" if kind == "BC" else "SNC"
    for edge, occ in BC.edge_table(bary).items():
        # BC / RBC spaces are truncated at the segment edge by default: only edges inside the support are constrained (on a non-manifold grid an
        # edge may have further neighbours outside the support)
        occ = [o for o in occ if sp.support[o[0]]]
        if len(occ) != 2:
            continue
        (E0, k0), (E1, k1) = occ
        s0 = s1 = True
        A, B = int(bary.edges[0, edge]), int(bary.edges[1, edge])
        for t in (0.15, 0.8):
            tr0 = _traces(sp, G, bary, E0, k0, A, B, t, tk) if s0 else {}
            tr1 = _traces(sp, G, bary, E1, k1, A, B, t, tk) if s1 else {}
            v0 = np.zeros(T.shape[1])
            v1 = np.zeros(T.shape[1])
            for d, q in tr0.items():
                v0 += T[d, :] * float(q)
            for d, q in tr1.items():
                v1 += T[d, :] * float(q)
            j = np.abs(v0 + v1) if tk == "RWG" else np.abs(v0 - v1)
            if j.max() > worst:
                worst, where = float(j.max()), {"barycentric_edge": edge, "dof": int(j.argmax()), "t": t}
    return {"violates": worst > 1e-11, "max_jump": worst, "where": where, "dofs": int(T.shape[1])}


def replay_bc_raises(mesh, kind, seed, sub=None, swapped=None):
    try:
        replay_bc(mesh, kind, seed, sub, swapped)
        return {"violates": False}
    except Exception as ex:  # noqa
        return {"violates": True, "observed": "%s: %s" % (type(ex).__name__, str(ex)[:200])}


def ob_bc(mesh, kind, seed, sub=None, swapped=None):
    try:
        r = replay_bc(mesh, kind, seed, sub, swapped)
    except Exception as ex:  # noqa: constructing a BC / RBC space with documented options on a valid grid must not raise
        import traceback as _tb

        if "/checks/" in "".join(_tb.format_tb(ex.__traceback__)[-1:]):
            raise
        return violated("constructing %s on %s (support %s, swapped normals %s) raises %s: %s" % (kind, mesh, sub, swapped, type(ex).__name__, str(ex)[:160]),
                        witness={"mesh": mesh, "kind": kind, "support": sub}, signature="bc-conformity/%s/raises" % kind,
                        replay={"callable": "checks.c09:replay_bc_raises", "kwargs": {"mesh": mesh, "kind": kind, "seed": seed, "sub": sub, "swapped": swapped}, "confirmed": True})
    if r["violates"]:
        return violated("%s on %s (perturbation seed %d, support %s): %s component of basis function %d jumps by %.3g across barycentric edge %d"
                        % (kind, mesh, seed, sub, "normal" if kind == "BC" else "tangential", r["where"]["dof"], r["max_jump"], r["where"]["barycentric_edge"]),
                        witness=r["where"], signature="bc-conformity/%s" % kind,
                        replay={"callable": "checks.c09:replay_bc", "kwargs": {"mesh": mesh, "kind": kind, "seed": seed, "sub": sub, "swapped": swapped}, "confirmed": True})
    return held("max jump %.1e over all interior barycentric edges, %d basis functions" % (r["max_jump"], r["dofs"]))


# ---- DOF maps ------------------------------------------------------------------------------------------------------------


def rwg_edge_spec(grid, support, ib, tr):
    """selected edges and final support for RWG / SNC (documented meaning of the options)"""
    ne = grid.number_of_elements
    nb = BC.edge_table(grid)
    edges = set()
    for edge, occ in nb.items():
        sup = [E for E, _ in occ if support[E]]
        if not sup:
            continue
        if len(sup) == 2:
            edges.add(edge)
        elif ib and len(sup) == 1:
            edges.add(edge)
        elif len(sup) > 2:
            raise NotImplementedError("edge %d has %d neighbours inside the segment: edge functions undefined" % (edge, len(sup)))
    final = np.array(support, dtype=bool).copy()
    if ib and not tr:
        if max(len(o) for o in nb.values()) > 2 and not all(support):
            raise NotImplementedError("extension of boundary functions beyond a segment of a non-manifold grid is ambiguous at junction edges")
        for edge in edges:
            if len([E for E, _ in nb[edge] if support[E]]) != 1:
                continue          # only functions on the segment boundary are extended
            for E, _ in nb[edge]:
                final[E] = True
    for E in range(ne):
        if final[E] and not any(int(grid.element_edges[k, E]) in edges for k in range(3)):
            final[E] = False
    return edges, final, nb


def inverse_contract(sp):
    l2g = np.asarray(sp.local2global)
    mult = np.asarray(sp.local_multipliers)
    want = {}
    for E in range(l2g.shape[0]):
        for i in range(l2g.shape[1]):
            if mult[E, i] != 0:
                want.setdefault(int(l2g[E, i]), set()).add((E, i))
                if not sp.support[E]:
                    return "element %d outside the support has a non-zero multiplier" % E
    g2l = sp.global2local
    if len(g2l) != sp.grid_dof_count and len(g2l) != sp.global_dof_count:
        pass
    for d in range(len(g2l)):
        got = {(int(a), int(b)) for a, b in g2l[d]}
        if got != want.get(d, set()):
            return "global2local[%d] = %s, inverse of local2global on non-zero multipliers is %s" % (d, sorted(got), sorted(want.get(d, set())))
    if set(want) - set(range(len(g2l))):
        return "local2global refers to dofs %s beyond global2local" % sorted(set(want) - set(range(len(g2l))))
    return None


def dofmap_contract(grid, sp, kind, deg, support, ib, tr):
    msg = inverse_contract(sp)
    if msg:
        return msg
    l2g = np.asarray(sp.local2global)
    mult = np.asarray(sp.local_multipliers)
    g2l = sp.global2local
    if kind == "DP":
        ns = 1 if deg == 0 else 3
        els = [E for E in range(grid.number_of_elements) if support[E]]
        if sp.global_dof_count != ns * len(els):
            return "%d dofs for %d support elements" % (sp.global_dof_count, len(els))
        if not np.array_equal(np.flatnonzero(sp.support), els):
            return "support %s, selected elements %s" % (np.flatnonzero(sp.support).tolist(), els)
        seen = set()
        for d in range(sp.global_dof_count):
            if len(g2l[d]) != 1 or (int(g2l[d][0][0]), int(g2l[d][0][1])) in seen:
                return "dof %d is not attached to exactly one (element, local index)" % d
            seen.add((int(g2l[d][0][0]), int(g2l[d][0][1])))
        return None
    if kind == "P":
        verts, final, adj = p1_vertex_spec(grid, support, ib, tr)
        if not verts:
            return ("EMPTY", sp.global_dof_count)
        if not np.array_equal(np.asarray(sp.support, dtype=bool), final):
            return "support %s, documented %s" % (np.flatnonzero(sp.support).tolist(), np.flatnonzero(final).tolist())
        if sp.global_dof_count != len(verts):
            return "%d dofs, %d vertices selected by the options" % (sp.global_dof_count, len(verts))
        seen = {}
        for d in range(sp.global_dof_count):
            vs = {int(grid.elements[i, E]) for E, i in g2l[d]}
            if len(vs) != 1:
                return "dof %d is attached to vertices %s" % (d, sorted(vs))
            vtx = vs.pop()
            if vtx in seen:
                return "vertex %d carries dofs %d and %d" % (vtx, seen[vtx], d)
            seen[vtx] = d
            occ = {(E, i) for E in adj[vtx] if final[E] for i in range(3) if int(grid.elements[i, E]) == vtx}
            if {(int(a), int(b)) for a, b in g2l[d]} != occ:
                return "dof %d (vertex %d) is attached to %s, the vertex occurs in the support at %s" % (d, vtx, sorted(g2l[d]), sorted(occ))
            if any(mult[E, i] != 1 for E, i in occ):
                return "P1 multipliers of vertex %d are not 1" % vtx
        if set(seen) != verts:
            return "dofs at vertices %s, options select %s" % (sorted(seen), sorted(verts))
        return None
    if kind in ("RWG", "SNC"):
        edges, final, nb = rwg_edge_spec(grid, support, ib, tr)
        if not edges:
            return ("EMPTY", sp.global_dof_count)
        if not np.array_equal(np.asarray(sp.support, dtype=bool), final):
            return "support %s, documented %s" % (np.flatnonzero(sp.support).tolist(), np.flatnonzero(final).tolist())
        if sp.global_dof_count != len(edges):
            return "%d dofs, %d edges selected by the options" % (sp.global_dof_count, len(edges))
        seen = {}
        for d in range(sp.global_dof_count):
            es = {int(grid.element_edges[i, E]) for E, i in g2l[d]}
            if len(es) != 1:
                return "dof %d is attached to edges %s" % (d, sorted(es))
            edge = es.pop()
            if edge in seen:
                return "edge %d carries dofs %d and %d" % (edge, seen[edge], d)
            seen[edge] = d
            occ = sorted((E, k) for E, k in nb[edge] if final[E])
            if sorted((int(a), int(b)) for a, b in g2l[d]) != occ:
                return "dof %d (edge %d) is attached to %s, the edge occurs in the support at %s" % (d, edge, sorted(g2l[d]), occ)
            if len(occ) == 2:
                lo, hi = occ[0], occ[1]
                if mult[lo[0], lo[1]] != 1 or mult[hi[0], hi[1]] != -1:
                    return "signs of edge %d: %s on element %d, %s on element %d (documented +1 on the lower element, -1 on the other)" % (edge, mult[lo[0], lo[1]], lo[0], mult[hi[0], hi[1]], hi[0])
            elif mult[occ[0][0], occ[0][1]] != 1:
                return "half function on edge %d has multiplier %s" % (edge, mult[occ[0][0], occ[0][1]])
        if set(seen) != edges:
            return "dofs on edges %s, options select %s" % (sorted(seen), sorted(edges))
        return None
    if kind in ("BC", "RBC"):
        edges, final, nb = rwg_edge_spec(grid, support, ib, tr)
        if not edges:
            return ("EMPTY", sp.global_dof_count)
        if sp.global_dof_count != len(edges):
            return "%d dofs, %d edges selected by the options" % (sp.global_dof_count, len(edges))
        return None
    if kind == "DUAL":
        if deg == 1:
            n = int(np.sum(support))
            if sp.global_dof_count != n:
                return "%d dofs for %d support elements" % (sp.global_dof_count, n)
            return None
        verts, final, adj = p1_vertex_spec(grid, support, ib, tr)
        if not verts:
            return ("EMPTY", sp.global_dof_count)
        if sp.global_dof_count != len(verts):
            return "%d dofs, %d vertices selected by the options" % (sp.global_dof_count, len(verts))
        return None
    raise KeyError(kind)


KINDS = [("DP", 0), ("DP", 1), ("P", 1), ("RWG", 0), ("SNC", 0), ("BC", 0), ("RBC", 0), ("DUAL", 0), ("DUAL", 1)]


def _build(mesh, kind, deg, sub, ib, tr, swapped=None):
    import bempp_cl.api as api

    grid = _grid(mesh)
    kw = {}
    if sub is not None:
        kw["support_elements"] = np.array(sub, dtype="uint32")
    if kind in ("P", "RWG", "SNC", "BC", "RBC") or (kind == "DUAL" and deg == 0):
        kw["include_boundary_dofs"] = ib
        kw["truncate_at_segment_edge"] = tr
    elif kind == "DUAL":
        kw["truncate_at_segment_edge"] = tr
    if swapped is not None:
        kw["swapped_normals"] = swapped
    return grid, api.function_space(grid, kind, deg, **kw)


def replay_dofmap(mesh, kind, deg, sub, ib, tr):
    warnings.simplefilter("ignore")
    grid, sp = _build(mesh, kind, deg, sub, ib, tr)
    support = np.zeros(grid.number_of_elements, dtype=bool)
    support[list(range(grid.number_of_elements)) if sub is None else sub] = True
    msg = dofmap_contract(grid, sp, kind, deg, support, ib, tr)
    if isinstance(msg, tuple):
        return {"violates": msg[1] != 0, "message": "no entity is selected by the options, global_dof_count = %d" % msg[1], "empty": True}
    return {"violates": msg is not None, "message": msg, "empty": False}


def ob_dofmap(mesh, kind, deg, thorough):
    warnings.simplefilter("ignore")
    v, e = PL._mesh(mesh)
    ne = np.asarray(e).shape[1]
    manifold = max(len(o) for o in BC.edge_table(SG.make_grid(v, e)).values()) <= 2
    if kind in ("BC", "RBC") and not manifold:
        return held("not applicable: non-manifold mesh (dof-map contract of BC / RBC only on manifold grids; conformity on a closed segment is checked separately)")
    n, out, empties = 0, [], []
    for sub in [None] + BC.subsets(ne, 60 if thorough else 14, seed=9):
        for ib, tr in itertools.product((False, True), (False, True)):
            if kind == "DP" and (ib, tr) != (False, True):
                continue
            if kind == "DUAL" and deg == 1 and ib:
                continue
            try:
                r = replay_dofmap(mesh, kind, deg, sub, ib, tr)
            except NotImplementedError:
                continue          # edge functions undefined for this selection on a non-manifold grid (three supported neighbours / ambiguous extension)
            except ValueError as ex:
                if "not implemented" in str(ex):
                    continue
                raise
            except Exception as ex:  # noqa
                # constructions the library cannot perform are reported with the exception (BC on fragments connected by a vertex, empty supports)
                out.append(("construction", sub, ib, tr, "%s: %s" % (type(ex).__name__, str(ex)[:120])))
                continue
            n += 1
            if r["empty"]:
                if r["violates"]:
                    empties.append((sub, ib, tr, r["message"]))
                continue
            if r["violates"]:
                return violated("%s%d on %s support=%s include_boundary_dofs=%s truncate_at_segment_edge=%s: %s" % (kind, deg, mesh, sub, ib, tr, r["message"]),
                                witness={"mesh": mesh, "kind": kind, "support": sub, "ib": ib, "tr": tr}, signature="dofmap/%s%d" % (kind, deg),
                                replay={"callable": "checks.c09:replay_dofmap", "kwargs": {"mesh": mesh, "kind": kind, "deg": deg, "sub": sub, "ib": ib, "tr": tr}, "confirmed": True})
    res = []
    if empties:
        sub, ib, tr, m = empties[0]
        res.append(("empty-selection",
                    violated("%s%d on %s support=%s include_boundary_dofs=%s truncate_at_segment_edge=%s: %s (%d such selections)" % (kind, deg, mesh, sub, ib, tr, m, len(empties)),
                             witness={"mesh": mesh, "kind": kind, "support": sub, "ib": ib, "tr": tr}, signature="dofmap/empty-selection/phantom-dof",
                             replay={"callable": "checks.c09:replay_dofmap", "kwargs": {"mesh": mesh, "kind": kind, "deg": deg, "sub": sub, "ib": ib, "tr": tr}, "confirmed": True})))
    cons = [o for o in out if o[0] == "construction"]
    if cons and kind not in ("BC", "RBC", "DUAL"):
        _, sub, ib, tr, m = cons[0]
        res.append(("construction",
                    violated("%s%d on %s support=%s include_boundary_dofs=%s truncate_at_segment_edge=%s cannot be built: %s" % (kind, deg, mesh, sub, ib, tr, m),
                             witness={"support": sub, "ib": ib, "tr": tr}, signature="dofmap/construction/%s%d" % (kind, deg), replay={"confirmed": True})))
    res.append(("contract", held("%d spaces meet the dof-map contract (%d constructions refused by the library)" % (n, len(cons)))))
    return res


def ob_p1_selection_native(gridname):
    """bounded link between the block contract and real executions: the extracted selection block of _compute_p1_dof_map (the text the V-engine proves) is run by
    CPython along the real loop order on real grids for all option combinations and several segment choices; at every step its `requires` hold (grid invariants of
    the vertex-neighbour table, support flags) and its `ensures` hold; the state it leaves (pre-dof table) agrees with the map the real function returns."""
    import itertools
    from vlib import vrun as VR, vnative as VN, zoo as Z
    from bempp_cl.api.space.space import _process_segments
    from bempp_cl.api.space import scalar_spaces as SC

    block, contract, params = VR.native_block("contracts.dofmap_blocks", "_p1_selection_block", helpers=("find_index",))
    numbering, ncontract, _ = VR.native_block("contracts.dofmap_blocks", "_p1_numbering")
    grid = Z.grid_with_domains(gridname)
    doms = sorted(set(int(d) for d in grid.domain_indices))
    steps = 0
    vn, ptr = grid.vertex_neighbors
    for segs in [None] + [[d] for d in doms] + [doms[:2]]:
        for ibd, trunc in itertools.product((False, True), (False, True)):
            support, _ = _process_segments(grid, None, segs, None)
            N = grid.number_of_elements
            state = {"grid_data_elements": np.asarray(grid.elements).astype(int), "grid_data_vertex_on_boundary": np.asarray(grid.vertex_on_boundary).astype(int),
                     "vertex_neighbors": np.asarray(vn).astype(int), "index_ptr": np.asarray(ptr).astype(int), "support": np.asarray(support).astype(int),
                     "include_boundary_dofs": int(ibd), "truncate_at_segment_edge": int(trunc), "local2global": -np.ones((N, 3), dtype=int),
                     "vertex_is_dof": np.zeros(grid.number_of_vertices, dtype=int), "extended_support": []}
            for E in [int(e) for e in np.flatnonzero(support)]:
                for li in range(3):
                    args = dict(state, element_index=E, local_index=li)
                    env = VN.bind_shapes(contract, args)
                    for t in contract["requires"]:
                        if not VN.evaluate(t, env):
                            return violated("the real execution reaches the selection block in a state outside its `requires` (%s) on %s segments=%s" % (t[:90], gridname, segs),
                                            witness={"grid": gridname, "segments": segs, "element": E, "local_index": li}, signature="p1-selection/requires", replay={"confirmed": True})
                    old = {"old_" + k: (v.copy() if isinstance(v, np.ndarray) else (list(v) if isinstance(v, list) else v)) for k, v in env.items()}
                    res = block(*[args[p_] for p_ in params])
                    env.update(old)
                    env.update({"result": res, "result_0": res[0], "result_1": res[1], "result_2": res[2]})
                    for t in contract["ensures"]:
                        if not VN.evaluate(t, env):
                            return violated("selection block of _compute_p1_dof_map violates its contract natively on %s segments=%s include_boundary_dofs=%s truncate=%s at element %d slot %d: %s"
                                            % (gridname, segs, ibd, trunc, E, li, t[:120]), witness={"grid": gridname, "segments": segs, "element": E, "local_index": li},
                                            signature="p1-selection/ensures", replay={"confirmed": True})
                    steps += 1
            # the numbering slice (same text the V-engine proves) on the marker array the selection leaves
            nres = numbering(state["vertex_is_dof"].copy(), grid.number_of_vertices)
            nenv = {"vertex_is_dof": state["vertex_is_dof"], "number_of_vertices": grid.number_of_vertices, "result_0": np.asarray(nres[0]).astype(int), "result_1": int(nres[1])}
            for t in ncontract["requires"] + ncontract["ensures"]:
                if not VN.evaluate(t, nenv):
                    return violated("numbering slice of _compute_p1_dof_map violates its contract natively on %s segments=%s: %s" % (gridname, segs, t[:120]),
                                    witness={"grid": gridname, "segments": segs}, signature="p1-numbering/native", replay={"confirmed": True})
            # the pre-dof table the block leaves is what the real function turns into the dof map: slot carries a dof <=> multiplier 1
            l2g, mult, sup = SC._compute_p1_dof_map(grid.data(), np.asarray(support).copy(), ibd, trunc, vn, ptr)
            if not np.array_equal(np.asarray(mult) != 0, state["local2global"] != -1):
                return violated("pre-dof table of the block-wise run differs from the multipliers of the real function on %s segments=%s include_boundary_dofs=%s truncate=%s"
                                % (gridname, segs, ibd, trunc), witness={"grid": gridname, "segments": segs}, signature="p1-selection/real-function", replay={"confirmed": True})
    return held("%d block executions, all requires and ensures hold; final tables agree with the real function" % steps)


def ob_rwg_step_native(gridname):
    """bounded link for `_rwg_step_block` (see ob_p1_selection_native): the extracted step of the first loop of _compute_rwg0_space_data is run by CPython along the
    real loop order (the two lines of that loop outside the block - `has_dof = False` and the removal of elements without dof - are replayed by the driver) on real
    grids, all option combinations and several segments: requires and ensures hold at every step, and dof count and final support equal the real function's."""
    import itertools
    from vlib import vrun as VR, vnative as VN, zoo as Z
    from bempp_cl.api.space.space import _process_segments
    from bempp_cl.api.space import maxwell_spaces as MX

    block, contract, params = VR.native_block("contracts.dofmap_blocks", "_rwg_step_block")
    grid = Z.grid_with_domains(gridname)
    doms = sorted(set(int(d) for d in grid.domain_indices))
    en, ptr = grid.edge_neighbors, None
    from bempp_cl.api.utils.helpers import serialise_list_of_lists

    en, ptr = serialise_list_of_lists(grid.edge_neighbors)
    steps = 0
    for segs in [None] + [[d] for d in doms] + [doms[:2]]:
        for ibd, trunc in itertools.product((False, True), (False, True)):
            support0, _ = _process_segments(grid, None, segs, None)
            N = grid.number_of_elements
            st = {"element_edges": np.asarray(grid.element_edges).astype(int), "edge_dofs": -np.ones(grid.number_of_edges, dtype=int), "edge_neighbors": np.asarray(en).astype(int),
                  "edge_neighbors_ptr": np.asarray(ptr).astype(int), "support": np.asarray(support0).astype(int).copy(), "dof_count": 0, "has_dof": 0,
                  "include_boundary_dofs": int(ibd), "truncate_at_segment_edge": int(trunc)}
            for E in [int(e) for e in np.flatnonzero(st["support"])]:
                st["has_dof"] = 0
                for li in range(3):
                    args = dict(st, element=E, local_index=li)
                    env = VN.bind_shapes(contract, args)
                    for t in contract["requires"]:
                        if not VN.evaluate(t, env):
                            return violated("the real execution reaches the RWG step block outside its `requires` (%s) on %s segments=%s" % (t[:90], gridname, segs),
                                            witness={"grid": gridname, "segments": segs, "element": E, "local_index": li}, signature="rwg-step/requires", replay={"confirmed": True})
                    old = {"old_" + k: (v.copy() if isinstance(v, np.ndarray) else v) for k, v in env.items()}
                    res = block(*[args[p_] for p_ in params])
                    env.update(old)
                    env.update({"result": res, "result_0": res[0], "result_1": res[1], "result_2": int(res[2]), "result_3": int(res[3])})
                    for t in contract["ensures"]:
                        if not VN.evaluate(t, env):
                            return violated("step block of _compute_rwg0_space_data violates its contract natively on %s segments=%s include_boundary_dofs=%s truncate=%s at element %d edge slot %d: %s"
                                            % (gridname, segs, ibd, trunc, E, li, t[:120]), witness={"grid": gridname, "segments": segs, "element": E, "local_index": li},
                                            signature="rwg-step/ensures", replay={"confirmed": True})
                    st["dof_count"], st["has_dof"] = int(res[2]), int(res[3])
                    steps += 1
                if not st["has_dof"]:
                    st["support"][E] = 0
            dc, sup, l2g, mult = MX._compute_rwg0_space_data(np.asarray(support0).copy(), en, ptr, grid.element_edges, N, grid.number_of_edges, ibd, trunc)
            if int(dc) != st["dof_count"] or not np.array_equal(np.asarray(sup).astype(bool), st["support"].astype(bool)):
                return violated("dof count / support of the block-wise run differ from the real function on %s segments=%s include_boundary_dofs=%s truncate=%s (%s vs %s)"
                                % (gridname, segs, ibd, trunc, st["dof_count"], int(dc)), witness={"grid": gridname, "segments": segs}, signature="rwg-step/real-function",
                                replay={"confirmed": True})
    return held("%d block executions, all requires and ensures hold; dof count and support agree with the real function" % steps)


def main():
    run = Run("C09", "other")
    thorough = run.tier == "thorough"
    run.explanation = __doc__
    from bempp_cl.api.space import scalar_spaces as SC, maxwell_spaces as MX, scalar_dual_spaces as SD, space as SP, shapesets as SH

    for f in (SC.p1_continuous_function_space, SC._compute_p1_dof_map, SC.p0_discontinuous_function_space, SC.p1_discontinuous_function_space, MX.rwg0_function_space,
              MX.snc0_function_space, MX._compute_rwg0_space_data, MX._numba_rwg0_evaluate, MX._numba_snc0_evaluate, SP.invert_local2global, SP._process_segments,
              MX.bc_function_space, MX.rbc_function_space, MX._compute_bc_space_data, SD.dual0_function_space, SD.dual1_function_space):
        run.under_contract(f, dropped="numba decorators; float dtypes; DOF maps are computed by the real code per topology (integers), only the evaluators run on symbols")
    run.add("lemma.conormal", "lemma", ob_lemma_conormal)
    # per-iteration block contracts of the final loops of the P1 and RWG/SNC dof-map functions (V-engine, all sizes): multiplier != 0 <=> the slot carries a real
    # dof and maps to its number; slot cover (used by C16); frame
    from vlib import vrun as VR

    for blk in ("_boundary_vertices", "_p1_selection_block", "_p1_numbering", "_p1_final_block", "_rwg_selection_block", "_rwg_step_block", "_rwg_final_block"):
        VR.add_block(run, "contracts.dofmap_blocks", blk)
    # which elements a space covers and which normals it swaps (space._process_segments): deductive block contract + native link of the list-as-set abstraction
    # (lists in any order, tuples, sets, dicts and key views of domain ids; support_elements)
    from checks import c03 as _c03

    VR.add_block(run, "contracts.dofmap_blocks", "_process_segments_block")
    run.add("space._process_segments::native[lists in any order, with repetitions, tuples, sets, dicts; support_elements; both -> ValueError]", "bounded", _c03.ob_process_segments)
    for gname in ("screen2", "octa", "two_tets_face") + (("screen3", "cube12") if thorough else ()):
        run.add("_p1_selection_block::native[%s]" % gname, "bounded", ob_p1_selection_native, gname)
    for gname in ("screen2", "octa", "two_tets_face") + (("screen3", "cube12") if thorough else ()):
        run.add("_rwg_step_block::native[%s]" % gname, "bounded", ob_rwg_step_native, gname)
    run.add("_rwg_step_block::canary", "cover", VR.ob_block_canary, "contracts.dofmap_blocks", "_rwg_step_block",
            [("len(supported_neighbors) == 2", "len(supported_neighbors) >= 2"), ("len(supported_neighbors) == 1 and include_boundary_dofs", "len(supported_neighbors) == 1"),
             ("if not truncate_at_segment_edge", "if truncate_at_segment_edge"), ("if support[e]", "if not support[e]"), ("support[cell] = True", "support[cell] = False"),
             ("edge_dofs[edge_index] != -1", "edge_dofs[edge_index] != 0")])
    run.add("_p1_numbering::canary", "cover", VR.ob_block_canary, "contracts.dofmap_blocks", "_p1_numbering",
            [("-_np.ones(number_of_vertices)", "_np.ones(number_of_vertices)"), ("_np.flatnonzero(vertex_is_dof)", "_np.flatnonzero(vertex_is_dof == 0)"),
             ("_np.arange(global_dof_count)", "_np.ones(global_dof_count)")])
    run.add("_p1_selection_block::canary", "cover", VR.ob_block_canary, "contracts.dofmap_blocks", "_p1_selection_block",
            [("not support[n]", "support[n]"), ("include_boundary_dofs or node_is_interior", "include_boundary_dofs and node_is_interior"),
             ("(not truncate_at_segment_edge) and include_boundary_dofs", "truncate_at_segment_edge and include_boundary_dofs"),
             ("local2global[en, other_local_index] = vertex", "local2global[en, other_local_index] = en"),
             (" and (not grid_data_vertex_on_boundary[vertex])", ""),
             ("len(non_support_neighbors) > 0 and", "len(non_support_neighbors) > 0 and (not grid_data_vertex_on_boundary[vertex]) and")])
    # nested helper of _compute_p1_dof_map, assumed by the selection block at its call site
    VR.add_function(run, "bempp_cl.api.space.scalar_spaces", "_compute_p1_dof_map::find_index", "contracts.p1_helpers",
                    [{"array": [3, 1, 2], "value": 2}, {"array": [3, 1, 2], "value": 7}, {"array": [5, 5], "value": 5}])
    # invert_local2global: global2local lists (e, i) under d  <=>  local2global[e, i] == d with a non-zero multiplier (V-engine, all sizes; the list of lists is
    # abstracted to a relation: order and multiplicity of the entries are not modelled)
    VR.add_function(run, "bempp_cl.api.space.space", "invert_local2global", "contracts.space_maps",
                    [{"local2global_map": [[0, 1, 2], [2, 1, 3]], "local_multipliers": [[1, 1, 0], [1, -1, 1]]}, {"local2global_map": [[0]], "local_multipliers": [[1]]},
                     {"local2global_map": [[1, 1], [0, 1]], "local_multipliers": [[0, 1], [1, 0]]}])
    B = {"include_boundary_dofs": True}
    conf = [("tetra", ("P", 1, {})), ("tetra", ("RWG", 0, {})), ("tetra", ("SNC", 0, {})), ("pair:2:012:120", ("P", 1, B)), ("pair:2:012:120", ("RWG", 0, B)),
            ("pair:2:012:120", ("SNC", 0, B)), ("pair:2:120:201", ("P", 1, B)), ("pair:2:120:201", ("RWG", 0, B)), ("pair:2:120:201", ("SNC", 0, B)),
            ("fan3", ("P", 1, B)), ("screen2", ("P", 1, {})), ("screen2", ("RWG", 0, {})), ("screen2", ("SNC", 0, B)),
            ("tetra", ("P", 1, {"segments": [2], "include_boundary_dofs": True, "truncate_at_segment_edge": False})),
            ("tetra", ("RWG", 0, {"segments": [2], "include_boundary_dofs": True, "truncate_at_segment_edge": False})),
            ("tetra", ("SNC", 0, {"segments": [1], "include_boundary_dofs": False})),
            ("screen2", ("P", 1, {"segments": [1, 2]})), ("screen2", ("RWG", 0, {"segments": [2], "include_boundary_dofs": True, "truncate_at_segment_edge": True})),
            ("tetra", ("SNC", 0, {"swapped_normals": [1, 2]})), ("tetra", ("RWG", 0, {"swapped_normals": [1, 2]})),
            # multitrace-like grid (two tetrahedra sharing face 3, junction edges with three faces): the two closed sub-surfaces and the shared face
            ("two_tets_face", ("RWG", 0, {"segments": [1, 3]})), ("two_tets_face", ("RWG", 0, {"segments": [2, 3]})), ("two_tets_face", ("SNC", 0, {"segments": [2, 3], "swapped_normals": [3]})),
            ("two_tets_face", ("RWG", 0, {"segments": [2, 3], "swapped_normals": [3]})), ("two_tets_face", ("P", 1, {"segments": [2, 3], "include_boundary_dofs": True})),
            ("two_tets_face", ("RWG", 0, {"segments": [2], "include_boundary_dofs": True})),
            ("octa+tetra", ("SNC", 0, {"swapped_normals": [2]})), ("octa+tetra", ("RWG", 0, {"swapped_normals": [2]}))]
    if thorough:
        conf += [("octa", ("P", 1, {})), ("octa", ("RWG", 0, {})), ("octa", ("SNC", 0, {})), ("octa", ("P", 1, {"segments": [2], "include_boundary_dofs": True, "truncate_at_segment_edge": False}))]
    for mesh, spec in conf:
        run.add("conformity[%s %s%d%s]" % (mesh, spec[0], spec[1], sorted(spec[2].items())), "post", ob_conformity, mesh, spec)
    for mesh, spec in (("tetra", ("DP", 0, {})), ("tetra", ("P", 1, {})), ("screen2", ("P", 1, B)), ("screen2", ("DP", 0, {"segments": [2]})), ("fan3", ("P", 1, B)),
                       ("tetra", ("P", 1, {"segments": [1], "include_boundary_dofs": True}))):
        run.add("partition-of-unity[%s %s%d%s]" % (mesh, spec[0], spec[1], sorted(spec[2].items())), "post", ob_partition, mesh, spec)
    for mesh in ("tetra", "octa", "screen2") + (("cube12", "torus33") if thorough else ()):
        for degree in (0, 1):
            run.add("partition-of-unity[%s DUAL%d]" % (mesh, degree), "bounded", ob_partition_dual, mesh, degree, thorough)
    for mesh in ("tetra", "octa") + (("cube12", "torus33") if thorough else ()):
        for kind in ("BC", "RBC"):
            for seed in (1, 2) if thorough else (1,):
                run.add("bc-conformity[%s %s seed=%d]" % (mesh, kind, seed), "bounded", ob_bc, mesh, kind, seed)
    for kind in ("BC", "RBC"):
        run.add("bc-conformity[two tetrahedra sharing a face, closed segment, %s]" % kind, "bounded", ob_bc, "two_tets_face", kind, 4, [0, 1, 2, 3])
    for kind in ("BC", "RBC"):
        # two closed components, normals swapped on one of them (the documented use: an inner surface inside an outer one) and on both
        for sw in ([2], [1, 2]):
            run.add("bc-conformity[octa+tetra %s swapped_normals=%s]" % (kind, sw), "bounded", ob_bc, "octa+tetra", kind, 5, None, sw)
    run.add("bc-conformity[octa BC segment]", "bounded", ob_bc, "octa", "BC", 3, [0, 1, 2, 3])
    run.add("bc-conformity[octa RBC segment]", "bounded", ob_bc, "octa", "RBC", 3, [0, 1, 2, 3])
    for mesh in ["tetra", "octa", "screen2", "fan3", "torus33", "two_tets_face"] + (["cube12", "screen3"] if thorough else []):
        for kind, deg in KINDS:
            run.add("dof-map[%s,%s%d]" % (mesh, kind, deg), "bounded", ob_dofmap, mesh, kind, deg, thorough)
    run.bound("conformity / partition of unity: symbolic geometry on the topologies listed in the obligation names")
    run.bound("dof maps: tetrahedron, octahedron, 2x2 screen, non-manifold fan, 3x3 torus (genus 1) [thorough: cube, 3x3 screen] x supports (all when few, else a fixed random sample) "
              "x the four option combinations")
    run.bound("BC / RBC conformity: perturbed tetrahedron and octahedron (thorough: cube, torus), two points per barycentric edge")
    run.assume("on the multitrace-like grid the shared face is oriented outward for the first tetrahedron; the second closed surface is consistently oriented only with "
               "swapped_normals on that face, which is how SNC (= n x RWG) is exercised there")
    run.assume("swapped normals are exercised for whole-grid swaps only: between a swapped and a non-swapped domain of one connected surface the orientation is inconsistent and "
               "SNC = n x RWG cannot be tangentially continuous")
    run.assume("the documented meaning of the options used as specification: P1 dofs = vertices of the segment (interior ones only unless include_boundary_dofs); RWG/SNC dofs = edges "
               "with two neighbours in the segment (all edges of segment elements with include_boundary_dofs); truncate_at_segment_edge=False extends the support to the neighbouring elements")
    run.assumed_contract("block preconditions of contracts/dofmap_blocks.py",
                         "each block is verified per iteration under its `requires` (rows of an unprocessed element still zero, dof numbers of marked vertices / edges "
                         "non-negative, an element kept in the support has a dof).  For RWG / SNC the last one is the postcondition of `_rwg_selection_block` together with "
                         "the frame clause (dof numbers never return to -1); the others follow from the allocation with zeros and from every element being visited once. "
                         "This composition over the loops is an argument on paper, backed by the bounded DOF-map contracts on real runs")
    return run.finish()


if __name__ == "__main__":
    sys.exit(main())
