"""C10 barycentric and dual-grid spaces represent the functions they claim to (DESIGN 3, C10).

Deductive (P-engine; real code executed on symbolic vertex coordinates, symbolic coefficient vectors and a symbolic local point):
  * barycentric-representation[...]: for DP0, P1, RWG, SNC (whole grid, segments, boundary-dof options) the function
    sum_d c_d g_d of the original space and the function of the barycentric representation with coefficients (dof_transformation c) agree at
    a generic point of each of the six sub-triangles of every support element -- for all geometries and all coefficient vectors on the
    topologies of the zoo.  The relation between the sub-triangle's local coordinates and the parent's reference coordinates is derived from
    the barycentric grid itself (vlib/barycheck.py) and checked symbolically (nesting lemma), not assumed from the numbering.
Exact (geometry-free, on each topology of the sweep):
  * dual-nodal-values[...]: the dof transformation of DUAL0 / DUAL1 equals the documented nodal table: DUAL0 = indicator of the dual cell of its
    vertex, DUAL1 = 1 at the barycentre of its element, 1/2 at the midpoints of its edges, 1/n at its n-valent vertices, 0 at all other
    barycentric nodes (bounded over topologies / supports / options; entries compared exactly).
Bounded (floats, zoo grids):
  * mixed-mass[...]: identity(primal, ., dual or BC/RBC).weak_form() equals direct quadrature, on the barycentric grid, of the product of the dual
    basis (from its dof transformation) with the primal basis evaluated through the ORIGINAL space at the mapped point (so a wrong primal
    coefficient table or a wrong compatible-representation switch shows up).
"""

import itertools
import sys
import warnings
from fractions import Fraction as Fr

import numpy as np

from vlib import sym as S
from vlib import symgrid as SG
from vlib import pipeline as PL
from vlib import zoo as Z
from vlib import barycheck as BC
from vlib.objnp import patched
from vlib.sparsestub import patched_scipy
from vlib.framework import Run, proved, violated, undecided, held

DI = {"screen2": [1, 1, 2, 2, 1, 3, 2, 2], "tetra": [1, 2, 2, 1], "fan3": [1, 2, 1], "pair:2:012:120": [1, 2], "pair:2:120:201": [1, 1], "octa": [1, 1, 2, 2, 1, 2, 2, 3]}


def _spaces_modules():
    from bempp_cl.api.space import maxwell_spaces as MX, scalar_spaces as SC

    return MX, SC


def ob_nesting(mesh):
    """lemma: every vertex of barycentric element 6E+j is the stated affine combination of the vertices of E (symbolic), i.e. the local coordinates
    used to compare the two representations address the same physical point."""
    S.reset()
    v, e = PL._mesh(mesh)
    grid = SG.make_grid(v, e)
    g, gb = SG.attach_symbolic_barycentric(grid)
    sub = BC.sub_reference_coordinates(grid)
    bary = grid.barycentric_refinement
    for b, coords in sub.items():
        E = b // 6
        cv = [int(x) for x in grid.elements[:, E]]
        for k, (x1, x2) in enumerate(coords):
            lam = [1 - x1 - x2, x1, x2]
            for i in range(3):
                d = S.Sym._coerce(gb._vertices[i, int(bary.elements[k, b])]) - sum(S.Sym.const(l) * g._vertices[i, c] for l, c in zip(lam, cv))
                if not S.is_zero(d):
                    return violated("vertex %d of barycentric element %d is not the combination %s of the parent's vertices" % (k, b, lam), signature="nesting", replay={"confirmed": False})
    return proved("sym-exec+normal-form", "%d barycentric elements" % len(sub))


def replay_representation(mesh, spec, seed=1):
    """numeric replay: maximal pointwise difference between the function of the original space and of its barycentric representation"""
    import bempp_cl.api as api

    warnings.simplefilter("ignore")
    v, e = PL._mesh(mesh)
    rng = np.random.RandomState(seed)
    v = np.asarray(v, dtype=float) + 0.07 * rng.randn(*np.asarray(v).shape)
    grid = SG.make_grid(v, e, np.array(DI[mesh], dtype="uint32") if mesh in DI else None)
    kind, deg, kw = spec
    sp = api.function_space(grid, kind, deg, **kw)
    sb = sp.barycentric_representation()
    T = BC.dense(sb.dof_transformation)
    c = rng.randn(sp.global_dof_count)
    sub = BC.sub_reference_coordinates(grid)
    worst, where = 0.0, None
    for E in sp.support_elements:
        for j in range(6):
            b = 6 * int(E) + j
            s = np.array([[0.21], [0.33]])
            xi = np.array([[float(x)] for x in BC.map_local(sub[b], 0.21, 0.33)])
            fb = BC.function_value(sb, T, c, b, s).astype(float)
            fc = BC.function_value(sp, None, c, int(E), xi).astype(float)
            d = float(np.abs(fb - fc).max())
            if d > worst:
                worst, where = d, (int(E), j)
    return {"violates": worst > 1e-10, "max_pointwise_difference": worst, "element_subtriangle": where}


def ob_representation(mesh, spec):
    MX, SC = _spaces_modules()
    S.reset()
    v, e = PL._mesh(mesh)
    grid = SG.make_grid(v, e, np.array(DI[mesh], dtype="uint32") if mesh in DI else None)
    g, gb = SG.attach_symbolic_barycentric(grid)
    sub = BC.sub_reference_coordinates(grid)
    with patched(MX), patched(SC), patched_scipy():
        sp = PL.make_space(grid, spec)
        from vlib import potential as PT

        PT.densify(sp)
        sb = sp.barycentric_representation()
        T = np.asarray(BC.dense(sb.dof_transformation), dtype=object)
        c = S.symarray("c", (sp.global_dof_count,))
        s1, s2 = S.var("s1"), S.var("s2")
        n = 0
        for E in sp.support_elements:
            E = int(E)
            for j in range(6):
                b = 6 * E + j
                if not sb.support[b]:
                    return violated("sub-triangle %d of support element %d is not in the support of the barycentric representation" % (j, E), signature="representation/support",
                                    replay={"callable": "checks.c10:replay_representation", "kwargs": {"mesh": mesh, "spec": list(spec)}, "confirmed": False})
                xi = BC.map_local(sub[b], s1, s2)
                fb = BC.function_value(sb, T, c, b, BC.local_point(s1, s2))
                fc = BC.function_value(sp, None, c, E, BC.local_point(xi[0], xi[1]))
                for k in range(fb.shape[0]):
                    d = S.Sym._coerce(fb[k, 0]) - S.Sym._coerce(fc[k, 0])
                    n += 1
                    if not S.is_zero(d):
                        w = S.find_witness(d, seed=11)
                        nat = replay_representation(mesh, spec)
                        if w is None and not nat["violates"]:
                            return undecided("difference on element %d sub-triangle %d component %d not reduced to zero, no numeric witness" % (E, j, k), backend="sym-exec+normal-form")
                        return violated("%s%d%s on %s: the barycentric representation differs from the original function on sub-triangle %d of element %d "
                                        "(component %d; native replay on a perturbed mesh: max pointwise difference %.3g at %s)"
                                        % (spec[0], spec[1], spec[2], mesh, j, E, k, nat["max_pointwise_difference"], nat["element_subtriangle"]),
                                        witness={"element": E, "subtriangle": j}, backend="sym-exec+normal-form", signature="representation/%s%d" % (spec[0], spec[1]),
                                        replay={"callable": "checks.c10:replay_representation", "kwargs": {"mesh": mesh, "spec": list(spec)}, "confirmed": nat["violates"], "result": nat})
    return proved("sym-exec+normal-form", "%d component identities (all geometries, all coefficient vectors, generic point per sub-triangle)" % n)


# ---- dual spaces: nodal tables ---------------------------------------------------------------------------------------------


def boundary_vertices(grid):
    """vertices on the boundary of the grid, from the element list alone: end points of the sides that belong to exactly one element (not the grid's own flags, which
    are part of the code under contract)"""
    count = {}
    for E in range(grid.number_of_elements):
        v = [int(x) for x in grid.elements[:, E]]
        for a, b in ((v[0], v[1]), (v[1], v[2]), (v[2], v[0])):
            count[(min(a, b), max(a, b))] = count.get((min(a, b), max(a, b)), 0) + 1
    out = set()
    for (a, b), c in count.items():
        if c == 1:
            out.update((a, b))
    return out


def p1_vertex_spec(grid, support, include_boundary_dofs, truncate):
    """the vertices that carry a P1 dof, and the final support (documented meaning of the options)"""
    ne = grid.number_of_elements
    on_boundary = boundary_vertices(grid)
    adj = {}
    for E in range(ne):
        for k in range(3):
            adj.setdefault(int(grid.elements[k, E]), []).append(E)
    verts = set()
    for E in range(ne):
        if not support[E]:
            continue
        for k in range(3):
            vtx = int(grid.elements[k, E])
            interior = all(support[n] for n in adj[vtx]) and vtx not in on_boundary
            if include_boundary_dofs or interior:
                verts.add(vtx)
    final = np.array(support, dtype=bool).copy()
    if include_boundary_dofs and not truncate:
        for vtx in verts:
            for n in adj[vtx]:
                final[n] = True
    # elements without any dof are not part of the support
    for E in range(ne):
        if final[E] and not any(int(grid.elements[k, E]) in verts for k in range(3)):
            final[E] = False
    return verts, final, adj


def dual0_contract(grid, space, support, ib, tr):
    """None or message: DUAL0 dof transformation = indicator of dual cells of the selected vertices"""
    verts, final, adj = p1_vertex_spec(grid, support, ib, tr)
    bary = grid.barycentric_refinement
    nv = grid.number_of_vertices
    T = BC.dense(space.dof_transformation)
    want_support = np.repeat(final, 6)
    if not np.array_equal(np.asarray(space.support, dtype=bool), want_support):
        return "support of the DUAL0 space is %s, documented %s" % (np.flatnonzero(space.support).tolist(), np.flatnonzero(want_support).tolist())
    if T.shape[1] != len(verts):
        return "DUAL0 has %d dofs, %d vertices are selected by the options" % (T.shape[1], len(verts))
    seen = {}
    for d in range(T.shape[1]):
        col = T[:, d]
        cells = np.flatnonzero(col)
        if len(cells) == 0:
            return "DUAL0 basis function %d is identically zero" % d
        if not np.all(col[cells] == 1.0):
            return "DUAL0 basis function %d takes values %s" % (d, sorted(set(col[cells].tolist())))
        # bary elements of those cells
        bels = []
        for pos in cells:
            hits = np.flatnonzero(np.asarray(space.local2global[:, 0]) == pos)
            hits = [int(h) for h in hits if space.support[h]]
            if len(hits) != 1:
                return "barycentric dof %d belongs to %d support elements" % (pos, len(hits))
            bels.append(hits[0])
        owner = set()
        for b in bels:
            cvs = [int(x) for x in bary.elements[:, b] if int(x) < nv]
            owner.update(cvs)
            if len(cvs) != 1:
                return "barycentric element %d has %d coarse vertices" % (b, len(cvs))
        if len(owner) != 1:
            return "DUAL0 basis function %d covers sub-triangles of several vertices %s" % (d, sorted(owner))
        vtx = owner.pop()
        if vtx in seen:
            return "vertex %d carries two DUAL0 dofs" % vtx
        seen[vtx] = d
        cell = sorted(b for b in range(bary.number_of_elements) if want_support[b] and vtx in [int(x) for x in bary.elements[:, b]])
        if sorted(bels) != cell:
            return "DUAL0 basis function of vertex %d lives on barycentric elements %s, its dual cell within the support is %s" % (vtx, sorted(bels), cell)
    if set(seen) != verts:
        return "DUAL0 dofs sit at vertices %s, the options select %s" % (sorted(seen), sorted(verts))
    return None


def dual1_contract(grid, space, support, tr):
    bary = grid.barycentric_refinement
    nv, ne = grid.number_of_vertices, grid.number_of_elements
    T = BC.dense(space.dof_transformation)
    els = [E for E in range(ne) if support[E]]
    if T.shape[1] != len(els):
        return "DUAL1 has %d dofs for %d support elements" % (T.shape[1], len(els))
    adj = {}
    for E in range(ne):
        for k in range(3):
            adj.setdefault(int(grid.elements[k, E]), []).append(E)
    final = np.array(support, dtype=bool).copy()
    if not tr:
        for E in els:
            for k in range(3):
                for n in adj[int(grid.elements[k, E])]:
                    final[n] = True
    want_support = np.repeat(final, 6)
    if not np.array_equal(np.asarray(space.support, dtype=bool), want_support):
        return "support of the DUAL1 space is elements %s, documented %s" % (sorted(set((np.flatnonzero(space.support) // 6).tolist())), np.flatnonzero(final).tolist())
    # classify barycentric vertices: coarse vertex / edge midpoint (which edge) / centroid (which element)
    kind = {}
    for E in range(ne):
        ids = set(int(x) for b in range(6 * E, 6 * E + 6) for x in bary.elements[:, b])
        cent = [i for i in ids if i >= nv and all(i in [int(x) for x in bary.elements[:, b]] for b in range(6 * E, 6 * E + 6))]
        if len(cent) != 1:
            return "cannot identify the centroid vertex of element %d" % E
        kind[cent[0]] = ("c", E)
    for i in range(nv):
        kind[i] = ("v", i)
    mids = {}
    for i in range(nv, bary.number_of_vertices):
        if i not in kind:
            kind[i] = ("m", i)
            mids[i] = set()
    for E in range(ne):
        for b in range(6 * E, 6 * E + 6):
            for x in bary.elements[:, b]:
                if int(x) in mids:
                    mids[int(x)].add(E)
    for d, K in enumerate(els):
        # dof d <-> element K: the column must carry 1 at the centroid of exactly one support element; identify it
        col = T[:, d]
        for b in np.flatnonzero(want_support):
            b = int(b)
            for k in range(3):
                slot = int(space.local2global[b, k])
                got = col[slot]
                vid = int(bary.elements[k, b])
                kd = kind[vid]
                if kd[0] == "c":
                    want = 1.0 if kd[1] == K else 0.0
                elif kd[0] == "m":
                    want = 0.5 if K in mids[vid] else 0.0
                else:
                    want = 1.0 / len(adj[vid]) if vid in [int(x) for x in grid.elements[:, K]] else 0.0
                if abs(got - want) > 1e-15:
                    where = {"c": "the barycentre of element %s", "m": "edge midpoint (barycentric vertex %s)", "v": "vertex %s"}[kd[0]] % kd[1]
                    return "DUAL1 basis function of element %d takes the value %.4g at %s (barycentric element %d, local node %d), documented %.4g" % (K, got, where, b, k, want)
    return None


def _dual_cases(mesh, thorough):
    v, e = PL._mesh(mesh)
    ne = np.asarray(e).shape[1]
    subs = [None] + BC.subsets(ne, 40 if thorough else 10)
    return v, e, ne, subs


def replay_dual(mesh, degree, sub, ib, tr):
    import bempp_cl.api as api

    warnings.simplefilter("ignore")
    v, e = PL._mesh(mesh)
    grid = SG.make_grid(v, e)
    ne = grid.number_of_elements
    support = np.zeros(ne, dtype=bool)
    support[list(range(ne)) if sub is None else sub] = True
    kw = {} if sub is None else {"support_elements": np.array(sub, dtype="uint32")}
    if degree == 0:
        sp = api.function_space(grid, "DUAL", 0, include_boundary_dofs=ib, truncate_at_segment_edge=tr, **kw)
        msg = dual0_contract(grid, sp, support, ib, tr)
    else:
        sp = api.function_space(grid, "DUAL", 1, truncate_at_segment_edge=tr, **kw)
        msg = dual1_contract(grid, sp, support, tr)
    return {"violates": msg is not None, "message": msg}


def ob_dual(mesh, degree, thorough):
    import bempp_cl.api as api

    warnings.simplefilter("ignore")
    v, e, ne, subs = _dual_cases(mesh, thorough)
    n = 0
    for sub in subs:
        for ib, tr in itertools.product((False, True), (False, True)):
            if degree == 1 and ib:
                continue
            if degree == 0:
                # a selection without any vertex gives an empty space: its dof count is C09's business (known finding there), not a representation
                gridx = SG.make_grid(v, e)
                supp = np.zeros(ne, dtype=bool)
                supp[list(range(ne)) if sub is None else sub] = True
                if not p1_vertex_spec(gridx, supp, ib, tr)[0]:
                    continue
            try:
                r = replay_dual(mesh, degree, sub, ib, tr)
            except Exception as ex:  # noqa
                if degree == 0 and not ib:
                    # no interior vertex: the library cannot build an empty space
                    grid = SG.make_grid(v, e)
                    support = np.zeros(ne, dtype=bool)
                    support[list(range(ne)) if sub is None else sub] = True
                    if not p1_vertex_spec(grid, support, ib, tr)[0]:
                        continue
                return violated("DUAL%d on %s support=%s include_boundary_dofs=%s truncate_at_segment_edge=%s cannot be built: %s: %s" % (degree, mesh, sub, ib, tr, type(ex).__name__, ex),
                                witness={"mesh": mesh, "support": sub, "ib": ib, "tr": tr}, signature="dual%d/construction" % degree,
                                replay={"callable": "checks.c10:replay_dual", "kwargs": {"mesh": mesh, "degree": degree, "sub": sub, "ib": ib, "tr": tr}, "confirmed": True})
            n += 1
            if r["violates"]:
                return violated("DUAL%d on %s support=%s include_boundary_dofs=%s truncate_at_segment_edge=%s: %s" % (degree, mesh, sub, ib, tr, r["message"]),
                                witness={"mesh": mesh, "support": sub, "ib": ib, "tr": tr}, signature="dual%d/nodal-values" % degree,
                                replay={"callable": "checks.c10:replay_dual", "kwargs": {"mesh": mesh, "degree": degree, "sub": sub, "ib": ib, "tr": tr}, "confirmed": True})
    if n == 0:
        return {"status": "error", "detail": "no DUAL%d space built on %s" % (degree, mesh)}
    return held("%d spaces: dof transformation equals the documented nodal table exactly" % n)


# ---- mixed mass matrices -------------------------------------------------------------------------------------------------


def mixed_mass_spec(grid, primal, dual, order):
    from bempp_cl.api.integration.triangle_gauss import rule

    pts, wts = rule(order)
    bary = grid.barycentric_refinement
    sub = BC.sub_reference_coordinates(grid)
    db = dual if dual.is_barycentric else dual.barycentric_representation()
    Td = BC.dense(db.dof_transformation)
    M = np.zeros((dual.global_dof_count, primal.global_dof_count))
    for b in range(bary.number_of_elements):
        E = b // 6
        if not db.support[b] or not primal.support[E]:
            continue
        xi = np.array([[float(BC.map_local(sub[b], pts[0, q], pts[1, q])[i]) for q in range(len(wts))] for i in range(2)])
        pv = primal.evaluate(E, xi)                     # (dim, ns, nq), multipliers applied
        dv = db.evaluate(b, pts)
        J = bary.integration_elements[b]
        for f in range(dv.shape[1]):
            row = Td[int(db.local2global[b, f]), :]
            if not row.any():
                continue
            for g in range(pv.shape[1]):
                val = J * float(np.sum(wts * np.sum(dv[:, f, :] * pv[:, g, :], axis=0)))
                M[:, int(primal.local2global[E, g])] += row * val
    return M


MIXED = [("P1 x DUAL0", ("P", 1, {}), ("DUAL", 0, {})), ("DP0 x DUAL1", ("DP", 0, {}), ("DUAL", 1, {})), ("P1 x DUAL1", ("P", 1, {}), ("DUAL", 1, {})),
         ("DP0 x DUAL0", ("DP", 0, {}), ("DUAL", 0, {})), ("RWG x RBC", ("RWG", 0, {}), ("RBC", 0, {})), ("SNC x BC", ("SNC", 0, {}), ("BC", 0, {})),
         ("RWG x BC", ("RWG", 0, {}), ("BC", 0, {}))]


def replay_mixed(gridname, primal, dual, seg):
    import bempp_cl.api as api

    warnings.simplefilter("ignore")
    g = Z.grid_with_domains(gridname)
    kw = {} if seg is None else {"segments": list(seg)}
    pk = dict(primal[2], **kw)
    dk = dict(dual[2], **kw)
    if seg is not None and primal[0] in ("P", "RWG", "SNC"):
        pk["include_boundary_dofs"] = True
    if seg is not None and dual[0] in ("DUAL",) and dual[1] == 0:
        dk["include_boundary_dofs"] = True
    p = api.function_space(g, primal[0], primal[1], **pk)
    d = api.function_space(g, dual[0], dual[1], **dk)
    par = Z.params(4, 4)
    A = api.operators.boundary.sparse.identity(p, p, d, parameters=par).weak_form()
    A = A.to_dense() if hasattr(A, "to_dense") else np.asarray(A.A.todense() if hasattr(A.A, "todense") else A.A)
    M = mixed_mass_spec(g, p, d, 4)
    err = float(np.abs(A - M).max() / max(1e-300, np.abs(M).max()))
    return {"violates": err > 1e-11, "relative_error": err, "shape": list(A.shape)}


def ob_mixed(gridname, name, primal, dual, seg):
    r = replay_mixed(gridname, primal, dual, seg)
    if r["violates"]:
        return violated("identity(%s) on %s segments=%s: mixed mass matrix differs from the exact integral of the product of the two bases by %.3g (relative)"
                        % (name, gridname, seg, r["relative_error"]), witness={"grid": gridname, "pair": name, "segments": seg}, signature="mixed-mass/" + name,
                        replay={"callable": "checks.c10:replay_mixed", "kwargs": {"gridname": gridname, "primal": list(primal), "dual": list(dual), "seg": seg}, "confirmed": True})
    return held("relative difference %.2e, %s" % (r["relative_error"], r["shape"]))


def replay_position(gridname):
    """Native: "for all grids" - the coefficients of the dual / BC / RBC functions in the barycentric spaces (dof_transformation) and the mixed mass matrices
    depend on differences of vertex coordinates only: on the grid translated by (8.3e5, -6.1e5, 3.7e5) they equal those of the original up to the rounding of the
    translated coordinates (1e-7 relative is three orders above that rounding and four below the effect of a length computed with cancellation)."""
    import bempp_cl.api as api
    from vlib import symgrid as SG

    warnings.simplefilter("ignore")
    g0 = Z.grid_with_domains(gridname)
    g1 = SG.make_grid(g0.vertices + np.array([[8.3e5], [-6.1e5], [3.7e5]]), g0.elements, g0.domain_indices)
    par = Z.params(4, 4)
    failing, worst = {}, 0.0
    for name, primal, dual in MIXED:
        out = []
        for g in (g0, g1):
            p = api.function_space(g, primal[0], primal[1], **primal[2])
            d = api.function_space(g, dual[0], dual[1], **dual[2])
            db = d if d.is_barycentric else d.barycentric_representation()
            A = api.operators.boundary.sparse.identity(p, p, d, parameters=par).weak_form()
            A = A.to_dense() if hasattr(A, "to_dense") else np.asarray(A.A.todense() if hasattr(A.A, "todense") else A.A)
            out.append((BC.dense(db.dof_transformation), np.asarray(A)))
        for what, a, b in (("coefficients", out[0][0], out[1][0]), ("mixed mass matrix", out[0][1], out[1][1])):
            e = float(np.abs(a - b).max() / max(1e-300, np.abs(a).max())) if a.shape == b.shape else 1.0
            worst = max(worst, e)
            if e > 1e-7:
                failing["%s: %s" % (name, what)] = e
    return {"violates": bool(failing), "failing": failing, "worst": worst}


def ob_position(gridname):
    r = replay_position(gridname)
    if r["violates"]:
        return violated("dual / BC / RBC spaces on %s translated by (8.3e5, -6.1e5, 3.7e5) differ from those on the original grid: %s" % (gridname, r["failing"]),
                        witness={"grid": gridname, "failing": r["failing"]}, signature="position/" + gridname,
                        replay={"callable": "checks.c10:replay_position", "kwargs": {"gridname": gridname}, "confirmed": True, "result": r})
    return held("7 pairs: coefficients and mixed mass matrices agree to %.1e" % r["worst"])


def replay_bc_restriction(kind):
    """BC / RBC on a part of the grid (default options: truncated at the segment edge) are the whole-grid functions of the interior edges of the part, restricted to it -
    whether the part is selected by `support_elements` on an unlabelled grid or by `segments` on a labelled copy: the barycentric coefficients on the elements of the part
    agree, function by function (functions matched through their coarse edge)."""
    import bempp_cl.api as api

    warnings.simplefilter("ignore")
    v, e = SG.octa()
    g0 = SG.make_grid(v, e).refine()
    cap = [int(E) for E in range(g0.number_of_elements) if g0.centroids[E, 2] > 0.05]
    labels = np.array([1 if E in cap else 2 for E in range(g0.number_of_elements)], dtype="uint32")
    failing, worst = [], 0.0

    def table(grid, **kw):
        sp = api.function_space(grid, kind, 0, **kw)
        rw = api.function_space(grid, "RWG", 0, **kw)
        T = BC.dense(sp.dof_transformation)
        l2g, mult = np.asarray(sp.local2global), np.asarray(sp.local_multipliers)
        out = {}
        for d in range(T.shape[1]):
            E, i = rw.global2local[d][0]
            edge = tuple(sorted(int(x) for x in grid.edges[:, int(grid.element_edges[i, E])]))
            out[edge] = {(b, j): T[int(l2g[b, j]), d] * mult[b, j] for b in np.flatnonzero(sp.support) for j in range(3)}
        return out, sp

    full, _ = table(SG.make_grid(g0.vertices, g0.elements))
    for label, grid, kw in (("support_elements on an unlabelled grid", SG.make_grid(g0.vertices, g0.elements), {"support_elements": np.array(cap, dtype="uint32")}),
                            ("segments on a labelled grid", SG.make_grid(g0.vertices, g0.elements, labels), {"segments": [1]})):
        part, sp = table(grid, **kw)
        if not part:
            failing.append("%s: no functions" % label)
        for edge, coefs in part.items():
            if edge not in full:
                failing.append("%s: function on edge %s does not exist on the whole grid" % (label, edge))
                continue
            dev = max(abs(c - full[edge].get(key, 0.0)) for key, c in coefs.items())
            worst = max(worst, dev)
            if dev > 1e-12:
                failing.append("%s: function of edge %s deviates from the restricted whole-grid function by %.2e" % (label, edge, dev))
    return {"violates": bool(failing), "failing": failing[:6], "worst": worst}


def ob_bc_restriction(kind):
    """bounded: see replay_bc_restriction"""
    r = replay_bc_restriction(kind)
    if r["violates"]:
        return violated("%s on a part of the grid is not the restriction of the whole-grid functions: %s" % (kind, r["failing"][:2]), witness={"kind": kind, "failing": r["failing"]},
                        signature="bc-restriction/%s" % kind, replay={"callable": "checks.c10:replay_bc_restriction", "kwargs": {"kind": kind}, "confirmed": True, "result": r})
    return held("support_elements and segments selections agree with the restricted whole-grid functions (%.1e)" % r["worst"])


def replay_bc_divergence(mesh, kind, seed):
    """Flux pattern of the BC / RBC basis functions read off the dof transformation: for the function of the coarse edge (v1, v2) the integral of the surface
    divergence over a barycentric element adjacent to an INTERIOR end point v is +-1 / (2 n_v) (n_v coarse triangles at v; one sign per end point, opposite signs at
    the two end points), and 0 over every other barycentric element - in particular over the rings of end points on the grid boundary (the border coefficients are
    piecewise constant around such a vertex, the interior ones a linear ramp)."""
    import bempp_cl.api as api

    warnings.simplefilter("ignore")
    v, e = PL._mesh(mesh)
    v = np.asarray(v, dtype=float) + 0.05 * np.random.RandomState(seed).randn(*np.asarray(v).shape)
    g = SG.make_grid(v, e)
    sp = api.function_space(g, kind, 0)
    rw = api.function_space(g, "RWG", 0)
    bary = sp.grid
    T = BC.dense(sp.dof_transformation)
    nv = g.number_of_vertices
    _bnd = boundary_vertices(g)
    lengths = np.linalg.norm(bary.vertices[:, bary.edges[0]] - bary.vertices[:, bary.edges[1]], axis=0)
    adj = {}
    for E in range(g.number_of_elements):
        for k in range(3):
            adj.setdefault(int(g.elements[k, E]), []).append(E)
    bad = []
    for d in range(T.shape[1]):
        E, i = rw.global2local[d][0]
        edge = int(g.element_edges[i, E])
        ends = [int(x) for x in g.edges[:, edge]]
        signs = {}
        for b in np.flatnonzero(sp.support):
            b = int(b)
            D = sum(T[int(sp.local2global[b, j]), d] * lengths[int(bary.element_edges[j, b])] for j in range(3))
            w = [int(x) for x in bary.elements[:, b] if int(x) < nv][0]
            if w in ends and w not in _bnd:
                want = 1.0 / (2 * len(adj[w]))
                if abs(abs(D) - want) > 1e-11:
                    bad.append({"dof": d, "barycentric_element": b, "vertex": w, "integral_of_divergence": float(D), "required_magnitude": want})
                signs.setdefault(w, set()).add(float(np.sign(D)))
            elif abs(D) > 1e-11:
                bad.append({"dof": d, "barycentric_element": b, "vertex": w, "integral_of_divergence": float(D), "required_magnitude": 0.0})
        if any(len(x) > 1 for x in signs.values()) or (len(signs) == 2 and len({tuple(x) for x in signs.values()}) == 1):
            bad.append({"dof": d, "signs_at_end_points": {str(k): sorted(x) for k, x in signs.items()}})
    return {"violates": bool(bad), "bad": bad[:6], "count": len(bad), "dofs": int(T.shape[1])}


def ob_bc_divergence(mesh, kind, seed):
    r = replay_bc_divergence(mesh, kind, seed)
    if r["violates"]:
        return violated("%s on %s: the divergence (flux) pattern of %d basis-function / barycentric-element pairs is not that of a Buffa-Christiansen function: %s"
                        % (kind, mesh, r["count"], r["bad"][:2]), witness=r["bad"][0], signature="bc-divergence/%s" % kind,
                        replay={"callable": "checks.c10:replay_bc_divergence", "kwargs": {"mesh": mesh, "kind": kind, "seed": seed}, "confirmed": True})
    return held("%d basis functions: +-1/(2n) on the rings of interior end points, 0 elsewhere" % r["dofs"])


def main():
    run = Run("C10", "other")
    thorough = run.tier == "thorough"
    run.explanation = __doc__
    from bempp_cl.api.space import scalar_spaces as SC, maxwell_spaces as MX, scalar_dual_spaces as SD
    from bempp_cl.api.grid import grid as G

    for f in (SC.p0_barycentric_discontinuous_function_space, SC.p1_barycentric_continuous_function_space, SC.generate_p1_map, MX.rwg0_barycentric_function_space,
              MX.snc0_barycentric_function_space, MX.generate_rwg0_map, MX._numba_rwg0_evaluate, MX._numba_snc0_evaluate, G._create_barycentric_connectivity_array,
              SD.dual0_function_space, SD.dual1_function_space):
        run.under_contract(f, dropped="numba decorators; float dtypes (exact rationals / symbols); scipy coo_matrix replaced by its dense-summation contract")
    # support extension of P1 (and hence of DUAL0, which is built on it) beyond a segment: per-step block contract of _compute_p1_dof_map (V-engine, all sizes);
    # its link to real executions is the bounded obligation `_p1_selection_block::native` of C09
    from vlib import vrun as VR

    VR.add_block(run, "contracts.dofmap_blocks", "_p1_selection_block")
    meshes = ["tetra", "fan3", "pair:2:012:120", "pair:2:120:201"] + (["screen2"] if thorough else [])
    for mesh in meshes:
        run.add("lemma.nesting[%s]" % mesh, "lemma", ob_nesting, mesh)
    specs = [("DP", 0, {}), ("P", 1, {"include_boundary_dofs": True}), ("RWG", 0, {"include_boundary_dofs": True}), ("SNC", 0, {"include_boundary_dofs": True})]
    for mesh in meshes:
        for spec in specs:
            run.add("barycentric-representation[%s %s%d%s]" % (mesh, spec[0], spec[1], sorted(spec[2])), "post", ob_representation, mesh, spec)
    for mesh, spec in (("tetra", ("P", 1, {})), ("tetra", ("RWG", 0, {})), ("tetra", ("SNC", 0, {})), ("tetra", ("P", 1, {"segments": [2], "include_boundary_dofs": True})),
                       ("tetra", ("DP", 0, {"segments": [2]})), ("tetra", ("RWG", 0, {"segments": [2], "include_boundary_dofs": True})),
                       ("tetra", ("SNC", 0, {"segments": [1], "include_boundary_dofs": True, "truncate_at_segment_edge": False})),
                       ("tetra", ("SNC", 0, {"segments": [2], "include_boundary_dofs": True})), ("tetra", ("P", 1, {"segments": [2]})),
                       ("fan3", ("P", 1, {"segments": [1], "include_boundary_dofs": True, "truncate_at_segment_edge": False}))):
        run.add("barycentric-representation[%s %s%d%s]" % (mesh, spec[0], spec[1], sorted(spec[2].items())), "post", ob_representation, mesh, spec)
    for mesh in ["tetra", "fan3", "octa", "screen2"] + (["cube12", "screen3"] if thorough else []):
        for degree in (0, 1):
            run.add("dual-nodal-values[%s DUAL%d]" % (mesh, degree), "bounded", ob_dual, mesh, degree, thorough)
    for gridname in ["octa", "tetra"] + (["cube12"] if thorough else []):
        for name, primal, dual in MIXED:
            run.add("mixed-mass[%s %s]" % (gridname, name), "bounded", ob_mixed, gridname, name, primal, dual, None)
    for mesh in ["tetra", "octa", "screen2", "screen3"] + (["cube12", "torus33"] if thorough else []):
        for kind in ("BC", "RBC"):
            run.add("bc-divergence-pattern[%s %s]" % (mesh, kind), "bounded", ob_bc_divergence, mesh, kind, 1)
    for kind in ("BC", "RBC"):
        run.add("bc-restriction[refined octa, cap, %s]" % kind, "bounded", ob_bc_restriction, kind)
    run.add("position[octa translated by (8.3e5, -6.1e5, 3.7e5): coefficients + mixed mass matrices]", "bounded", ob_position, "octa")
    run.add("mixed-mass[octa P1 x DUAL0 segments]", "bounded", ob_mixed, "octa", "P1 x DUAL0", ("P", 1, {}), ("DUAL", 0, {}), (2,))
    run.add("mixed-mass[octa DP0 x DUAL1 segments]", "bounded", ob_mixed, "octa", "DP0 x DUAL1", ("DP", 0, {}), ("DUAL", 1, {}), (2,))
    run.add("mixed-mass[octa SNC x BC segments]", "bounded", ob_mixed, "octa", "SNC x BC", ("SNC", 0, {}), ("BC", 0, {}), (2,))
    run.add("mixed-mass[octa RWG x RBC segments]", "bounded", ob_mixed, "octa", "RWG x RBC", ("RWG", 0, {}), ("RBC", 0, {}), (2,))
    run.bound("representation: topologies %s, symbolic geometry / coefficients / point" % meshes)
    run.bound("dual nodal tables: zoo grids x (all supports when <= 10 (thorough 40), else a fixed random sample) x option combinations")
    run.bound("mixed mass matrices: octahedron, tetrahedron (thorough: cube), regular order 4 (exact for the piecewise polynomial integrands by C12)")
    run.assume("BC / RBC functions: conformity is C09; here their flux pattern (charges +-1 spread over the dual cells of the interior end points, none elsewhere) and their "
               "pairing with primal spaces are checked; the choice of the divergence-free completion around end points on the grid boundary is orientation dependent "
               "(mirror images of an open grid give different, equally admissible functions) and is not constrained")
    run.assume("vertex valence n of the DUAL1 nodal value 1/n counts all coarse triangles of the grid at the vertex (also outside a segment)")
    run.assume("scipy coo_matrix sums duplicates; sparse products are matrix products")
    return run.finish()


if __name__ == "__main__":
    sys.exit(main())
