"""C11 grid topology and geometry data are complete and consistent (DESIGN 3, C11)."""

import itertools
import sys
import warnings

import numpy as np

from vlib import sym as S
from vlib import symgrid as SG
from vlib import vrun as VR
from vlib.objnp import patched
from vlib.framework import Run, proved, violated, undecided, held

GRID = "bempp_cl.api.grid.grid"
CM = "contracts.grid_topology"

WITNESSES = {
    "_sort_values": [{"val1": 3, "val2": 1}, {"val1": 1, "val2": 3}, {"val1": 2, "val2": 2}],
    "_vertices_from_edge_index": [{"element": [5, 2, 9], "local_index": k} for k in range(3)],
    "_compare_array_to_value": [{"array": [4, 7, 7], "val": 7}, {"array": [4, 7, 7], "val": 1}, {"array": [1], "val": 1}],
    "_find_first_common_array_index_pair_from_position": [{"array1": [1, 2, 3], "array2": [3, 2, 9], "start": 0}, {"array1": [1, 2, 3], "array2": [3, 2, 9], "start": 2},
                                                          {"array1": [1, 2, 3], "array2": [7, 8, 9], "start": 0}],
    "_find_two_common_array_index_pairs": [{"array1": [1, 2, 3], "array2": [3, 2, 9]}, {"array1": [1, 2, 3], "array2": [3, 8, 9]}],
    "_get_shared_vertex_information_for_two_elements": [{"elements": [[0, 2], [1, 3], [2, 4]], "elem0": 0, "elem1": 1}, {"elements": [[0, 5], [1, 3], [2, 4]], "elem0": 0, "elem1": 1}],
    "_get_shared_edge_information_for_two_elements": [{"elements": [[0, 2], [1, 1], [2, 4]], "elem0": 0, "elem1": 1}, {"elements": [[0, 1], [1, 0], [2, 4]], "elem0": 0, "elem1": 1},
                                                      {"elements": [[0, 5], [1, 6], [2, 2]], "elem0": 0, "elem1": 1}],
    "_find_vertex_adjacency": [{"elements": [[0, 2, 4], [1, 3, 5], [2, 4, 0]], "test_indices": [0, 1, 2], "trial_indices": [1, 2, 0]}],
    "_find_edge_adjacency": [{"elements": [[0, 2, 1], [1, 1, 0], [2, 3, 3]], "elem0_indices": [0, 1, 0], "elem1_indices": [1, 2, 2]}],
    "_numba_enumerate_edges": [{"elements": [[0, 2, 1], [1, 1, 0], [2, 3, 3]], "edge_tuple_to_index": {}}, {"elements": [[0], [1], [2]], "edge_tuple_to_index": {}}],
}


def _z():
    return {"status": "error", "detail": "zero obligations generated"}


# ---- geometry: real code on symbolic triangles ---------------------------------------------------------------------------


def replay_geometry_scales():
    """Native: geometric quantities of the octahedron scaled by 1e-6 .. 1e3 (and of a graded mesh with one tiny element): normals are unit vectors, volumes scale
    with s^2, integration elements = 2 volumes, diameters scale with s and equal the circumscribed-circle diameter |a||b||a-b| / |a x b|, in the grid attributes and
    in data('double')."""
    warnings.simplefilter("ignore")
    v0, e0 = SG.octa()
    problems = []
    ref = SG.make_grid(v0, e0)
    for sc in (1e-6, 1e-4, 1e-2, 1.0, 1e3):
        g = SG.make_grid(np.asarray(v0, dtype=float) * sc, e0)
        d = g.data("double")
        for name, nrm in (("grid.normals", g.normals), ("data.normals", d.normals)):
            dev = float(np.abs(np.linalg.norm(nrm, axis=1) - 1).max())
            if dev > 1e-12:
                problems.append("scale %g: %s are not unit vectors (|n| - 1 up to %.3g)" % (sc, name, dev))
        if np.abs(g.volumes / sc**2 - ref.volumes).max() > 1e-12 * ref.volumes.max():
            problems.append("scale %g: volumes do not scale with s^2" % sc)
        if np.abs(g.integration_elements - 2 * g.volumes).max() > 1e-12 * g.volumes.max():
            problems.append("scale %g: integration elements != 2 volumes" % sc)
        if np.abs(g.diameters / sc - ref.diameters).max() > 1e-11 * ref.diameters.max():
            problems.append("scale %g: diameters do not scale with s" % sc)
    # graded mesh: one corner element with legs 2e-4 in a unit-size mesh
    v = np.array([[0.0, 0, 0], [2e-4, 0, 0], [0, 2e-4, 0], [1.0, 0, 0], [0, 1.0, 0]]).T
    e = np.array([[0, 1, 2], [1, 3, 4], [1, 4, 2]]).T
    g = SG.make_grid(v, e)
    dev = float(np.abs(np.linalg.norm(g.normals, axis=1) - 1).max())
    if dev > 1e-12:
        problems.append("graded mesh: normal of the tiny element has length %.3g" % (1 - dev))
    a, b = v[:, 1] - v[:, 0], v[:, 2] - v[:, 0]
    want = np.linalg.norm(a) * np.linalg.norm(b) * np.linalg.norm(a - b) / np.linalg.norm(np.cross(a, b))
    if abs(g.diameters[0] - want) > 1e-11 * want:
        problems.append("graded mesh: diameter of the tiny element %.6g, definition %.6g" % (g.diameters[0], want))
    return {"violates": bool(problems), "problems": problems[:6]}


def ob_geometry_scales():
    r = replay_geometry_scales()
    if r["violates"]:
        return violated("geometric quantities at extreme scales: %s" % "; ".join(r["problems"][:3]), witness={"problems": r["problems"]}, signature="geometry/scales",
                        replay={"callable": "checks.c11:replay_geometry_scales", "kwargs": {}, "confirmed": True})
    return held("octahedron at scales 1e-6 .. 1e3 and a graded mesh with a 2e-4 element")


def ob_geometry():
    try:
        return _ob_geometry()
    except S.Undecided as ex:
        rp = replay_geometry_scales()
        if rp["violates"]:
            return violated("_compute_geometric_quantities leaves real arithmetic / branches on its data (%s) and fails natively: %s" % (ex, "; ".join(rp["problems"][:3])),
                            witness={"problems": rp["problems"]}, signature="geometry/branch",
                            replay={"callable": "checks.c11:replay_geometry_scales", "kwargs": {}, "confirmed": True})
        return undecided("_compute_geometric_quantities cannot be executed symbolically (%s); the native contract at extreme scales holds" % ex)


def _ob_geometry():
    """post: Grid._compute_geometric_quantities on generic vertices: normals unit and right-handed w.r.t. the vertex order, volume = |J1 x J2|/2,
    integration element = 2 volume, centroid = mean of the vertices, diameter = |J1||J2||J1-J2|/|J1 x J2|, Jacobian columns = edge vectors,
    J^-T^T J = I and J^-T = J (J^T J)^-1."""
    S.reset()
    el = np.array([[0, 2], [1, 1], [2, 3]])
    g = SG.symbolic_geometry(el, 4)
    V = g._vertices
    res = []

    def zero(x):
        return S.is_zero(S.Sym._coerce(x))

    for e in range(2):
        v = [[V[i, int(el[k, e])] for i in range(3)] for k in range(3)]
        a = [v[1][i] - v[0][i] for i in range(3)]
        b = [v[2][i] - v[0][i] for i in range(3)]
        cr = [a[1] * b[2] - a[2] * b[1], a[2] * b[0] - a[0] * b[2], a[0] * b[1] - a[1] * b[0]]
        r = np.sqrt(cr[0] * cr[0] + cr[1] * cr[1] + cr[2] * cr[2])
        n = g._normals[e]
        checks = {
            "normal unit": zero(n[0] * n[0] + n[1] * n[1] + n[2] * n[2] - 1),
            "normal right-handed (n . (a x b) == |a x b| > 0)": zero(n[0] * cr[0] + n[1] * cr[1] + n[2] * cr[2] - r) and S.sign_of(S.Sym._coerce(r)) == 1,
            "volume": zero(g._volumes[e] - r / 2),
            "integration element == 2 volume": zero(g._integration_elements[e] - 2 * g._volumes[e]),
            "centroid": all(zero(g._centroids[e][i] - (v[0][i] + v[1][i] + v[2][i]) / 3) for i in range(3)),
            "jacobian": all(zero(g._jacobians[e][i, 0] - a[i]) and zero(g._jacobians[e][i, 1] - b[i]) for i in range(3)),
        }
        la = np.sqrt(sum(x * x for x in a))
        lb = np.sqrt(sum(x * x for x in b))
        lc = np.sqrt(sum((x - y) * (x - y) for x, y in zip(a, b)))
        checks["diameter"] = zero(g._diameters[e] - la * lb * lc / r)
        Ji = g._jacobian_inverse_transposed[e]
        J = g._jacobians[e]
        checks["J^-T^T J == I"] = all(zero(sum(Ji[i, p] * J[i, q] for i in range(3)) - (1 if p == q else 0)) for p in range(2) for q in range(2))
        checks["J^-T tangential (n . column == 0)"] = all(zero(sum(n[i] * Ji[i, p] for i in range(3))) for p in range(2))
        for k, ok in checks.items():
            res.append(("element %d: %s" % (e, k), proved("sym-normal-form") if ok else violated("geometric quantity `%s` does not meet its definition" % k, signature="geometry/" + k,
                                                                                                 replay={"callable": "checks.c11:replay_sweep", "kwargs": {"base": "octa"}, "confirmed": False})))
    return res


class _RefineSelf:
    def __init__(self, grid, V):
        self._g = grid
        self.vertices = V
        for name in ("number_of_edges", "number_of_vertices", "number_of_elements", "edges", "elements", "element_edges", "domain_indices"):
            setattr(self, name, getattr(grid, name))


def ob_refinement(kind):
    """post (real connectivity code on a 2-element grid, symbolic coordinates): every child triangle has the parent's normal direction and the
    child cross products sum to the parent's (area preserved, orientation preserved); 4 resp. 6 children per element numbered 4e.. / 6e..;
    new vertices are edge midpoints (and centroids); domain indices repeated."""
    from bempp_cl.api.grid import grid as G

    S.reset()
    v, e = SG.two_triangles()
    grid = SG.make_grid(v, e, np.array([3, 8], dtype="uint32"))
    V = S.symarray("v", (3, grid.number_of_vertices))
    captured = {}

    class Rec:
        def __init__(self, vertices, elements, domain_indices=None, **kw):
            captured["v"], captured["e"], captured["d"] = vertices, np.asarray(elements).astype(int), np.asarray(domain_indices)

    saved = G.Grid
    try:
        with patched(G):
            if kind == "refine":
                G.Grid = Rec
                saved.refine(_RefineSelf(grid, V))
                nchild = 4
            else:
                nv, ne_ = G._create_barycentric_connectivity_array.py_func(V, grid.elements, grid.element_edges, grid.edges, grid.number_of_edges) \
                    if hasattr(G._create_barycentric_connectivity_array, "py_func") else G._create_barycentric_connectivity_array(V, grid.elements, grid.element_edges, grid.edges, grid.number_of_edges)
                captured["v"], captured["e"], captured["d"] = nv, np.array([[int(S.Sym._coerce(x).const_value()) for x in row] for row in ne_]), np.repeat(grid.domain_indices, 6)
                nchild = 6
    finally:
        G.Grid = saved
    NV, NE = captured["v"], captured["e"]
    if NE.shape != (3, nchild * grid.number_of_elements):
        return violated("%s produces %s elements" % (kind, NE.shape), signature="refinement/%s/count" % kind, replay={"confirmed": False})

    def cross(tri, Vv):
        p = [[Vv[i, int(t)] for i in range(3)] for t in tri]
        a = [p[1][i] - p[0][i] for i in range(3)]
        b = [p[2][i] - p[0][i] for i in range(3)]
        return [a[1] * b[2] - a[2] * b[1], a[2] * b[0] - a[0] * b[2], a[0] * b[1] - a[1] * b[0]]

    for E in range(grid.number_of_elements):
        pc = cross(grid.elements[:, E], V)
        tot = [S.Sym(), S.Sym(), S.Sym()]
        for c in range(nchild):
            cc = cross(NE[:, nchild * E + c], NV)
            frac = S.Sym.const(1) / nchild
            for i in range(3):
                if not S.is_zero(S.Sym._coerce(cc[i]) - S.Sym._coerce(pc[i]) * frac):
                    return violated("%s: child %d of element %d is not a positively oriented triangle of area parent/%d in the parent's plane" % (kind, c, E, nchild),
                                    signature="refinement/%s/orientation" % kind, replay={"callable": "checks.c11:replay_sweep", "kwargs": {"base": "octa"}, "confirmed": False})
                tot[i] = tot[i] + cc[i]
        if not all(S.is_zero(tot[i] - S.Sym._coerce(pc[i])) for i in range(3)):
            return violated("%s: child areas of element %d do not sum to the parent area" % (kind, E), signature="refinement/%s/area" % kind, replay={"confirmed": False})
    if not np.array_equal(captured["d"], np.repeat(grid.domain_indices, nchild)):
        return violated("%s: domain indices are not repeated per child" % kind, signature="refinement/%s/domain" % kind, replay={"confirmed": False})
    return proved("sym-exec+normal-form", "%d children per element, each with cross product parent/%d; domain indices repeated" % (nchild, nchild))


# ---- bounded: exhaustive sweep over sub-complexes --------------------------------------------------------------------------

BASES = {"tetra": SG.tetra, "octa": SG.octa, "screen2": lambda: SG.screen(2), "fan3": SG.fan3, "two_tets": None, "cube12": SG.cube12}


def _two_tets():
    v = np.array([[0.0, 0, 0], [1, 0, 0], [0, 1, 0], [0, 0, 1], [-1, 0, 0.2], [0, -1, 0.1], [0.1, 0, -1]]).T
    e = np.array([[0, 2, 1], [0, 1, 3], [1, 2, 3], [2, 0, 3], [0, 4, 5], [0, 5, 6], [5, 4, 6], [4, 0, 6]]).T
    return v, e


BASES["two_tets"] = _two_tets


def check_grid(grid, tag=""):
    """All topology / geometry properties of the statement on one grid; returns an error string or None."""
    el = grid.elements.astype(int)
    N, nv = el.shape[1], grid.number_of_vertices
    V = grid.vertices
    # edges: each undirected edge exactly once, sorted
    want = sorted({tuple(sorted((el[a, e], el[b, e]))) for e in range(N) for a, b in ((0, 1), (2, 0), (1, 2))})
    got = [tuple(int(x) for x in grid.edges[:, k]) for k in range(grid.number_of_edges)]
    if sorted(got) != want or len(set(got)) != len(got) or any(a > b for a, b in got):
        return "edges are not the set of undirected edges, each once, sorted"
    for e in range(N):
        for l, (a, b) in enumerate(((0, 1), (2, 0), (1, 2))):
            if got[int(grid.element_edges[l, e])] != tuple(sorted((el[a, e], el[b, e]))):
                return "element_edges[%d, %d] does not point at its edge" % (l, e)
    # neighbour tables
    for k, ed in enumerate(got):
        exp = sorted(e for e in range(N) if ed[0] in el[:, e] and ed[1] in el[:, e])
        if sorted(int(x) for x in grid.edge_neighbors[k]) != exp:
            return "edge_neighbors[%d] = %s, elements containing the edge: %s" % (k, list(grid.edge_neighbors[k]), exp)
        if bool(grid.edge_on_boundary[k]) != (len(exp) == 1):
            return "edge_on_boundary[%d] = %s but the edge has %d neighbours" % (k, grid.edge_on_boundary[k], len(exp))
    bverts = {v for k, ed in enumerate(got) if sum(1 for e in range(N) if ed[0] in el[:, e] and ed[1] in el[:, e]) == 1 for v in ed}
    for v in range(nv):
        if bool(grid.vertex_on_boundary[v]) != (v in bverts):
            return "vertex_on_boundary[%d] wrong" % v
        exp = sorted(e for e in range(N) if v in el[:, e])
        vn = grid.vertex_neighbors
        if sorted(int(x) for x in vn.indices[vn.indexptr[v]: vn.indexptr[v + 1]]) != exp:
            return "vertex_neighbors[%d] wrong" % v
    for e in range(N):
        exp = sorted(f for f in range(N) if set(el[:, e]) & set(el[:, f]))
        en = grid.element_neighbors
        got_n = sorted(int(x) for x in en.indices[en.indexptr[e]: en.indexptr[e + 1]])
        if got_n != exp:
            return "element_neighbors[%d] = %s, elements sharing a vertex: %s" % (e, got_n, exp)
    # adjacency tables: exactly the ordered pairs sharing two / one vertices, with correct local indices
    ea, va = grid.edge_adjacency.astype(int), grid.vertex_adjacency.astype(int)
    pairs2 = sorted((e, f) for e in range(N) for f in range(N) if e != f and len(set(el[:, e]) & set(el[:, f])) == 2)
    pairs1 = sorted((e, f) for e in range(N) for f in range(N) if e != f and len(set(el[:, e]) & set(el[:, f])) == 1)
    if sorted((int(ea[0, c]), int(ea[1, c])) for c in range(ea.shape[1])) != pairs2:
        return "edge_adjacency does not list exactly the ordered pairs sharing two vertices"
    if sorted((int(va[0, c]), int(va[1, c])) for c in range(va.shape[1])) != pairs1:
        return "vertex_adjacency does not list exactly the ordered pairs sharing one vertex"
    for c in range(ea.shape[1]):
        e, f = ea[0, c], ea[1, c]
        if not (el[ea[2, c], e] == el[ea[4, c], f] and el[ea[3, c], e] == el[ea[5, c], f] and ea[2, c] != ea[3, c] and ea[4, c] < ea[5, c]):
            return "edge_adjacency column %d has wrong local indices" % c
    for c in range(va.shape[1]):
        if el[va[2, c], va[0, c]] != el[va[3, c], va[1, c]]:
            return "vertex_adjacency column %d has wrong local indices" % c
    # geometry
    for e in range(N):
        p = V[:, el[:, e]]
        a, b = p[:, 1] - p[:, 0], p[:, 2] - p[:, 0]
        cr = np.cross(a, b)
        r = np.linalg.norm(cr)
        tests = [np.allclose(grid.normals[e], cr / r, rtol=1e-13, atol=1e-15), abs(grid.volumes[e] - r / 2) <= 1e-14 * r, abs(grid.integration_elements[e] - r) <= 1e-14 * r,
                 np.allclose(grid.centroids[e], p.mean(axis=1), rtol=1e-14, atol=1e-15),
                 abs(grid.diameters[e] - np.linalg.norm(a) * np.linalg.norm(b) * np.linalg.norm(a - b) / r) <= 1e-13 * grid.diameters[e],
                 np.allclose(grid.jacobians[e], np.column_stack([a, b]), rtol=1e-15, atol=0),
                 np.allclose(grid.jacobian_inverse_transposed[e].T @ grid.jacobians[e], np.eye(2), atol=1e-12)]
        if not all(tests):
            return "geometry of element %d: %s" % (e, tests)
    return None


def _derived_ok(grid):
    """refine, barycentric refinement, segment extraction, union preserve area, orientation, domain indices and nesting."""
    from bempp_cl.api.grid.grid import union, grid_from_segments, barycentric_refinement

    area = grid.volumes.sum()
    for name, fine, nchild in (("refine", grid.refine(), 4), ("barycentric", barycentric_refinement(grid), 6)):
        if abs(fine.volumes.sum() - area) > 1e-13 * area:
            return "%s changes the surface area" % name
        if fine.number_of_elements != nchild * grid.number_of_elements or not np.array_equal(fine.domain_indices, np.repeat(grid.domain_indices, nchild)):
            return "%s: element count / domain indices" % name
        for e in range(grid.number_of_elements):
            for c in range(nchild):
                ch = nchild * e + c
                if np.dot(fine.normals[ch], grid.normals[e]) < 1 - 1e-12:
                    return "%s: child %d of element %d is not oriented like its parent" % (name, c, e)
                # nesting: child centroid lies in the parent triangle
                lam = np.linalg.lstsq(np.vstack([grid.vertices[:, grid.elements[:, e]], np.ones(3)]), np.append(fine.centroids[ch], 1.0), rcond=None)[0]
                if lam.min() < -1e-12 or abs(lam.sum() - 1) > 1e-12:
                    return "%s: child %d is not nested in element %d" % (name, c, e)
        err = check_grid(fine)
        if err:
            return "%s grid: %s" % (name, err)
    doms = sorted(set(int(d) for d in grid.domain_indices))
    if len(doms) > 1:
        seg = grid_from_segments(grid, [doms[0]])
        sel = grid.domain_indices == doms[0]
        if seg.number_of_elements != sel.sum() or abs(seg.volumes.sum() - grid.volumes[sel].sum()) > 1e-13 * area or not np.all(seg.domain_indices == doms[0]):
            return "grid_from_segments does not extract the segment"
        if not np.allclose(np.sort(seg.normals, axis=0), np.sort(grid.normals[sel], axis=0)):
            return "grid_from_segments changes orientations"
        err = check_grid(seg)
        if err:
            return "segment grid: %s" % err
    u = union([grid, grid], swapped_normals=[False, True])
    if u.number_of_elements != 2 * grid.number_of_elements or abs(u.volumes.sum() - 2 * area) > 1e-13 * area:
        return "union: element count / area"
    n = grid.number_of_elements
    if not np.allclose(u.normals[:n], grid.normals) or not np.allclose(u.normals[n:], -grid.normals):
        return "union: orientation / swapped normals"
    if len(set(u.domain_indices[:n]) & set(u.domain_indices[n:])) != 0:
        return "union: domain indices of the two grids overlap"
    return None


def sweep(base, with_derived):
    warnings.simplefilter("ignore")
    v, e = BASES[base]()
    N = e.shape[1]
    n = 0
    for mask in range(1, 2 ** N):
        idx = [k for k in range(N) if mask >> k & 1]
        sub = e[:, idx]
        used = sorted(set(sub.ravel()))
        remap = {g: i for i, g in enumerate(used)}
        el = np.vectorize(remap.get)(sub)
        di = np.array([1 + (k % 3) for k in idx], dtype="uint32")
        try:
            grid = SG.make_grid(v[:, used], el, di)
        except Exception as ex:  # noqa: "for all triangle soups accepted by Grid": a well-formed soup that makes the constructor raise is a failure of the property
            return n, {"base": base, "elements": idx}, "Grid(...) raises %s: %s on a well-formed triangle soup" % (type(ex).__name__, str(ex)[:120])
        err = check_grid(grid)
        if err is None and with_derived and (len(idx) <= 3 or mask % 17 == 0):
            err = _derived_ok(grid)
        if err:
            return n, {"base": base, "elements": idx}, err
        n += 1
    return n, None, None


def ob_sweep(base, with_derived):
    """bounded (exhaustive over all sub-complexes of the base mesh): edges once, element-edge / edge- / vertex- / element-neighbour tables consistent,
    adjacency tables = exactly the ordered pairs sharing 2 / 1 vertices with correct local indices, boundary flags, geometry definitions; for a
    subset also refine / barycentric refinement / segment extraction / union (area, orientation, domain indices, nesting)."""
    n, wit, err = sweep(base, with_derived)
    if err:
        return violated("sub-complex %s of %s: %s" % (wit["elements"], base, err), witness=wit, signature="sweep/%s" % base,
                        replay={"callable": "checks.c11:replay_sweep", "kwargs": {"base": base}, "confirmed": True})
    return held("%d sub-complexes of %s" % (n, base))


def replay_sweep(base):
    n, wit, err = sweep(base, True)
    return {"violates": err is not None, "witness": wit, "error": err, "subcomplexes_checked": n}


def ob_relabel_dtypes():
    """bounded: vertex relabellings, local rotations and input dtypes (uint64 / int32 / int64 / float32 vertices) do not change the derived data
    (up to the relabelling); all 24 vertex relabellings of the tetrahedron."""
    warnings.simplefilter("ignore")
    v, e = SG.tetra()
    n = 0
    for perm in itertools.permutations(range(4)):
        p = np.array(perm)
        nv = np.empty_like(v)
        nv[:, p] = v
        for rot in range(3):
            el = np.roll(p[e], rot, axis=0)
            for dt in ("uint32", "uint64", "int32", "int64"):
                g = SG.make_grid(nv, el.astype(dt))
                err = check_grid(g)
                if err:
                    return violated("relabelled tetrahedron (perm %s, rotation %d, dtype %s): %s" % (perm, rot, dt, err), witness={"perm": list(perm), "rot": rot, "dtype": dt},
                                    signature="relabel", replay={"confirmed": True})
                n += 1
    return held("%d relabelled / retyped tetrahedra" % n)


# ---- union: domain index contract ------------------------------------------------------------------------------------------

UNION_POOL = {"a": [0], "b": [3], "c": [1, 5], "d": [2, 2, 7], "e": [4, 0, 9]}


def _pool_grid(key):
    """a strip of len(indices) triangles with the given domain indices"""
    di = UNION_POOL[key]
    n = len(di)
    v = np.array([[float(i // 2 + (i % 2) * 0.3) for i in range(n + 2)], [float(i % 2) for i in range(n + 2)], [0.1 * i * i for i in range(n + 2)]])
    e = np.array([[i, i + 1, i + 2] if i % 2 == 0 else [i + 1, i, i + 2] for i in range(n)]).T
    return SG.make_grid(v, e, np.array(di, dtype="uint32"))


def union_spec(parts, mode, explicit):
    """the documented result: list of per-part new domain index arrays"""
    out = []
    if mode == "explicit":
        return [np.full(len(p), explicit[j]) for j, p in enumerate(parts)]
    offset = 0
    for j, p in enumerate(parts):
        p = np.asarray(p, dtype=int)
        if mode == "normalize":
            uniq = sorted(set(p.tolist()))
            out.append(np.array([offset + uniq.index(x) for x in p]))
            offset += len(uniq)
        else:
            shift = 0 if j == 0 else (out[-1].max() + 1 - p.min())
            out.append(p + shift)
    return out


def union_contract(keys, mode):
    from bempp_cl.api.grid.grid import union

    grids = [_pool_grid(k) for k in keys]
    explicit = [7 * j + 2 for j in range(len(keys))]
    if mode == "explicit":
        u = union(grids, domain_indices=explicit)
    else:
        u = union(grids, normalize_domain_indices=(mode == "normalize"))
    spec = union_spec([UNION_POOL[k] for k in keys], mode, explicit)
    got, pos = [], 0
    for k in keys:
        n = len(UNION_POOL[k])
        got.append(np.asarray(u.domain_indices[pos:pos + n]).astype(int))
        pos += n
    if u.number_of_elements != pos:
        return "union has %d elements, expected %d" % (u.number_of_elements, pos)
    for j in range(len(keys)):
        if not np.array_equal(got[j], spec[j]):
            return "domain indices of part %d are %s, contract gives %s (all parts: %s)" % (j, got[j].tolist(), spec[j].tolist(), [g.tolist() for g in got])
    # the statement itself, independent of the spec function: parts keep their internal partition and order, different parts never share an index
    for j in range(len(keys)):
        orig = np.asarray(UNION_POOL[keys[j]])
        if mode != "explicit":
            for a in range(len(orig)):
                for b in range(len(orig)):
                    if (orig[a] < orig[b]) != (got[j][a] < got[j][b]):
                        return "part %d: relabelling is not order preserving / injective" % j
        for i in range(j):
            if mode != "explicit" and set(got[i].tolist()) & set(got[j].tolist()):
                return "parts %d and %d share domain indices %s" % (i, j, sorted(set(got[i].tolist()) & set(got[j].tolist())))
    if mode == "normalize" and sorted(set(np.concatenate(got).tolist())) != list(range(len(set(np.concatenate(got).tolist())))):
        return "normalised indices are not 0..N-1"
    return None


def replay_union(keys, mode):
    msg = union_contract(list(keys), mode)
    return {"violates": msg is not None, "message": msg}


def ob_union(k, mode):
    """bounded (all k-tuples of the 5 pool grids, with repetition): union relabels the domain indices of each part by an order preserving injection,
    different parts get disjoint index sets (0..N-1 without gaps when normalised; shifted blocks otherwise; the given constants when explicit)."""
    n = 0
    warnings.simplefilter("ignore")
    for keys in itertools.product(sorted(UNION_POOL), repeat=k):
        msg = union_contract(list(keys), mode)
        n += 1
        if msg:
            return violated("union(%s, mode=%s): %s" % ([UNION_POOL[x] for x in keys], mode, msg), witness={"parts": [UNION_POOL[x] for x in keys], "mode": mode},
                            replay={"callable": "checks.c11:replay_union", "kwargs": {"keys": list(keys), "mode": mode}, "confirmed": True}, signature="union/domain-indices/%s" % mode)
    return held("%d tuples" % n)


def ob_boundary_vertices_native(gridname):
    """bounded link: the slice under contract, run by CPython on the real grid's edge table and edge flags, reproduces grid.vertex_on_boundary; its `requires` hold; the
    edge flags (scipy product, not under the deductive contract) mark exactly the sides that belong to one element, and the vertex flags equal the end points of those
    sides computed from the element list alone."""
    import importlib
    from vlib import vnative as VN, zoo as Z

    grid = Z.grid_with_domains(gridname)
    block, contract, params = VR.native_block("contracts.dofmap_blocks", "_boundary_vertices")
    edges = np.asarray(grid.edges).astype(int)
    arr1 = np.asarray(grid.edge_on_boundary).astype(int)
    env = VN.bind_shapes(contract, {"edges": edges, "arr1": arr1, "number_of_vertices": int(grid.number_of_vertices)})
    for t in contract["requires"]:
        if not VN.evaluate(t, env):
            return violated("the real grid does not satisfy the `requires` of the boundary-vertex slice: %s" % t[:100], signature="boundary-vertices/requires", replay={"confirmed": True})
    res = np.asarray(block(edges, np.asarray(grid.edge_on_boundary), int(grid.number_of_vertices))).astype(int)
    env["result"] = res
    for t in contract["ensures"]:
        if not VN.evaluate(t, env):
            return violated("boundary-vertex slice violates its contract natively on %s: %s" % (gridname, t[:100]), signature="boundary-vertices/ensures", replay={"confirmed": True})
    count = {}
    for E in range(grid.number_of_elements):
        v = [int(x) for x in grid.elements[:, E]]
        for a, b in ((v[0], v[1]), (v[1], v[2]), (v[2], v[0])):
            count[(min(a, b), max(a, b))] = count.get((min(a, b), max(a, b)), 0) + 1
    want_edges = {k for k, c in count.items() if c == 1}
    got_edges = {(int(min(edges[:, x])), int(max(edges[:, x]))) for x in range(edges.shape[1]) if arr1[x]}
    want_v = {a for k in want_edges for a in k}
    if got_edges != want_edges or set(np.flatnonzero(grid.vertex_on_boundary).tolist()) != want_v or set(np.flatnonzero(res).tolist()) != want_v:
        return violated("boundary flags of %s differ from the sides that belong to exactly one element: edges %s, vertices %s (expected vertices %s)"
                        % (gridname, sorted(got_edges ^ want_edges)[:4], sorted(set(np.flatnonzero(grid.vertex_on_boundary).tolist()) ^ want_v)[:6], sorted(want_v)[:8]),
                        witness={"grid": gridname}, signature="boundary-vertices/native", replay={"confirmed": True})
    return held("%d boundary edges, %d boundary vertices" % (len(want_edges), len(want_v)))


def main():
    run = Run("C11", "proof")
    thorough = run.tier == "thorough"
    run.explanation = ("Deductive: (V) the index / topology helpers of grid.py are verified against sidecar contracts (contracts/grid_topology.py) by a "
                       "verification-condition generator over their real AST with loop invariants, discharged by z3 (cvc5 with enumerative instantiation for the "
                       "forall-exists obligations) for arbitrary sizes: sorting, sentinel search, first/two common index pairs (with exact raise conditions), shared "
                       "vertex / edge information, vertex and edge adjacency tables, and the edge enumeration (each undirected edge once, element_edges consistent, "
                       "every edge used). (P) geometric quantities from the real code on symbolic triangles meet their definitions; refine / barycentric "
                       "connectivity preserves orientation and area. The scipy-sparse based steps are covered by the bounded exhaustive sub-complex sweep.")
    for name in WITNESSES:
        VR.add_function(run, GRID, name, CM, WITNESSES[name])
        if thorough:
            run.add("%s::mutation-canary" % name, "lemma", VR.ob_canary, GRID, name, CM)
    from bempp_cl.api.grid import grid as G

    # vertex part of the boundary flags (program slice of Grid._compute_boundary_information): a vertex is flagged iff it is an end point of a flagged edge (all sizes)
    VR.add_block(run, "contracts.dofmap_blocks", "_boundary_vertices")
    run.add("_boundary_vertices::canary", "cover", VR.ob_block_canary, "contracts.dofmap_blocks", "_boundary_vertices",
            [("edges[:, boundary_edge_index]", "edges[0, boundary_edge_index]"), ("_np.flatnonzero(arr1)", "_np.flatnonzero(arr1 == 0)"),
             ("_np.full(number_of_vertices, False)", "_np.full(number_of_vertices, True)")])
    for gname in ("screen2", "octa", "two_tets_face") + (("screen3",) if thorough else ()):
        run.add("_boundary_vertices::native[%s]" % gname, "bounded", ob_boundary_vertices_native, gname)
    run.under_contract(G.Grid._compute_geometric_quantities, dropped="numpy linalg shims (vlib/objnp.py)")
    run.under_contract(G.Grid.refine)
    run.under_contract(G._create_barycentric_connectivity_array)
    run.add("Grid._compute_geometric_quantities::post", "post", ob_geometry)
    run.add("geometry.extreme-scales", "bounded", ob_geometry_scales)
    run.add("Grid.refine::post", "post", ob_refinement, "refine")
    run.add("_create_barycentric_connectivity_array::post", "post", ob_refinement, "barycentric")
    for base in ("tetra", "fan3", "octa", "screen2", "two_tets") + (("cube12",) if thorough else ()):
        run.add("sweep[%s]" % base, "bounded", ob_sweep, base, True)
    run.add("relabel+dtypes[tetra]", "bounded", ob_relabel_dtypes)
    for k in (1, 2, 3) + ((4,) if thorough else ()):
        for mode in ("normalize", "shift", "explicit"):
            run.add("union.domain-indices[k=%d,%s]" % (k, mode), "bounded", ob_union, k, mode)
    run.assumed_contract("scipy.sparse csr_matrix / A.T.dot(A) / tocoo / diagonal (get_element_to_element_matrix, _compute_boundary_information, IndexList)",
                         "e2e[i, j] = number of shared vertices; each non-zero once -- covered only by the exhaustive sweep")
    run.bound("sweep: all non-empty sub-complexes of tetrahedron (15), fan (7), octahedron (255), 2x2 screen (255), two tetrahedra sharing a vertex (255) [thorough: + cube (4095)]; "
              "derived grids (refine, barycentric, segments, union) for sub-complexes with <= 3 elements and every 17th")
    run.bound("union: all k-tuples (k <= 3, thorough 4) of 5 strip grids with domain index patterns [0], [3], [1,5], [2,2,7], [4,0,9] x {normalised, shifted, explicit}")
    run.assume("V-engine encoding: mathematical integers (int32/uint32 wrap-around not modelled), arrays as values, termination not proved")
    run.assume("grid_valid: the three vertices of an element are pairwise distinct (precondition of the edge-adjacency contracts)")
    return run.finish()


if __name__ == "__main__":
    sys.exit(main())
