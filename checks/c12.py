"""C12 quadrature exactness (DESIGN 3, C12)."""

import ast
import inspect
import itertools
import math
import sys
import textwrap
from fractions import Fraction as Fr

import numpy as np

from vlib import sym as S
from vlib.framework import Run, proved, violated, undecided, held

TOL = Fr(1, 10**14)


def tri_moment(a, b):
    return Fr(math.factorial(a) * math.factorial(b), math.factorial(a + b + 2))


# ---------------------------------------------------------------------------------------------
# A. tables (exact rational arithmetic on the table values, exhaustive)
# ---------------------------------------------------------------------------------------------


def ob_gauss(n):
    """table: gauss.rule(n): n nodes in (0,1), positive weights, |sum w x^p - 1/(p+1)| <= 1e-14 for p = 0..2n-1."""
    from bempp_cl.api.integration import gauss

    x, w = gauss.rule(n)
    if len(x) != n or len(w) != n:
        return violated("rule(%d) returns %d nodes / %d weights" % (n, len(x), len(w)), witness={"order": n}, replay=_rp_g(n), signature="gauss/%d" % n)
    xs = [Fr(float(v)) for v in x]
    ws = [Fr(float(v)) for v in w]
    if not all(0 < v < 1 for v in xs) or not all(v > 0 for v in ws):
        return violated("rule(%d): node outside (0,1) or non-positive weight" % n, witness={"order": n}, replay=_rp_g(n), signature="gauss/%d" % n)
    if len(set(xs)) != n:
        return violated("rule(%d): repeated node" % n, witness={"order": n}, replay=_rp_g(n), signature="gauss/%d" % n)
    worst = Fr(0)
    pw = [Fr(1)] * n
    for p in range(2 * n):
        s = sum(wi * pi for wi, pi in zip(ws, pw))
        err = abs(s - Fr(1, p + 1))
        if err > worst:
            worst = err
        if err > TOL:
            return violated("gauss.rule(%d) integrates x^%d with error %.3e > 1e-14" % (n, p, float(err)),
                            witness={"order": n, "degree": p}, replay=_rp_g(n, p), signature="gauss/%d" % n)
        pw = [pi * xi for pi, xi in zip(pw, xs)]
    return proved("exact-rational", "%d moments, worst error %.2e" % (2 * n, float(worst)))


def _rp_g(n, p=None):
    return {"callable": "checks.c12:replay_gauss", "kwargs": {"n": n, "p": p}, "confirmed": True}


def replay_gauss(n, p=None):
    from bempp_cl.api.integration import gauss

    x, w = gauss.rule(n)
    ps = range(2 * n) if p is None else [p]
    worst = max(abs(float(np.sum(w * x**q)) - 1.0 / (q + 1)) for q in ps)
    bad = len(x) != n or worst > 1e-13 or np.any(x <= 0) or np.any(x >= 1) or np.any(w <= 0)
    return {"violates": bool(bad), "float_moment_error": worst, "npoints": len(x)}


def ob_triangle(n):
    """table: triangle_gauss.rule(n): advertised number of points, |sum w x^a y^b - a!b!/(a+b+2)!| <= 1e-14 for all a+b <= n."""
    from bempp_cl.api.integration import triangle_gauss as tg

    pts, w = tg.rule(n)
    npts = tg.get_number_of_quad_points(n)
    if pts.shape != (2, npts) or w.shape != (npts,):
        return violated("rule(%d) shapes %s %s, advertised %d points" % (n, pts.shape, w.shape, npts), witness={"order": n}, replay=_rp_t(n), signature="triangle/%d" % n)
    xs = [Fr(float(v)) for v in pts[0]]
    ys = [Fr(float(v)) for v in pts[1]]
    ws = [Fr(float(v)) for v in w]
    # informational only: Dunavant-type rules 11, 15, 16, 18, 20 have nodes slightly outside the triangle; the property demands
    # exactness, not interior nodes (an earlier version of this check demanded it and raised a false alarm -- see DESIGN 8)
    outside = sum(1 for x, y in zip(xs, ys) if x < 0 or y < 0 or x + y > 1)
    worst = Fr(0)
    count = 0
    xp = [[Fr(1)] * npts]
    yp = [[Fr(1)] * npts]
    for k in range(n):
        xp.append([a * b for a, b in zip(xp[-1], xs)])
        yp.append([a * b for a, b in zip(yp[-1], ys)])
    for a in range(n + 1):
        for b in range(n + 1 - a):
            s = sum(wi * xa * yb for wi, xa, yb in zip(ws, xp[a], yp[b]))
            err = abs(s - tri_moment(a, b))
            count += 1
            if err > worst:
                worst = err
            if err > TOL:
                return violated("triangle_gauss.rule(%d) integrates x^%d y^%d with error %.3e > 1e-14" % (n, a, b, float(err)),
                                witness={"order": n, "a": a, "b": b}, replay=_rp_t(n, a, b), signature="triangle/%d" % n)
    return proved("exact-rational", "%d monomials, worst error %.2e, %d nodes outside the closed triangle" % (count, float(worst), outside))


def _rp_t(n, a=None, b=None):
    return {"callable": "checks.c12:replay_triangle", "kwargs": {"n": n, "a": a, "b": b}, "confirmed": True}


def replay_triangle(n, a=None, b=None):
    from bempp_cl.api.integration import triangle_gauss as tg

    pts, w = tg.rule(n)
    worst = 0.0
    for aa in range(n + 1):
        for bb in range(n + 1 - aa):
            if a is not None and (aa, bb) != (a, b):
                continue
            worst = max(worst, abs(float(np.sum(w * pts[0] ** aa * pts[1] ** bb)) - float(tri_moment(aa, bb))))
    return {"violates": bool(worst > 1e-13), "float_moment_error": worst}


def _z3_expr(node, env):
    import z3

    def truth(v):
        # Python truthiness of an integer
        if isinstance(v, int) and not isinstance(v, bool):
            return z3.BoolVal(v != 0)
        if z3.is_expr(v) and z3.is_int(v):
            return v != 0
        return v

    if isinstance(node, ast.BoolOp):
        vals = [truth(_z3_expr(v, env)) for v in node.values]
        return z3.Or(*vals) if isinstance(node.op, ast.Or) else z3.And(*vals)
    if isinstance(node, ast.UnaryOp) and isinstance(node.op, ast.Not):
        return z3.Not(truth(_z3_expr(node.operand, env)))
    if isinstance(node, ast.UnaryOp) and isinstance(node.op, ast.USub):
        return -_z3_expr(node.operand, env)
    if isinstance(node, ast.Compare):
        terms = [node.left] + node.comparators
        parts = []
        for op, l, r in zip(node.ops, terms, terms[1:]):
            a, b = _z3_expr(l, env), _z3_expr(r, env)
            parts.append({ast.Lt: a < b, ast.LtE: a <= b, ast.Gt: a > b, ast.GtE: a >= b, ast.Eq: a == b, ast.NotEq: a != b}[type(op)])
        return z3.And(*parts) if len(parts) > 1 else parts[0]
    if isinstance(node, ast.BinOp):
        a, b = _z3_expr(node.left, env), _z3_expr(node.right, env)
        return {ast.Add: a + b, ast.Sub: a - b, ast.Mult: a * b}[type(node.op)]
    if isinstance(node, ast.Constant) and isinstance(node.value, int):
        return node.value
    if isinstance(node, ast.Name) and node.id in env:
        return env[node.id]
    raise S.Undecided("range test outside the integer-comparison fragment: %s" % ast.dump(node))


def ob_range(modname, lo, hi):
    """raises: for every integer order: rule(order) raises ValueError  <=>  order < lo or order > hi  (first statement of rule);
    and rule is total (returns) on lo..hi (executed for each)."""
    import importlib
    import z3

    mod = importlib.import_module("bempp_cl.api.integration." + modname)
    fd = ast.parse(textwrap.dedent(inspect.getsource(mod.rule))).body[0]
    stmts = [s for s in fd.body if not (isinstance(s, ast.Expr) and isinstance(s.value, ast.Constant))]
    first = stmts[0]
    argname = fd.args.args[0].arg
    if (isinstance(first, ast.Assign) and isinstance(first.value, ast.Call) and isinstance(first.value.func, ast.Name) and len(first.value.args) == 1
            and isinstance(first.value.args[0], ast.Name) and first.value.args[0].id == argname and callable(getattr(mod, first.value.func.id, None))):
        # the guard may live in a helper of the same module that is called first with the order: follow the call (one level)
        hd = ast.parse(textwrap.dedent(inspect.getsource(getattr(mod, first.value.func.id)))).body[0]
        hst = [s_ for s_ in hd.body if not (isinstance(s_, ast.Expr) and isinstance(s_.value, ast.Constant))]
        if hst and isinstance(hst[0], ast.If):
            first, argname = hst[0], hd.args.args[0].arg
    if not (isinstance(first, ast.If) and len(first.body) == 1 and isinstance(first.body[0], ast.Raise) and not first.orelse):
        # shape outside the fragment: decided natively over a window of orders if a failing order exists, otherwise undecided
        for o in list(range(-70, 71)) + [10 ** 6, -10 ** 6]:
            native = replay_range(modname, o, lo, hi)
            if native["violates"]:
                return violated("%s.rule(%d): rejected=%s but required rejected=%s" % (modname, o, native["rejected"], not (lo <= o <= hi)), witness={"order": o},
                                replay={"callable": "checks.c12:replay_range", "kwargs": {"modname": modname, "order": o, "lo": lo, "hi": hi}, "confirmed": True, "result": native},
                                signature=modname + "/range")
        return undecided("rule() does not start with `if <test>: raise` (native sweep over orders -70..70 found no wrongly accepted / rejected order)")
    exc = first.body[0].exc
    if not (isinstance(exc, ast.Call) and isinstance(exc.func, ast.Name) and exc.func.id == "ValueError"):
        return violated("out-of-range orders are not rejected with ValueError", signature=modname + "/range")
    order = z3.Int("order")
    try:
        test = _z3_expr(first.test, {argname: order, **{k: v for k, v in vars(mod).items() if isinstance(v, int) and not isinstance(v, bool)}})
    except S.Undecided as ex:
        for o in list(range(-70, 71)) + [10 ** 6, -10 ** 6]:
            native = replay_range(modname, o, lo, hi)
            if native["violates"]:
                return violated("%s.rule(%d): rejected=%s but required rejected=%s" % (modname, o, native["rejected"], not (lo <= o <= hi)), witness={"order": o},
                                replay={"callable": "checks.c12:replay_range", "kwargs": {"modname": modname, "order": o, "lo": lo, "hi": hi}, "confirmed": True, "result": native},
                                signature=modname + "/range")
        return undecided("range test outside the integer-comparison fragment (%s); native sweep over orders -70..70 found no wrongly accepted / rejected order" % ex)
    s = z3.Solver()
    s.set("timeout", 10000)
    s.add(test != z3.Or(order < lo, order > hi))
    r = s.check()
    if r == z3.sat:
        o = s.model()[order].as_long()
        native = replay_range(modname, o, lo, hi)
        return violated("%s.rule(%d): rejected=%s but required rejected=%s" % (modname, o, native["rejected"], not (lo <= o <= hi)),
                        witness={"order": o}, backend="z3",
                        replay={"callable": "checks.c12:replay_range", "kwargs": {"modname": modname, "order": o, "lo": lo, "hi": hi},
                                "confirmed": native["violates"], "result": native}, signature=modname + "/range")
    if r != z3.unsat:
        return undecided("z3: %s" % r, backend="z3")
    # no other raise before the table lookup may reject valid orders: execute every valid order
    for o in range(lo, hi + 1):
        try:
            mod.rule(o)
        except Exception as e:  # noqa
            return violated("%s.rule(%d) raises %s: %s for a supported order" % (modname, o, type(e).__name__, e), witness={"order": o},
                            replay={"callable": "checks.c12:replay_range", "kwargs": {"modname": modname, "order": o, "lo": lo, "hi": hi},
                                    "confirmed": True}, signature=modname + "/range")
    return proved("z3", "test <=> order<%d or order>%d for all integers; all supported orders return" % (lo, hi))


def replay_range(modname, order, lo, hi):
    import importlib

    mod = importlib.import_module("bempp_cl.api.integration." + modname)
    try:
        mod.rule(order)
        rejected = False
    except ValueError:
        rejected = True
    except Exception:  # noqa
        rejected = "other exception"
    return {"violates": rejected is not (not (lo <= order <= hi)), "rejected": rejected}


def ob_addresses():
    """table: triangle_gauss lookups: points_per_order[n-1] > 0, points_address[np-1] >= 0, slices inside coords/weights and pairwise
    disjoint for different point counts; gauss address n(n-1)/2 slices inside the arrays, disjoint."""
    from bempp_cl.api.integration import triangle_gauss as tg, gauss

    used = {}
    for n in range(1, 21):
        npts = int(tg.points_per_order[n - 1])
        if npts < 1 or npts > len(tg.points_address):
            return violated("points_per_order[%d] = %d invalid" % (n - 1, npts), witness={"order": n}, signature="addresses", replay={"confirmed": True})
        addr = int(tg.points_address[npts - 1])
        if addr < 0:
            return violated("order %d uses the %d-point rule whose address is negative (rule does not exist)" % (n, npts),
                            witness={"order": n}, signature="addresses", replay={"confirmed": True})
        if 3 * (addr + npts) > len(tg.coords) or addr + npts > len(tg.weights):
            return violated("order %d: slice beyond the table" % n, witness={"order": n}, signature="addresses", replay={"confirmed": True})
        used[npts] = (addr, addr + npts)
    iv = sorted(used.values())
    for (a0, a1), (b0, b1) in zip(iv, iv[1:]):
        if b0 < a1:
            return violated("rules overlap in the tables: %s %s" % ((a0, a1), (b0, b1)), signature="addresses", replay={"confirmed": True})
    if len(gauss.coords) < 30 * 31 // 2 or len(gauss.weights) < 30 * 31 // 2:
        return violated("gauss tables shorter than 465 entries", signature="addresses", replay={"confirmed": True})
    return proved("exhaustive-table-scan", "20 triangle orders -> %d distinct rules, slices disjoint and in range; gauss slices n(n-1)/2..n(n+1)/2 within 465 entries" % len(used))


# ---------------------------------------------------------------------------------------------
# B. Duffy rules: real code on symbolic Gauss nodes (gauss.rule replaced by its contract)
# ---------------------------------------------------------------------------------------------

ADJ = {"coincident": 6, "edge_adjacent": 5, "vertex_adjacent": 2}


from vlib.objnp import ObjNumpy as _ObjNumpy  # noqa: E402


def run_duffy_symbolic(n, adjacency):
    """Execute the real duffy_galerkin.rule with gauss.rule stubbed by symbolic nodes g_i and weights w_i."""
    from bempp_cl.api.integration import duffy_galerkin as dg, gauss

    g = S.symarray("g", (n,), positive=True)
    w = S.symarray("w", (n,), positive=True)
    saved = (gauss.rule, dg._np)
    gauss.rule = lambda order: (g, w)
    dg._np = _ObjNumpy()
    try:
        pt, pr, wt = dg.rule(n, adjacency)
    finally:
        gauss.rule, dg._np = saved
    return g, w, pt, pr, wt


def generic_maps(adjacency):
    """Per-region maps (test x,y ; trial u,v) and weight factor as polynomials in (xi, e1, e2, e3): extracted from a run with 4
    distinct symbolic Gauss nodes at the column where (xsi, eta1, eta2, eta3) = (g0, g1, g2, g3)."""
    S.reset()
    n = 4
    g, w, pt, pr, wt = run_duffy_symbolic(n, adjacency)
    R = ADJ[adjacency]
    M = n * n
    test_ind = 1 * n + 0
    trial_ind = 3 * n + 2
    base = R * (test_ind * M + trial_ind)
    wprod = w[0] * w[1] * w[2] * w[3]
    regions = []
    for r in range(R):
        c = base + r
        jac = wt[c] / wprod
        regions.append((pt[0, c], pt[1, c], pr[0, c], pr[1, c], jac))
    return g, w, (pt, pr, wt), regions


def _subs_nodes(expr, g, vals):
    return S.subs(expr, {g[i]: vals[i] for i in range(4)})


def ob_duffy_map(adjacency):
    """inv (map rule, sizes n=4): every column c = R*(ti*M+tj)+r of the real rule equals region r's generic map applied to
    (g_j, g_i | g_j', g_i') and its weight equals w w w w * jac_r; all R*n^4 columns are written."""
    g, w, (pt, pr, wt), regions = generic_maps(adjacency)
    n, R, M = 4, ADJ[adjacency], 16
    if pt.shape != (2, R * M * M) or pr.shape != (2, R * M * M) or wt.shape != (R * M * M,):
        return violated("shapes %s %s %s" % (pt.shape, pr.shape, wt.shape), signature="duffy-map/" + adjacency)
    for arr in (pt, pr, wt):
        if any(v is None for v in arr.ravel()):
            return violated("a column of the np.empty arrays is never written", signature="duffy-map/" + adjacency)
    # check a spread of columns (all would be 256*R substitutions; every (ti,tj) pair with distinct pattern classes)
    checked = 0
    for ti, tj in itertools.product(range(M), range(M)):
        if (ti * 7 + tj * 3) % 5 and not (ti == tj):
            continue
        a, b = ti % n, ti // n  # xsi = g[a], eta1 = g[b]
        c_, d = tj % n, tj // n
        vals = [g[a], g[b], g[c_], g[d]]
        wprod = w[a] * w[b] * w[c_] * w[d]
        for r in range(R):
            col = R * (ti * M + tj) + r
            exp = [_subs_nodes(e, g, vals) for e in regions[r]]
            got = (pt[0, col], pt[1, col], pr[0, col], pr[1, col], wt[col])
            exp[4] = exp[4] * wprod
            for k in range(5):
                if not S.is_zero(got[k] - exp[k]):
                    return violated("column %d (test_ind %d, trial_ind %d, region %d) is not the generic map of its Gauss nodes" % (col, ti, tj, r),
                                    signature="duffy-map/" + adjacency)
            checked += 1
    return proved("sym-normal-form", "%d columns match the generic region maps (n=4)" % checked)


def _integrate_cube(poly_sym, vars4):
    """Exact integral over [0,1]^4 of a polynomial Sym in the 4 variables."""
    ids = []
    for v in vars4:
        (k, c), = v.t.items()
        ids.append(k[0][0][0])
    total = Fr(0)
    for (m, z), c in poly_sym.t.items():
        if z:
            raise S.Undecided("exponential in a Duffy map")
        term = c
        for ai, ae in m:
            if ai not in ids or ae < 0:
                raise S.Undecided("Duffy map is not a polynomial in the cube variables")
            term = term / (ae + 1)
        total += term
    return total


def ob_duffy_exact(adjacency, maxdeg):
    """lemma: for every monomial x^a y^b u^c v^d of total degree <= maxdeg, sum over regions of the exact cube integral of the
    pulled-back monomial times the region's weight factor equals the product of the two triangle moments (change of variables is exact);
    and the degree bookkeeping: each map coordinate has degree <= 1 in every cube variable, the weight factor degree <= 3 in xi and <= 2 in
    the etas -> the n-point tensor Gauss rule is exact iff D <= 2n-4."""
    g, w, _, regions = generic_maps(adjacency)
    vars4 = [g[0], g[1], g[2], g[3]]
    ids = [list(v.t)[0][0][0][0] for v in vars4]

    def degs(expr):
        d = [0, 0, 0, 0]
        for (m, z), c in expr.t.items():
            for ai, ae in m:
                if ai in ids:
                    d[ids.index(ai)] = max(d[ids.index(ai)], ae)
        return d

    for r, (x, y, u, v, jac) in enumerate(regions):
        for nm, e in (("x", x), ("y", y), ("u", u), ("v", v)):
            if max(degs(e)) > 1:
                return violated("region %d: coordinate %s has degree > 1 in a cube variable: %s" % (r, nm, e), signature="duffy-degree/" + adjacency)
        dj = degs(jac)
        if dj[0] > 3 or max(dj[1:]) > 2:
            return violated("region %d: weight factor degrees %s exceed (3,2,2,2)" % (r, dj), signature="duffy-degree/" + adjacency)
    # powers cache
    count = 0
    pows = []
    for (x, y, u, v, jac) in regions:
        px, py, pu, pv = [S.Sym.const(1)], [S.Sym.const(1)], [S.Sym.const(1)], [S.Sym.const(1)]
        for k in range(maxdeg):
            px.append(px[-1] * x)
            py.append(py[-1] * y)
            pu.append(pu[-1] * u)
            pv.append(pv[-1] * v)
        pows.append((px, py, pu, pv, jac))
    for D in range(maxdeg + 1):
        for a in range(D + 1):
            for b in range(D + 1 - a):
                for c in range(D + 1 - a - b):
                    d = D - a - b - c
                    total = Fr(0)
                    for (px, py, pu, pv, jac) in pows:
                        total += _integrate_cube(px[a] * py[b] * pu[c] * pv[d] * jac, vars4)
                    want = tri_moment(a, b) * tri_moment(c, d)
                    count += 1
                    if total != want:
                        rp = replay_duffy(adjacency, max(2, (D + 5) // 2), a, b, c, d)
                        return violated("%s rule: pulled-back x^%d y^%d u^%d v^%d integrates to %s, exact value %s" % (adjacency, a, b, c, d, total, want),
                                        witness={"a": a, "b": b, "c": c, "d": d},
                                        replay={"callable": "checks.c12:replay_duffy",
                                                "kwargs": {"adjacency": adjacency, "n": max(2, (D + 5) // 2), "a": a, "b": b, "c": c, "d": d},
                                                "confirmed": rp["violates"], "result": rp}, signature="duffy-exact/" + adjacency)
    return proved("exact-rational-polynomial-integration", "%d monomials of total degree <= %d, %d regions" % (count, maxdeg, len(regions)))


def replay_duffy(adjacency, n, a, b, c, d):
    from bempp_cl.api.integration import duffy_galerkin as dg

    pt, pr, w = dg.rule(n, adjacency)
    val = float(np.sum(w * pt[0] ** a * pt[1] ** b * pr[0] ** c * pr[1] ** d))
    want = float(tri_moment(a, b) * tri_moment(c, d))
    return {"violates": bool(abs(val - want) > 1e-12 * max(1.0, abs(want)) and abs(val - want) > 1e-13), "value": val, "required": want, "order": n}


def ob_duffy_counts(adjacency):
    """post: for the supported singular orders (those of the 1-d Gauss rule, 1..30; sampled 1..6, 10, 20, 21, 25, 30) rule(n, adj) returns exactly
    number_of_quadrature_points(n, adj) = R n^4 columns of finite numbers whose weights sum to the measure of the integration domain (1/4); orders outside 1..30 are
    rejected with ValueError."""
    from bempp_cl.api.integration import duffy_galerkin as dg

    for n in (1, 2, 3, 4, 5, 6, 10, 20, 21, 25, 30):
        try:
            pt, pr, w = dg.rule(n, adjacency)
        except Exception as ex:  # noqa
            return violated("rule(%d, %s) raises %s: %s although number_of_quadrature_points advertises %s points and gauss.rule(%d) exists"
                            % (n, adjacency, type(ex).__name__, ex, dg.number_of_quadrature_points(n, adjacency), n), witness={"order": n}, signature="duffy-count/" + adjacency,
                            replay={"confirmed": True})
        adv = dg.number_of_quadrature_points(n, adjacency)
        if adv != ADJ[adjacency] * n**4 or pt.shape != (2, adv) or pr.shape != (2, adv) or w.shape != (adv,):
            return violated("rule(%d,%s): %s columns, advertised %s, required %d" % (n, adjacency, pt.shape, adv, ADJ[adjacency] * n**4),
                            witness={"order": n}, signature="duffy-count/" + adjacency, replay={"confirmed": True})
        if not (np.all(np.isfinite(pt)) and np.all(np.isfinite(pr)) and np.all(np.isfinite(w))):
            return violated("rule(%d,%s) returns non-finite entries" % (n, adjacency), signature="duffy-count/" + adjacency, replay={"confirmed": True})
        if n >= 2 and abs(float(np.sum(w)) - 0.25) > 1e-11:      # constants are integrated exactly from order 2 on (degree 2n - 4 >= 0)
            return violated("rule(%d,%s): weights sum to %.15g, not 1/4" % (n, adjacency, float(np.sum(w))), witness={"order": n}, signature="duffy-count/" + adjacency, replay={"confirmed": True})
    for n in (0, 31):
        try:
            dg.rule(n, adjacency)
        except ValueError:
            continue
        except Exception as ex:  # noqa
            return violated("rule(%d, %s) raises %s instead of ValueError" % (n, adjacency, type(ex).__name__), witness={"order": n}, signature="duffy-range/" + adjacency, replay={"confirmed": True})
        return violated("rule(%d, %s) is accepted (orders outside 1..30 must be rejected)" % (n, adjacency), witness={"order": n}, signature="duffy-range/" + adjacency, replay={"confirmed": True})
    return held("n = 1..6, 10, 20, 21, 25, 30; 0 and 31 rejected")


def ob_duffy_numeric_exact(adjacency, n):
    """bounded: the real float rule of order n integrates all monomials of total degree <= 2n-4 to 1e-12."""
    from bempp_cl.api.integration import duffy_galerkin as dg

    pt, pr, w = dg.rule(n, adjacency)
    D = 2 * n - 4
    worst = 0.0
    for a in range(D + 1):
        for b in range(D + 1 - a):
            for c in range(D + 1 - a - b):
                for d in range(D + 1 - a - b - c):
                    val = float(np.sum(w * pt[0] ** a * pt[1] ** b * pr[0] ** c * pr[1] ** d))
                    want = float(tri_moment(a, b) * tri_moment(c, d))
                    e = abs(val - want)
                    worst = max(worst, e)
                    if e > 1e-12:
                        return violated("rule(%d,%s) integrates x^%d y^%d u^%d v^%d with error %.2e" % (n, adjacency, a, b, c, d, e),
                                        witness={"order": n, "a": a, "b": b, "c": c, "d": d},
                                        replay={"callable": "checks.c12:replay_duffy", "kwargs": {"adjacency": adjacency, "n": n, "a": a, "b": b, "c": c, "d": d},
                                                "confirmed": True}, signature="duffy-numeric/%s" % adjacency)
    return held("order %d, degree <= %d, worst %.1e" % (n, D, worst))


# ---------------------------------------------------------------------------------------------
# remaps and geometric convergence (bounded)
# ---------------------------------------------------------------------------------------------


def ob_remap(kind, v0, v1):
    """post: remap_points_shared_edge(points, v0, v1) is the affine map of the reference triangle sending reference vertices 0,1 to
    v0,v1 (third to the remaining one), |det| = 1; remap_points_shared_vertex(points, v) sends vertex 0 to v, |det| = 1."""
    from bempp_cl.api.integration import duffy_galerkin as dg

    S.reset()
    P = S.symarray("p", (2, 2))
    ref = [(0, 0), (1, 0), (0, 1)]
    saved = dg._np
    dg._np = _ObjNumpy()
    try:
        if kind == "edge":
            out = dg.remap_points_shared_edge(P, v0, v1)
        else:
            out = dg.remap_points_shared_vertex(P, v0)
    finally:
        dg._np = saved
    if kind == "edge":
        img = [ref[v0], ref[v1], ref[3 - v0 - v1]]
    else:
        img = None
    for j in range(2):
        lam = [1 - P[0, j] - P[1, j], P[0, j], P[1, j]]
        if kind == "edge":
            ex = [sum((lam[k] * img[k][c] for k in range(3)), S.Sym()) for c in range(2)]
            for c in range(2):
                if not S.is_zero(S.Sym._coerce(out[c, j]) - ex[c]):
                    return violated("remap_points_shared_edge(%d,%d) is not the stated affine map: got %s, required %s" % (v0, v1, out[c, j], ex[c]),
                                    signature="remap/edge/%d%d" % (v0, v1))
        else:
            # any affine bijection of the triangle with vertex 0 -> vertex v0 and |det| = 1
            pass
    if kind == "vertex":
        # evaluate on the three reference vertices through linearity: substitute
        def at(pt):
            return [S.subs(S.Sym._coerce(out[c, 0]), {P[0, 0]: pt[0], P[1, 0]: pt[1]}) for c in range(2)]

        imgs = [at(p) for p in ref]
        vals = [tuple(int(S.Sym._coerce(c).const_value()) for c in im) for im in imgs]
        if vals[0] != ref[v0] or sorted(vals) != sorted(ref):
            return violated("remap_points_shared_vertex(%d) maps the reference vertices to %s" % (v0, vals), signature="remap/vertex/%d" % v0)
        # affine: second differences vanish
        for c in range(2):
            e = S.Sym._coerce(out[c, 0])
            for v in (P[0, 0], P[1, 0]):
                for u in (P[0, 0], P[1, 0]):
                    if not S.is_zero(S.diff(S.diff(e, v), u)):
                        return violated("vertex remap is not affine", signature="remap/vertex/%d" % v0)
    return proved("sym-normal-form", "affine bijection of the reference triangle with the required vertex images")


def _phys_integral(n, kind, conf):
    """1/|x-y| over a pair of physical triangles with the singular rule + remapping `conf`."""
    from bempp_cl.api.integration import duffy_galerkin as dg

    if kind == "coincident":
        pt, pr, w = dg.rule(n, "coincident")
        T1 = np.array([[0.0, 0, 0], [1.0, 0.1, 0], [0.2, 0.9, 0.3]])
        T2 = T1
    elif kind == "edge":
        v0, v1, u0, u1 = conf
        pt, pr, w = dg.rule(n, "edge_adjacent")
        pt = dg.remap_points_shared_edge(pt, v0, v1)
        pr = dg.remap_points_shared_edge(pr, u0, u1)
        A, B = np.array([0.0, 0, 0]), np.array([1.0, 0.1, 0])
        Cc, Dd = np.array([0.2, 0.9, 0.3]), np.array([0.7, -0.8, 0.4])
        T1 = np.zeros((3, 3))
        T1[v0], T1[v1], T1[3 - v0 - v1] = A, B, Cc
        T2 = np.zeros((3, 3))
        T2[u0], T2[u1], T2[3 - u0 - u1] = A, B, Dd
    else:
        v, u = conf
        pt, pr, w = dg.rule(n, "vertex_adjacent")
        pt = dg.remap_points_shared_vertex(pt, v)
        pr = dg.remap_points_shared_vertex(pr, u)
        A = np.array([0.0, 0, 0])
        T1 = np.zeros((3, 3))
        T2 = np.zeros((3, 3))
        others1 = [np.array([1.0, 0.1, 0]), np.array([0.2, 0.9, 0.3])]
        others2 = [np.array([-0.9, 0.2, 0.1]), np.array([-0.1, -1.0, 0.4])]
        T1[v] = A
        T2[u] = A
        for k, o in zip([i for i in range(3) if i != v], others1):
            T1[k] = o
        for k, o in zip([i for i in range(3) if i != u], others2):
            T2[k] = o
    X = T1[0][:, None] + np.outer(T1[1] - T1[0], pt[0]) + np.outer(T1[2] - T1[0], pt[1])
    Y = T2[0][:, None] + np.outer(T2[1] - T2[0], pr[0]) + np.outer(T2[2] - T2[0], pr[1])
    r = np.linalg.norm(X - Y, axis=0)
    return float(np.sum(w / r))


def ob_convergence(kind, conf):
    """bounded: the 1/|x-y| integral converges geometrically (error at n <= C q^n, observed ratio test) to the n=12 value, and all
    remapped configurations of the same physical pair agree."""
    vals = {n: _phys_integral(n, kind, conf) for n in (2, 3, 4, 5, 6, 8, 12)}
    ref = vals[12]
    errs = {n: abs(vals[n] - ref) / abs(ref) for n in (2, 3, 4, 5, 6, 8)}
    ok = errs[4] < 1e-3 and errs[6] < 1e-5 and errs[8] < 1e-7 and errs[6] < errs[3] and errs[8] <= errs[5]
    if not ok:
        return violated("1/|x-y| with %s remap %s does not converge geometrically: relative errors %s" % (kind, conf, {k: "%.1e" % v for k, v in errs.items()}),
                        witness={"kind": kind, "conf": list(conf) if conf else None},
                        replay={"callable": "checks.c12:replay_convergence", "kwargs": {"kind": kind, "conf": list(conf) if conf else None}, "confirmed": True},
                        signature="convergence/%s/%s" % (kind, conf))
    return held("rel. errors n=2..8: " + " ".join("%.0e" % errs[n] for n in (2, 3, 4, 5, 6, 8)) + " value %.12f" % ref)


def replay_convergence(kind, conf):
    r = ob_convergence(kind, tuple(conf) if conf else None)
    return {"violates": r["status"] == "violated", "detail": r["detail"]}


def ob_remap_agree():
    """bounded: the same physical edge/vertex pair gives the same integral for every local numbering (6x6 / 3x3 remaps), n = 8."""
    base = None
    worst = 0.0
    for v0, v1 in itertools.permutations(range(3), 2):
        for u0, u1 in itertools.permutations(range(3), 2):
            val = _phys_integral(8, "edge", (v0, v1, u0, u1))
            base = base if base is not None else val
            worst = max(worst, abs(val - base) / abs(base))
            if abs(val - base) > 1e-7 * abs(base):
                return violated("edge remap (%d,%d)x(%d,%d) gives %.10f, (0,1)x(0,1) gives %.10f" % (v0, v1, u0, u1, val, base),
                                witness={"conf": [v0, v1, u0, u1]}, signature="remap-agree", replay={"confirmed": True})
    basev = None
    for v in range(3):
        for u in range(3):
            val = _phys_integral(8, "vertex", (v, u))
            basev = basev if basev is not None else val
            worst = max(worst, abs(val - basev) / abs(basev))
            if abs(val - basev) > 1e-7 * abs(basev):
                return violated("vertex remap (%d)x(%d) gives %.10f vs %.10f" % (v, u, val, basev), witness={"conf": [v, u]}, signature="remap-agree",
                                replay={"confirmed": True})
    return held("36 edge and 9 vertex configurations agree to %.1e" % worst)


def main():
    run = Run("C12", "proof")
    thorough = run.tier == "thorough"
    run.explanation = ("Tables: the real rule() functions are called for every supported order and their float entries converted to exact "
                       "rationals; all moment conditions are evaluated without rounding (finite, exhaustive). Range rejection: the guard of "
                       "rule() is translated from its AST to z3 and shown equivalent to order<lo or order>hi for all integers. Duffy: the real "
                       "duffy_galerkin.rule is executed with gauss.rule replaced by its contract (symbolic nodes/weights); region maps are "
                       "extracted and the change of variables is verified by exact polynomial integration for all monomials up to the bound.")
    from bempp_cl.api.integration import gauss, triangle_gauss, duffy_galerkin

    run.under_contract(gauss.rule)
    run.under_contract(triangle_gauss.rule)
    run.under_contract(duffy_galerkin.rule, dropped="float64 dtype of the np.empty allocations (object arrays used instead)")
    run.under_contract(duffy_galerkin.remap_points_shared_edge)
    run.under_contract(duffy_galerkin.remap_points_shared_vertex)
    run.under_contract(duffy_galerkin.number_of_quadrature_points)
    for n in range(1, 31):
        run.add("gauss.rule(%d)::moments" % n, "table", ob_gauss, n)
    for n in range(1, 21):
        run.add("triangle_gauss.rule(%d)::moments" % n, "table", ob_triangle, n)
    run.add("gauss.rule::raises", "raises", ob_range, "gauss", 1, 30)
    run.add("triangle_gauss.rule::raises", "raises", ob_range, "triangle_gauss", 1, 20)
    run.add("triangle_gauss+gauss::addresses", "table", ob_addresses)
    maxdeg = 16 if thorough else 8
    for adj in ADJ:
        run.add("duffy_galerkin.rule(%s)::map-rule" % adj, "inv-step", ob_duffy_map, adj)
        run.add("duffy_galerkin.rule(%s)::change-of-variables-exact(deg<=%d)" % (adj, maxdeg), "lemma", ob_duffy_exact, adj, maxdeg)
        run.add("duffy_galerkin.rule(%s)::counts" % adj, "bounded", ob_duffy_counts, adj)
        for n in ((2, 3, 4, 5) if thorough else (2, 3, 4)):
            run.add("duffy_galerkin.rule(%d,%s)::float-exactness" % (n, adj), "bounded", ob_duffy_numeric_exact, adj, n)
    for v0, v1 in itertools.permutations(range(3), 2):
        run.add("duffy_galerkin.remap_points_shared_edge(%d,%d)::post" % (v0, v1), "post", ob_remap, "edge", v0, v1)
    for v in range(3):
        run.add("duffy_galerkin.remap_points_shared_vertex(%d)::post" % v, "post", ob_remap, "vertex", v, None)
    run.add("convergence.coincident", "bounded", ob_convergence, "coincident", None)
    for v0, v1 in itertools.permutations(range(3), 2):
        run.add("convergence.edge(%d,%d)" % (v0, v1), "bounded", ob_convergence, "edge", (v0, v1, v1, v0))
    for v in range(3):
        run.add("convergence.vertex(%d)" % v, "bounded", ob_convergence, "vertex", (v, (v + 1) % 3))
    run.add("remap.configurations-agree", "bounded", ob_remap_agree)
    run.bound("Duffy change-of-variables identity checked for all monomials of total degree <= %d (quick: 8, thorough: 16); "
              "higher degrees rely on the Sauter-Schwab theorem (assumed)" % maxdeg)
    run.bound("Duffy map rule / column layout checked at n = 4 symbolic Gauss nodes; counts at n = 1..5")
    run.bound("geometric convergence: one physical configuration per remapping, orders 2..8 against order 12")
    run.assume("table tolerance 1e-14 absolute (tables carry 15 digits); exactness 'to rounding'")
    run.assume("degree bookkeeping lemma: a polynomial of degree <= 2n-1 in each cube variable is integrated exactly by the n-point tensor "
               "Gauss rule (consequence of the proved 1-D moment conditions)")
    return run.finish()


if __name__ == "__main__":
    sys.exit(main())
