"""C13 sparse operators, projections and integrals are exact L2 quantities (DESIGN 3, C13)."""

import contextlib
import sys
import warnings

import numpy as np

from vlib import sym as S
from vlib import symgrid as SG
from vlib import pipeline as PL
from vlib import potential as PT
from vlib import zoo as Z
from vlib.objnp import patched
from vlib.sparsestub import patched_scipy
from vlib.framework import Run, proved, violated, undecided, held
from specs import galerkin as GS
from specs import functions as FS

DI = {"screen2": [1, 1, 2, 2, 1, 3, 2, 2], "tetra": [1, 2, 2, 1], "fan3": [1, 2, 1], "pair:2:012:120": [1, 2]}


@contextlib.contextmanager
def symbolic_api(rule):
    """All patches needed to execute the sparse / grid-function API on proxies."""
    from bempp_cl.api.assembly import grid_function as GF
    from bempp_cl.api.space import maxwell_spaces as MX, scalar_spaces as SC, space as SP
    from bempp_cl.core import numba_kernels as NK
    from bempp_cl.api.assembly import boundary_operator as BO

    with SG.object_pipeline(lambda order: rule, None, {}), patched(GF), patched(MX), patched(SC), patched(NK), patched_scipy():
        yield


def setup(mesh, space_specs, di=None):
    S.reset()
    v, e = PL._mesh(mesh)
    grid = SG.make_grid(v, e, np.array(di, dtype="uint32") if di is not None else None)
    spaces = [PL.make_space(grid, s) for s in space_specs]
    g = SG.attach_symbolic(grid, "v")
    grid._volumes = g._volumes
    grid._integration_elements = g._integration_elements
    geo = GS.Geometry(g._vertices, grid.elements)
    for sp in spaces:
        PT.densify(sp)
    pts = PT.keep(S.symarray("q", (2, 2)))
    wts = PT.keep(S.symarray("qw", (2,), positive=True))
    return grid, geo, spaces, (pts, wts)


def _cmp(got, want, what, sig):
    got = np.asarray(got, dtype=object)
    want = np.asarray(want, dtype=object)
    if got.shape != want.shape:
        return violated("%s: shape %s, expected %s" % (what, got.shape, want.shape), signature=sig, replay={"confirmed": False})
    for idx in np.ndindex(*want.shape):
        gv = got[idx]
        if isinstance(gv, np.ndarray) and gv.ndim == 0:
            gv = gv.item()
        d = S.Sym._coerce(gv) - S.Sym._coerce(want[idx])
        if not S.is_zero(d):
            w = S.find_witness(d, seed=21)
            if w is None:
                return undecided("%s%s: normal form non-zero, no numeric witness" % (what, list(idx)))
            return violated("%s: entry %s differs from the spec (difference %s at the witness)" % (what, list(idx), w[1]), witness={"env": w[0]}, signature=sig,
                            replay={"confirmed": False, "note": "native replay: see the bounded obligations of this property, which evaluate the same contract on floats"})
    return None


def ob_sparse(opname, mesh, test_spec, trial_spec):
    """post: identity / laplace_beltrami weak form (SparseAssembler.assemble -> assemble_sparse -> default_sparse_kernel -> kernel, scatter through
    l2g and multipliers, coo summation) == sum_E |J_E| sum_q w_q <basis_f, basis_g> resp. <grad basis_f, grad basis_g> (specs/functions.py)."""
    from bempp_cl.api.operators.boundary import sparse
    import bempp_cl.api as api

    grid, geo, (test, trial), rule = setup(mesh, [test_spec, trial_spec], DI.get(mesh))
    with symbolic_api(rule):
        op = getattr(sparse, opname)(trial, trial, test, parameters=api.GLOBAL_PARAMETERS)
        M = np.asarray(op.weak_form()._impl)
    want = FS.mass_matrix(geo, test, trial, rule) if opname == "identity" else FS.laplace_beltrami_matrix(geo, test, trial, rule)
    bad = _cmp(M, want, "%s matrix" % opname, "sparse/%s/%s/%s%d-%s%d" % (opname, mesh, test_spec[0], test_spec[1], trial_spec[0], trial_spec[1]))
    return bad or proved("sym-exec+normal-form", "%dx%d matrix" % want.shape)


def ob_gridfunction(mesh, space_spec, what):
    try:
        return _ob_gridfunction(mesh, space_spec, what)
    except S.Undecided:
        raise
    except Exception as ex:  # noqa
        # the real code left the subset that runs on proxy values (e.g. a scipy product): decide natively instead of failing the check
        rp = replay_gridfunction_numeric("octa")
        if rp["violates"]:
            return violated("GridFunction.%s: symbolic execution not possible (%s: %s); the native contract on the octahedron fails: %s" % (what, type(ex).__name__, str(ex)[:80], rp["problems"][:3]),
                            witness={"problems": rp["problems"]}, signature="gridfunction/%s/native" % what,
                            replay={"callable": "checks.c13:replay_gridfunction_numeric", "kwargs": {"gridname": "octa"}, "confirmed": True})
        return undecided("GridFunction.%s cannot be executed on proxy values (%s: %s); the native contract holds (%.1e)" % (what, type(ex).__name__, str(ex)[:80], rp["worst"]))


def _ob_gridfunction(mesh, space_spec, what):
    """post: GridFunction(space, coefficients=c).<what> equals direct quadrature / evaluation of u = sum_d c_d sum_{(E,f)->d} m_{E,f} basis_{E,f}:
       evaluate(E, xi) == u_E(xi); integrate() == sum_E |J_E| sum_q w_q u_E(q); evaluate_on_element_centers()[:, E] == u_E(1/3, 1/3);
       evaluate_on_vertices()[:, v] == area-weighted mean of u_E(v) over support elements E containing v."""
    import bempp_cl.api as api

    grid, geo, (space,), rule = setup(mesh, [space_spec], DI.get(mesh))
    pts, wts = rule
    c = S.symarray("c", (space.global_dof_count,))
    dim = space.codomain_dimension
    with symbolic_api(rule):
        gf = api.GridFunction(space, coefficients=c)
        if what == "evaluate":
            E = int(space.support_elements[-1])
            got = gf.evaluate(E, np.asarray(pts))
            want = np.empty((dim, 2), dtype=object)
            for q in range(2):
                val = FS.value(geo, space, c, E, (pts[0, q], pts[1, q]))
                for k in range(dim):
                    want[k, q] = val[k]
        elif what == "integrate":
            got = gf.integrate()
            want = np.empty(dim, dtype=object)
            want.fill(0)
            for E in space.support_elements:
                E = int(E)
                for q in range(2):
                    val = FS.value(geo, space, c, E, (pts[0, q], pts[1, q]))
                    for k in range(dim):
                        want[k] = want[k] + val[k] * wts[q] * geo.int_elem(E)
        elif what == "centers":
            got = gf.evaluate_on_element_centers()
            want = np.empty((dim, grid.number_of_elements), dtype=object)
            want.fill(0)
            third = S.Sym.const(1) / 3
            for E in space.support_elements:
                val = FS.value(geo, space, c, int(E), (third, third))
                for k in range(dim):
                    want[k, int(E)] = val[k]
        else:
            got = gf.evaluate_on_vertices()
            want = np.empty((dim, grid.number_of_vertices), dtype=object)
            want.fill(0)
            area = [0] * grid.number_of_vertices
            ref = [(0, 0), (1, 0), (0, 1)]
            for E in space.support_elements:
                E = int(E)
                a = geo.int_elem(E) / 2
                for i in range(3):
                    vtx = int(grid.elements[i, E])
                    val = FS.value(geo, space, c, E, ref[i])
                    area[vtx] = area[vtx] + a
                    for k in range(dim):
                        want[k, vtx] = want[k, vtx] + val[k] * a
            for vtx in range(grid.number_of_vertices):
                if not (isinstance(area[vtx], int) and area[vtx] == 0):
                    for k in range(dim):
                        want[k, vtx] = want[k, vtx] / area[vtx]
    bad = _cmp(got, want, "GridFunction.%s on %s %s%d" % (what, mesh, space_spec[0], space_spec[1]), "gridfunction/%s/%s%d" % (what, space_spec[0], space_spec[1]))
    if bad and bad.get("status") == "violated" and what != "evaluate":
        # replay the refuted contract natively (floats, real quadrature rule) on the octahedron: the same helper against direct quadrature of gf.evaluate
        key = {"integrate": "integrate", "centers": "evaluate_on_element_centers", "vertices": "evaluate_on_vertices"}[what]
        rp = replay_gridfunction_numeric("octa")
        mine = [p_ for p_ in rp["problems"] if p_.startswith(key) and ("%s%d" % (space_spec[0], space_spec[1])) in p_]
        if mine:
            bad["replay"] = {"callable": "checks.c13:replay_gridfunction_numeric", "kwargs": {"gridname": "octa"}, "confirmed": True, "result": {"problems": mine[:4]}}
            bad["detail"] += "; native replay on the octahedron: %s" % mine[:2]
    return bad or proved("sym-exec+normal-form", "%s values" % (np.asarray(want).size,))


def ob_projection(mesh, space_spec, vectorized):
    """post: GridFunction(space, fun=F).projections()[d] == sum_{(E,f)->d} m_{E,f} |J_E| sum_q w_q <basis_{E,f}(q), F(x_{E,q}, n_E, domain_E)>
    for a callable F (uninterpreted), vectorised and point-wise flavours (the jit / objmode wrappers only exist with JIT on: bounded part)."""
    import bempp_cl.api as api

    grid, geo, (space,), rule = setup(mesh, [space_spec], DI.get(mesh))
    pts, wts = rule
    dim = space.codomain_dimension

    def F(x, n, d, k):
        return S.fn("F%d" % k, list(x) + list(n) + [int(d)], lambda *a, _k=k: 0.3 + _k + sum((0.7 + 0.31 * i) * complex(v).real for i, v in enumerate(a)))

    if vectorized:
        def fun(x, n, domain_index, res, parameters):
            for j in range(x.shape[1]):
                for k in range(dim):
                    res[k, j] = F(x[:, j], n[:, j], domain_index[j], k)
        fun.bempp_vectorized = True
    else:
        def fun(x, n, domain_index, res, parameters):
            for k in range(dim):
                res[k] = F(x, n, domain_index, k)
        fun.bempp_vectorized = False
    fun.bempp_type = "real"
    with symbolic_api(rule):
        gf = api.GridFunction(space, fun=fun)
        got = np.asarray(gf.projections())
    want = np.empty(space.global_dof_count, dtype=object)
    want.fill(0)
    for E in space.support_elements:
        E = int(E)
        n = [cc * int(space.normal_multipliers[E]) for cc in geo.normal(E)]
        for f in range(space.number_of_shape_functions):
            acc = 0
            for q in range(2):
                xi = (pts[0, q], pts[1, q])
                x = geo.point(geo.std_frame(E), xi[0], xi[1], E)
                b = FS.basis(geo, space, E, f, xi)
                acc = acc + wts[q] * sum(b[k] * F(x, n, grid.domain_indices[E], k) for k in range(dim))
            d = int(space.local2global[E, f])
            want[d] = want[d] + acc * geo.int_elem(E) * int(space.local_multipliers[E, f])
    bad = _cmp(got, want, "projections(%s) on %s %s%d" % ("vectorised" if vectorized else "pointwise", mesh, space_spec[0], space_spec[1]),
               "projection/%s/%s%d" % (vectorized, space_spec[0], space_spec[1]))
    return bad or proved("sym-exec+normal-form", "%d projections" % want.size)


def ob_multiplication(mesh, fun_spec, test_spec, trial_spec, mode="component"):
    """post: MultiplicationOperator(g, domain, range, dual, mode)._assemble()[r, c] ==
       sum_E |J_E| sum_q w_q <test basis_r(q), g_E(q) * trial basis_c(q)>   (component mode, scalar g)."""
    import bempp_cl.api as api
    from bempp_cl.api.assembly.boundary_operator import MultiplicationOperator

    grid, geo, (fs, test, trial), rule = setup(mesh, [fun_spec, test_spec, trial_spec], DI.get(mesh))
    pts, wts = rule
    c = S.symarray("c", (fs.global_dof_count,))
    real_zeros = np.zeros

    def obj_zeros(shape, dtype=None, order="C"):
        if dtype in ("float64", "complex128"):
            a = np.empty(shape, dtype=object)
            a.fill(0)
            return a
        return real_zeros(shape, dtype=dtype if dtype is not None else float, order=order)

    with symbolic_api(rule):
        gf = api.GridFunction(fs, coefficients=c)
        try:
            op = MultiplicationOperator(gf, trial, trial, test, parameters=api.GLOBAL_PARAMETERS, mode=mode)
            np.zeros = obj_zeros          # _assemble does `import numpy as _np` locally and allocates float64 data
            try:
                M = np.asarray(op._assemble()._impl)
            finally:
                np.zeros = real_zeros
        except (TypeError, AttributeError) as e:
            return violated("MultiplicationOperator(mode=%s) cannot be assembled: %s: %s" % (mode, type(e).__name__, e), witness={"mode": mode, "mesh": mesh},
                            signature="multiplication/%s/raises" % mode,
                            replay={"callable": "checks.c13:replay_multiplication_raises", "kwargs": {"mode": mode}, "confirmed": replay_multiplication_raises(mode)["violates"]})
    want = np.empty((test.grid_dof_count, trial.grid_dof_count), dtype=object)
    want.fill(0)
    for E in range(grid.number_of_elements):
        if not (test.support[E] and trial.support[E] and fs.support[E]):
            continue
        for f in range(test.number_of_shape_functions):
            for g in range(trial.number_of_shape_functions):
                acc = 0
                for q in range(2):
                    xi = (pts[0, q], pts[1, q])
                    gv = FS.value(geo, fs, c, E, xi)
                    bt = FS.basis(geo, test, E, f, xi)
                    br = FS.basis(geo, trial, E, g, xi)
                    if mode == "component":
                        term = sum(bt[k] * gv[k if len(gv) > 1 else 0] * br[k] for k in range(len(br)))
                    else:
                        term = bt[0] * sum(gv[k] * br[k] for k in range(len(br)))
                    acc = acc + wts[q] * term
                r, cc = int(test.local2global[E, f]), int(trial.local2global[E, g])
                want[r, cc] = want[r, cc] + acc * geo.int_elem(E) * int(test.local_multipliers[E, f]) * int(trial.local_multipliers[E, g])
    bad = _cmp(M, want, "MultiplicationOperator(%s) on %s" % (mode, mesh), "multiplication/%s/%s/%s%d" % (mode, mesh, trial_spec[0], trial_spec[1]))
    return bad or proved("sym-exec+normal-form", "%dx%d matrix" % want.shape)


def replay_multiplication_raises(mode):
    import bempp_cl.api as api
    from bempp_cl.api.assembly.boundary_operator import MultiplicationOperator

    g = Z.grid_with_domains("octa")
    rwg = api.function_space(g, "RWG", 0)
    dp0 = api.function_space(g, "DP", 0)
    gf = api.GridFunction(rwg, coefficients=np.ones(rwg.global_dof_count))
    try:
        MultiplicationOperator(gf, rwg, dp0, dp0, mode=mode).weak_form()
        return {"violates": False}
    except (TypeError, AttributeError) as e:
        return {"violates": True, "observed": "%s: %s" % (type(e).__name__, e)}


# ---- bounded ------------------------------------------------------------------------------------------


def ob_exactness(gridname):
    """bounded: for every regular order 2..20 (P1 x P1, DP0 x P1, RWG x RWG, SNC x RWG: degree-2 integrands; order 1 for DP0 x DP0) the identity
    matrix equals the exact L2 matrix (closed form (1+delta_ij)|J|/24 etc.) to 1e-13; symmetric positive definite; entries of a partition-of-unity
    basis sum to the area; Laplace-Beltrami: symmetric, PSD, annihilates constants, equals the exact gradient matrix for every order."""
    import bempp_cl.api as api
    from bempp_cl.api.operators.boundary import sparse

    warnings.simplefilter("ignore")
    g = Z.grid_with_domains(gridname)
    area = float(sum(0.5 * np.linalg.norm(np.cross(g.vertices[:, g.elements[1, E]] - g.vertices[:, g.elements[0, E]], g.vertices[:, g.elements[2, E]] - g.vertices[:, g.elements[0, E]])) for E in range(g.number_of_elements)))
    p1 = api.function_space(g, "P", 1, include_boundary_dofs=True)
    dp0 = api.function_space(g, "DP", 0)
    rwg = api.function_space(g, "RWG", 0, include_boundary_dofs=True)
    # exact P1 mass and stiffness matrices from the vertices
    nv = g.number_of_vertices
    Mex = np.zeros((nv, nv))
    Kex = np.zeros((nv, nv))
    geo = GS.Geometry(g.vertices, g.elements)
    for E in range(g.number_of_elements):
        J = g.integration_elements[E]
        grads = [np.array(FS.surface_gradient(geo, E, f), dtype=float) for f in range(3)]
        for a in range(3):
            for b in range(3):
                Mex[g.elements[a, E], g.elements[b, E]] += J * (2 if a == b else 1) / 24.0
                Kex[g.elements[a, E], g.elements[b, E]] += 0.5 * J * grads[a] @ grads[b]
    ref_rwg = None
    worst = 0.0
    for order in range(1, 21):
        par = Z.params(order, order)
        if order >= 2:
            M = Z.dense(sparse.identity(p1, p1, p1, parameters=par))
            e = Z.relerr(M, Mex)
            worst = max(worst, e)
            if e > 1e-13 or abs(M.sum() - area) > 1e-12 * area or np.min(np.linalg.eigvalsh(0.5 * (M + M.T))) <= 0 or Z.relerr(M, M.T) > 1e-14:
                return violated("P1 mass matrix at order %d on %s: error %.2e vs exact, sum %.15f vs area %.15f" % (order, gridname, e, M.sum(), area),
                                witness={"order": order, "grid": gridname}, signature="exactness/mass", replay={"callable": "checks.c13:replay_exactness", "kwargs": {"gridname": gridname}, "confirmed": True})
            R = Z.dense(sparse.identity(rwg, rwg, rwg, parameters=par))
            if ref_rwg is None:
                ref_rwg = R
            if Z.relerr(R, ref_rwg) > 1e-13 or np.min(np.linalg.eigvalsh(0.5 * (R + R.T))) <= 0:
                return violated("RWG mass matrix at order %d differs from order 2 by %.2e or is not SPD" % (order, Z.relerr(R, ref_rwg)), witness={"order": order},
                                signature="exactness/rwg", replay={"callable": "checks.c13:replay_exactness", "kwargs": {"gridname": gridname}, "confirmed": True})
        K = Z.dense(sparse.laplace_beltrami(p1, p1, p1, parameters=par))
        e = Z.relerr(K, Kex)
        worst = max(worst, e)
        if e > 1e-12 or np.linalg.norm(K @ np.ones(nv)) > 1e-12 * np.linalg.norm(K) or np.min(np.linalg.eigvalsh(0.5 * (K + K.T))) < -1e-12 * np.linalg.norm(K):
            return violated("Laplace-Beltrami matrix at order %d on %s: error %.2e" % (order, gridname, e), witness={"order": order}, signature="exactness/lb",
                            replay={"callable": "checks.c13:replay_exactness", "kwargs": {"gridname": gridname}, "confirmed": True})
        D = Z.dense(sparse.identity(dp0, dp0, dp0, parameters=par))
        tri_areas = np.array([0.5 * np.linalg.norm(np.cross(g.vertices[:, g.elements[1, E]] - g.vertices[:, g.elements[0, E]], g.vertices[:, g.elements[2, E]] - g.vertices[:, g.elements[0, E]]))
                              for E in range(g.number_of_elements)])
        if Z.relerr(D, np.diag(tri_areas)) > 1e-13:
            return violated("DP0 mass matrix at order %d is not diag(area)" % order, witness={"order": order}, signature="exactness/dp0",
                            replay={"callable": "checks.c13:replay_exactness", "kwargs": {"gridname": gridname}, "confirmed": True})
    return held("orders 1..20, worst %.1e" % worst)


def replay_exactness(gridname):
    r = ob_exactness(gridname)
    return {"violates": r["status"] == "violated", "detail": r["detail"]}


def ob_function_roundtrip(gridname, jit):
    """bounded: projecting a callable that lies in the space returns its exact coefficients (P1: affine function; DP0: per-domain constant; RWG:
    constant vector field is not in the space, so a coefficient round trip c -> projections -> coefficients is used); integrate, l2_norm,
    evaluate_on_vertices / centers agree with direct quadrature; callable flavours real/complex x vectorised/pointwise(/jit when JIT is on)."""
    import bempp_cl.api as api

    warnings.simplefilter("ignore")
    g = Z.grid_with_domains(gridname)
    par = Z.params(4, 4)
    p1 = api.function_space(g, "P", 1, include_boundary_dofs=True)
    a, b = np.array([0.3, -0.7, 0.45]), 0.25

    flavours = []

    @api.callable(vectorized=True)
    def f_vec(x, n, d, res):
        res[0, :] = a @ x + b

    flavours.append(("real-vectorised", f_vec, 1.0))

    @api.callable(complex=True, vectorized=True)
    def f_cvec(x, n, d, res):
        res[0, :] = (1 + 2j) * (a @ x + b)

    flavours.append(("complex-vectorised", f_cvec, 1 + 2j))

    @api.callable(vectorized=True, parameterized=True)
    def f_par(x, n, d, res, p):
        res[0, :] = p[0] * (a @ x + b)

    @api.real_callable(jit=jit)
    def f_pt(x, n, d, res):
        res[0] = a[0] * x[0] + a[1] * x[1] + a[2] * x[2] + b

    flavours.append(("real-pointwise(jit=%s)" % jit, f_pt, 1.0))

    @api.complex_callable(jit=jit)
    def f_cpt(x, n, d, res):
        res[0] = (1 + 2j) * (a[0] * x[0] + a[1] * x[1] + a[2] * x[2] + b)

    flavours.append(("complex-pointwise(jit=%s)" % jit, f_cpt, 1 + 2j))
    exact = a @ g.vertices + b
    worst = 0.0
    for name, fun, scale in flavours:
        gf = api.GridFunction(p1, fun=fun, parameters=par)
        e = Z.relerr(gf.coefficients, scale * exact)
        worst = max(worst, e)
        if e > 1e-12:
            return violated("projecting an affine function with the %s callable returns coefficients off by %.2e" % (name, e), witness={"flavour": name},
                            signature="roundtrip/" + name, replay={"callable": "checks.c13:replay_roundtrip", "kwargs": {"gridname": gridname, "jit": jit}, "confirmed": True})
    # a segment space whose support is not a leading block of elements (position in support_elements != element number)
    doms = sorted(set(int(d) for d in g.domain_indices))
    dseg = api.function_space(g, "DP", 1, segments=[doms[1]])
    ex_seg = np.zeros(dseg.global_dof_count)
    for E in dseg.support_elements:
        for i in range(3):
            ex_seg[dseg.local2global[E, i]] = a @ g.vertices[:, g.elements[i, E]] + b
    for name, fun, scale in flavours:
        e = Z.relerr(api.GridFunction(dseg, fun=fun, parameters=par).coefficients, scale * ex_seg)
        worst = max(worst, e)
        if e > 1e-12:
            return violated("projecting an affine function onto DP1 on segment %d (elements %s) with the %s callable returns coefficients off by %.2e"
                            % (doms[1], [int(x) for x in dseg.support_elements], name, e), witness={"flavour": name, "segment": doms[1]},
                            signature="roundtrip-segment/" + name, replay={"callable": "checks.c13:replay_roundtrip", "kwargs": {"gridname": gridname, "jit": jit}, "confirmed": True})
    gfp = api.GridFunction(p1, fun=f_par, parameters=par, function_parameters=np.array([2.5]))
    if Z.relerr(gfp.coefficients, 2.5 * exact) > 1e-12:
        return violated("parameterised callable: coefficients off", signature="roundtrip/parameterised", replay={"confirmed": True})
    gf = api.GridFunction(p1, coefficients=exact, parameters=par)
    # direct quadrature of the affine function
    integ = sum(0.5 * g.integration_elements[E] * (a @ g.vertices[:, g.elements[:, E]].mean(axis=1) + b) for E in range(g.number_of_elements))
    l2 = np.sqrt(sum(g.integration_elements[E] * sum((2 if i == j else 1) / 24.0 * exact[g.elements[i, E]] * exact[g.elements[j, E]] for i in range(3) for j in range(3))
                     for E in range(g.number_of_elements)))
    checks = {"integrate": abs(gf.integrate()[0] - integ) / abs(integ), "l2_norm": abs(gf.l2_norm() - l2) / l2,
              "vertices": Z.relerr(gf.evaluate_on_vertices()[0], exact), "centers": Z.relerr(gf.evaluate_on_element_centers()[0], a @ g.centroids.T + b)}
    for k, e in checks.items():
        if e > 1e-12:
            return violated("GridFunction.%s of an affine function is off by %.2e" % (k, e), signature="roundtrip/" + k, replay={"confirmed": True})
    # vector-valued space: coefficient round trip and integral against direct quadrature
    rwg = api.function_space(g, "RWG", 0, include_boundary_dofs=True)
    rng = np.random.RandomState(3)
    c = rng.randn(rwg.global_dof_count)
    gr = api.GridFunction(rwg, coefficients=c, parameters=par)
    back = api.GridFunction(rwg, projections=gr.projections(), parameters=par).coefficients
    if Z.relerr(back, c) > 1e-10:
        return violated("RWG coefficient -> projections -> coefficient round trip off by %.2e" % Z.relerr(back, c), signature="roundtrip/rwg", replay={"confirmed": True})
    from bempp_cl.api.integration.triangle_gauss import rule

    q, w = rule(4)
    direct = np.zeros(3)
    for E in range(g.number_of_elements):
        direct += g.integration_elements[E] * (gr.evaluate(E, q) @ w)
    e = np.linalg.norm(gr.integrate() - direct) / np.linalg.norm(direct)
    if e > 1e-12:
        return violated("GridFunction.integrate of an RWG function differs from direct quadrature of evaluate() by %.2e" % e, witness={"space": "RWG"},
                        signature="roundtrip/integrate-rwg", replay={"callable": "checks.c13:replay_roundtrip", "kwargs": {"gridname": gridname, "jit": jit}, "confirmed": True})
    return held("%d callable flavours, worst %.1e; integrate/l2_norm/vertices/centers/RWG ok" % (len(flavours) + 1, worst))


def replay_projection_other_space():
    """Native: projections of a grid function onto a DIFFERENT space of the same kind and size (overlapping or disjoint supports with equally many elements) are the exact
    L2 products with that space's basis (the mixed mass matrix), not those with its own basis; project_to_space agrees with solving the target space's mass system."""
    import bempp_cl.api as api
    from bempp_cl.api.operators.boundary import sparse

    warnings.simplefilter("ignore")
    g = SG.make_grid(*SG.octa())
    par = Z.params(4, 4)
    rng = np.random.RandomState(8)
    failing, worst = [], 0.0
    for kind, deg, sa, sb in (("DP", 1, [0, 1, 2, 3], [2, 3, 4, 5]), ("DP", 0, [0, 1, 2, 3], [4, 5, 6, 7]), ("P", 1, [0, 1, 2, 3], [2, 3, 4, 5]), ("RWG", 0, [0, 1, 2, 3], [4, 5, 6, 7])):
        kw = {} if kind == "DP" else {"include_boundary_dofs": True}
        A = api.function_space(g, kind, deg, support_elements=sa, **kw)
        B = api.function_space(g, kind, deg, support_elements=sb, **kw)
        c = rng.randn(A.global_dof_count) + 1j * rng.randn(A.global_dof_count)
        f = api.GridFunction(A, coefficients=c, parameters=par)
        # mixed mass matrix by direct quadrature through the basis evaluators (independent of the cached mass matrices)
        from bempp_cl.api.integration.triangle_gauss import rule

        q, w = rule(4)
        M = np.zeros((B.global_dof_count, A.global_dof_count), dtype=complex)
        for E in range(g.number_of_elements):
            if not (A.support[E] and B.support[E]):
                continue
            va, vb = A.evaluate(E, q), B.evaluate(E, q)
            for i in range(vb.shape[1]):
                for j in range(va.shape[1]):
                    M[B.local2global[E, i], A.local2global[E, j]] += g.integration_elements[E] * np.sum(w * np.sum(np.conj(vb[:, i, :]) * va[:, j, :], axis=0))
        want = M @ c
        got = np.asarray(f.projections(B))
        scale = max(1e-300, np.abs(want).max(), np.abs(c).max() * 1e-3)
        err = float(np.abs(got - want).max() / scale)
        worst = max(worst, err)
        if not err < 1e-12:
            failing.append("%s%d on elements %s projected onto the same kind on elements %s: deviation %.2e from the mixed mass matrix times the coefficients" % (kind, deg, sa, sb, err))
    return {"violates": bool(failing), "failing": failing, "worst": worst}


def ob_projection_other_space():
    """bounded: see replay_projection_other_space"""
    r = replay_projection_other_space()
    if r["violates"]:
        return violated("projections onto another space of the same kind and size are not the exact L2 products: %s" % r["failing"][:2], witness={"failing": r["failing"]},
                        signature="projection/other-space", replay={"callable": "checks.c13:replay_projection_other_space", "kwargs": {}, "confirmed": True, "result": r})
    return held("DP1 / DP0 / P1 / RWG on two supports of four elements each (overlapping and disjoint): worst %.1e" % r["worst"])


def replay_gridfunction_numeric(gridname):
    """Native (floats): evaluate_on_vertices, evaluate_on_element_centers, integrate and l2_norm of grid functions with real and complex (dof-wise varying phase)
    coefficients on whole-grid and (non-leading) segment spaces against direct evaluation / quadrature of the represented function through space.evaluate:
    vertex value = area-weighted average of the one-sided values over the SUPPORT elements at the vertex; l2_norm^2 = integral of |f|^2 (v^H M v, not v^T M v)."""
    import bempp_cl.api as api
    from bempp_cl.api.integration.triangle_gauss import rule

    warnings.simplefilter("ignore")
    g = Z.grid_with_domains(gridname)
    par = Z.params(4, 4)
    q, w = rule(6)
    rng = np.random.RandomState(2)
    doms = sorted(set(int(d) for d in g.domain_indices))
    problems, worst = [], 0.0
    specs = [("DP", 0, {}), ("DP", 1, {}), ("P", 1, {}), ("RWG", 0, {}), ("SNC", 0, {}), ("DP", 0, {"segments": [doms[1]]}), ("DP", 1, {"segments": [doms[1]]}),
             ("P", 1, {"segments": [doms[1]], "include_boundary_dofs": True}), ("RWG", 0, {"segments": [doms[1]], "include_boundary_dofs": True})]
    corners = np.array([[0.0, 1.0, 0.0], [0.0, 0.0, 1.0]])
    cen = np.array([[1.0 / 3], [1.0 / 3]])
    # element areas from the vertices (not grid.volumes: the helper under contract uses that table)
    areas = np.array([0.5 * np.linalg.norm(np.cross(g.vertices[:, g.elements[1, E]] - g.vertices[:, g.elements[0, E]], g.vertices[:, g.elements[2, E]] - g.vertices[:, g.elements[0, E]]))
                      for E in range(g.number_of_elements)])
    for kind, deg, kw in specs:
        sp = api.function_space(g, kind, deg, **kw)
        n = sp.global_dof_count
        for label, c in (("real", rng.randn(n)), ("complex, varying phase", rng.randn(n) * np.exp(1j * rng.uniform(0, 6.28, n)))):
            gf = api.GridFunction(sp, coefficients=c, parameters=par)
            tag = "%s%d%s %s" % (kind, deg, kw, label)
            # vertices
            num = np.zeros((gf.component_count, g.number_of_vertices), dtype=complex)
            den = np.zeros(g.number_of_vertices)
            for E in sp.support_elements:
                vals = gf.evaluate(int(E), corners)
                for i in range(3):
                    vtx = int(g.elements[i, E])
                    num[:, vtx] += vals[:, i] * areas[E]
                    den[vtx] += areas[E]
            used = den > 0
            want = np.zeros_like(num)
            want[:, used] = num[:, used] / den[used]
            got = np.asarray(gf.evaluate_on_vertices())
            e = float(np.abs(got - want).max() / max(1e-300, np.abs(want).max()))
            worst = max(worst, e)
            if e > 1e-12:
                problems.append("evaluate_on_vertices [%s]: %.2e" % (tag, e))
            # centres
            got = np.asarray(gf.evaluate_on_element_centers())
            want = np.zeros_like(got, dtype=complex)
            for E in sp.support_elements:
                want[:, int(E)] = gf.evaluate(int(E), cen)[:, 0]
            e = float(np.abs(got - want).max() / max(1e-300, np.abs(want).max()))
            worst = max(worst, e)
            if e > 1e-12:
                problems.append("evaluate_on_element_centers [%s]: %.2e" % (tag, e))
            # integral and norm
            integ = np.zeros(gf.component_count, dtype=complex)
            nrm2 = 0.0
            for E in sp.support_elements:
                vals = gf.evaluate(int(E), q)
                integ += g.integration_elements[E] * (vals @ w)
                nrm2 += g.integration_elements[E] * float(np.sum(w * np.sum(np.abs(vals) ** 2, axis=0)))
            e = float(np.abs(np.asarray(gf.integrate()) - integ).max() / max(1e-300, np.abs(integ).max()))
            worst = max(worst, e)
            if e > 1e-11:
                problems.append("integrate [%s]: %.2e" % (tag, e))
            e = abs(gf.l2_norm() - np.sqrt(nrm2)) / np.sqrt(nrm2)
            worst = max(worst, e)
            if e > 1e-11:
                problems.append("l2_norm [%s]: %.2e" % (tag, e))
    return {"violates": bool(problems), "problems": problems[:8], "worst": worst}


def ob_gridfunction_numeric(gridname):
    r = replay_gridfunction_numeric(gridname)
    if r["violates"]:
        return violated("grid-function helpers differ from direct evaluation / quadrature of the represented function on %s: %s" % (gridname, "; ".join(r["problems"][:4])),
                        witness={"problems": r["problems"]}, signature="gridfunction-numeric",
                        replay={"callable": "checks.c13:replay_gridfunction_numeric", "kwargs": {"gridname": gridname}, "confirmed": True})
    return held("8 spaces x real / complex coefficients: vertices, centres, integrate, l2_norm agree to %.1e" % r["worst"])


def replay_roundtrip(gridname, jit):
    r = ob_function_roundtrip(gridname, jit)
    return {"violates": r["status"] == "violated", "detail": r["detail"]}


P1B = ("P", 1, {"include_boundary_dofs": True})
DP0 = ("DP", 0, {})
DP1 = ("DP", 1, {})
RWGB = ("RWG", 0, {"include_boundary_dofs": True})
SNCB = ("SNC", 0, {"include_boundary_dofs": True})


def main():
    run = Run("C13", "other")
    thorough = run.tier == "thorough"
    run.explanation = ("Deductive (P-sizes): the real API paths identity(...).weak_form(), laplace_beltrami(...).weak_form(), GridFunction.evaluate / "
                       "integrate / evaluate_on_vertices / evaluate_on_element_centers / projections (callable flavours as plain functions) and "
                       "MultiplicationOperator._assemble are executed on small real grids with symbolic geometry, coefficients and quadrature rule "
                       "and equal direct quadrature of the represented finite element function (spec built from DOF map, multipliers, vertices and "
                       "reference shape functions only). With C12 (rule of order n exact to degree n) these are the exact L2 quantities. "
                       "Bounded: exactness for all orders 1..20 against closed-form element matrices, SPD/PSD/constants, callable flavours.")
    from bempp_cl.core import numba_kernels as NK, sparse_assembler as SA
    from bempp_cl.api.assembly import grid_function as GF, boundary_operator as BO

    for f in (SA.SparseAssembler.assemble, SA.assemble_sparse, NK.default_sparse_kernel, NK.l2_identity_kernel, NK.laplace_beltrami_kernel, GF._integrate,
              GF._project_function, GF._project_function_vectorized, GF.get_function_quadrature_information, GF.GridFunction.evaluate,
              GF.GridFunction.evaluate_on_vertices, GF.GridFunction.evaluate_on_element_centers, BO.MultiplicationOperator._assemble):
        run.under_contract(f, dropped="numeric dtypes; scipy coo_matrix replaced by its dense-summation contract; quadrature rule replaced by a generic stub")
    seg = ("P", 1, {"segments": [1, 2]})
    for mesh in ("tetra", "screen2"):
        for ts, rs in ((P1B, P1B), (DP0, P1B), (DP1, DP0), (RWGB, RWGB), (SNCB, RWGB), (seg, DP1), (("RWG", 0, {"segments": [2], "include_boundary_dofs": True}), SNCB)):
            run.add("sparse.identity[%s %s%d%s x %s%d%s]" % (mesh, ts[0], ts[1], sorted(ts[2]), rs[0], rs[1], sorted(rs[2])), "post", ob_sparse, "identity", mesh, ts, rs)
        # different normal multipliers on the two sides, one side with a normal-dependent basis (SNC = n x RWG): each space's own multipliers must be used
        snc_sw = ("SNC", 0, {"include_boundary_dofs": True, "swapped_normals": [2]})
        rwg_sw = ("RWG", 0, {"include_boundary_dofs": True, "swapped_normals": [2]})
        for ts, rs in ((snc_sw, RWGB), (RWGB, snc_sw), (SNCB, rwg_sw), (snc_sw, SNCB)):
            run.add("sparse.identity[%s %s%d%s x %s%d%s]" % (mesh, ts[0], ts[1], sorted(ts[2]), rs[0], rs[1], sorted(rs[2])), "post", ob_sparse, "identity", mesh, ts, rs)
        for ts, rs in ((P1B, P1B), (DP1, P1B), (seg, P1B)):
            run.add("sparse.laplace_beltrami[%s %s%d%s x %s%d]" % (mesh, ts[0], ts[1], sorted(ts[2]), rs[0], rs[1]), "post", ob_sparse, "laplace_beltrami", mesh, ts, rs)
    # segment spaces whose support is not a leading block of elements: position in support_elements != element number
    inner = [("DP", 0, {"segments": [2]}), ("DP", 1, {"segments": [2]}), ("P", 1, {"segments": [2], "include_boundary_dofs": True}),
             ("RWG", 0, {"segments": [2], "include_boundary_dofs": True})]
    # spaces built with swapped normals: the SNC basis is (swapped normal) x RWG, the sign must follow the space's normal multipliers
    swapped = [("SNC", 0, {"include_boundary_dofs": True, "swapped_normals": [2]}), ("RWG", 0, {"include_boundary_dofs": True, "swapped_normals": [2]})]
    for sp in [P1B, DP0, DP1, RWGB, SNCB, seg, ("RWG", 0, {"segments": [1, 2]})] + inner + swapped:
        for what in ("evaluate", "integrate", "centers", "vertices"):
            run.add("GridFunction.%s[tetra %s%d%s]" % (what, sp[0], sp[1], sorted(sp[2])), "post", ob_gridfunction, "tetra", sp, what)
        for vec in (True, False):
            run.add("GridFunction.projections(%s)[tetra %s%d%s]" % ("vectorised" if vec else "pointwise", sp[0], sp[1], sorted(sp[2])), "post", ob_projection, "tetra", sp, vec)
    for fs, ts, rs in ((P1B, P1B, P1B), (DP0, DP1, P1B), (P1B, ("P", 1, {"segments": [2], "include_boundary_dofs": True}), ("DP", 1, {"segments": [2]}))):
        run.add("MultiplicationOperator[screen2 g:%s%d test:%s%d%s trial:%s%d%s]" % (fs[0], fs[1], ts[0], ts[1], sorted(ts[2]), rs[0], rs[1], sorted(rs[2])), "post",
                ob_multiplication, "screen2", fs, ts, rs)
    run.add("MultiplicationOperator(inner)[tetra g:RWG test:DP0 trial:RWG]", "post", ob_multiplication, "tetra", RWGB, DP0, RWGB, "inner")
    for g in ("octa", "screen2") + (("cube12", "screen3") if thorough else ()):
        run.add("exactness.orders1-20[%s]" % g, "bounded", ob_exactness, g)
    run.add("callables+roundtrip[octa, JIT off]", "bounded", ob_function_roundtrip, "octa", False)
    run.add("gridfunction-helpers.numeric[octa, whole grid + segments, real + complex]", "bounded", ob_gridfunction_numeric, "octa")
    run.add("GridFunction.projections(other space of the same kind and size)", "bounded", ob_projection_other_space)
    run.bound("symbolic contracts: tetrahedron / 2x2 screen, 2 generic quadrature points")
    run.bound("exactness: zoo grids, all 20 orders; callable flavours with NUMBA_DISABLE_JIT=1 (jit/objmode wrappers are identity then); thorough tier runs them with JIT on")
    run.assume("scipy coo_matrix sums duplicates; sparse products are matrix products")
    run.assume("C12: triangle rule of order n integrates degree <= n exactly (proved there) -- needed to pass from 'equals the quadrature sum' to 'exact'")
    return run.finish()


if __name__ == "__main__":
    sys.exit(main())
