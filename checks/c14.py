"""C14 operator, grid-function and potential algebra is coherent (DESIGN 3, C14).

Method: the real algebra classes are executed on *generic matrices*: every leaf operator wraps a small matrix whose entries are
independent complex symbols (a + I b), vectors and grid-function coefficients are symbolic too, the inverse mass matrix is a
contract stub (a generic matrix per (range, dual) pair).  Every expression tree up to the stated depth is evaluated by the real
classes and by a reference semantics on plain object arrays; equality of all entries as polynomials means the identity holds for
all matrices of those shapes (shapes pairwise distinct so that transposed / swapped operands cannot cancel).
"""

import contextlib
import itertools
import sys
import warnings

import numpy as np

from vlib import sym as S
from vlib import symgrid as SG
from vlib import zoo as Z
from vlib.objnp import patched
from vlib.framework import Run, proved, violated, undecided, held

SCALARS = [("int", 2), ("float", -1.5), ("complex", 0.5 + 2j), ("np.float64", np.float64(3.0)), ("np.float32", np.float32(0.5)),
           ("np.complex128", np.complex128(1 - 1j)), ("np.int64", np.int64(3))]


def symmat(name, shape, cplx=True):
    out = np.empty(shape, dtype=object)
    for idx in np.ndindex(*shape):
        tag = name + "".join("_%d" % i for i in idx)
        out[idx] = S.var(tag + "r") + (S.I() * S.var(tag + "i") if cplx else 0)
    return out


def same(a, b):
    a = np.asarray(a, dtype=object)
    b = np.asarray(b, dtype=object)
    if a.shape != b.shape:
        return "shape %s vs %s" % (a.shape, b.shape)
    for idx in np.ndindex(*a.shape):
        x, y = a[idx], b[idx]
        if isinstance(x, np.ndarray):
            x = x.item()
        if not S.is_zero(S.Sym._coerce(x) - S.Sym._coerce(y)):
            return "entry %s: %s vs %s" % (list(idx), x, y)
    return None


def cconj(a):
    out = np.empty(np.shape(a), dtype=object)
    for idx in np.ndindex(*np.shape(a)):
        out[idx] = S.conj(S.Sym._coerce(np.asarray(a, dtype=object)[idx]))
    return out


@contextlib.contextmanager
def object_algebra():
    """combined_type accepts object; allocation dtypes in the blocked operators dropped; complex-object test via Sym.conj."""
    from bempp_cl.api.utils import data_types as DT
    from bempp_cl.api.assembly import blocked_operator as BL

    saved = DT.combined_type
    DT.combined_type = lambda a, b: np.dtype(object) if (np.dtype(a) == object or np.dtype(b) == object) else saved(a, b)
    try:
        with patched(BL):
            yield
    finally:
        DT.combined_type = saved


# ---------------------------------------------------------------------------------------------------------
# discrete operators
# ---------------------------------------------------------------------------------------------------------


class _Evaluator:
    def __init__(self, mat):
        self.mat = mat
        self.dtype = np.dtype(object)
        self.shape = mat.shape

    def matvec(self, x):
        return self.mat @ x


def discrete_leaves():
    """name -> (real discrete operator, reference matrix). Shapes: A,B: 2x3, C: 3x2, D: 2x2, diag 3x3, rank-one 2x3, zero 2x3, generic 3x2."""
    from bempp_cl.api.assembly import discrete_boundary_operator as D

    A, B, C, Dm = symmat("A", (2, 3)), symmat("B", (2, 3)), symmat("C", (3, 2)), symmat("D", (2, 2))
    dv = symmat("d", (3,))
    col, row = symmat("u", (2,)), symmat("w", (3,))
    G = symmat("G", (3, 2))
    out = {
        "A": (D.DenseDiscreteBoundaryOperator(A), A), "B": (D.DenseDiscreteBoundaryOperator(B), B), "C": (D.DenseDiscreteBoundaryOperator(C), C),
        "D": (D.DenseDiscreteBoundaryOperator(Dm), Dm), "diag": (D.DiagonalOperator(dv), np.diag(dv)),
        "generic": (D.GenericDiscreteBoundaryOperator(_Evaluator(G)), G),
    }
    r1 = D.DiscreteRankOneOperator(col, row)
    r1.dtype = np.dtype(object)
    out["rank1"] = (r1, np.outer(col, row))
    return out


def _apply_unary(kind, op, ref, scalar=None):
    if kind == "neg":
        return -op, -ref
    if kind == "T":
        return op.T, ref.T
    if kind == "H":
        return op.H, cconj(ref).T
    if kind == "lscale":
        return scalar * op, ref * S.Sym.const(complex(scalar) if np.iscomplexobj(scalar) else float(scalar))
    if kind == "rscale":
        return op * scalar, ref * S.Sym.const(complex(scalar) if np.iscomplexobj(scalar) else float(scalar))
    raise KeyError(kind)


def _apply_binary(kind, op1, ref1, op2, ref2):
    if kind == "add":
        return op1 + op2, ref1 + ref2
    if kind == "sub":
        return op1 - op2, ref1 - ref2
    if kind == "mul":
        return op1 * op2, ref1 @ ref2
    if kind == "matmul":
        return op1 @ op2, ref1 @ ref2
    raise KeyError(kind)


def _check_discrete(op, ref, label):
    """to_dense, matvec, matmat all agree with the reference matrix."""
    x = symmat("x", (ref.shape[1],))
    X = symmat("X", (ref.shape[1], 2))
    bad = same(op @ np.eye(ref.shape[1], dtype=object), ref) if not hasattr(op, "to_dense") else None
    try:
        dense = op.to_dense()
        bad = same(dense, ref)
        if bad:
            return "%s: to_dense: %s" % (label, bad)
    except NotImplementedError:
        pass
    bad = same(op.matvec(x), ref @ x)
    if bad:
        return "%s: matvec: %s" % (label, bad)
    bad = same(op.matmat(X), ref @ X)
    if bad:
        return "%s: matmat: %s" % (label, bad)
    bad = same(op @ x, ref @ x) or same(op.dot(X), ref @ X)
    if bad:
        return "%s: @ / dot: %s" % (label, bad)
    return None


def ob_discrete_algebra(depth2):
    """post: for every well-shaped expression tree (depth <= 2) over the discrete leaf operators and every scalar kind:
    to_dense(), matvec, matmat, @ and dot agree with the matrix expression; ill-shaped sums/products raise ValueError."""
    S.reset()
    with object_algebra():
        leaves = discrete_leaves()
        level1 = dict(leaves)
        n = 0
        unary = [("neg", None), ("T", None), ("H", None)] + [("lscale", s) for _, s in SCALARS] + [("rscale", s) for _, s in SCALARS[:3]]
        for name, (op, ref) in leaves.items():
            bad = _check_discrete(op, ref, name)
            if bad:
                return violated(bad, signature="discrete/leaf/" + name, replay={"confirmed": False})
            n += 1
            for kind, s in unary:
                if kind in ("T", "H") and name in ("generic",):
                    continue  # GenericDiscreteBoundaryOperator has no transpose (documented)
                try:
                    o2, r2 = _apply_unary(kind, op, ref, s)
                except Exception as e:  # noqa
                    return violated("%s(%s) raises %s: %s" % (kind, name, type(e).__name__, e), signature="discrete/unary/%s/%s" % (kind, name), replay={"confirmed": False})
                lab = "%s(%s%s)" % (kind, name, "" if s is None else ", %r" % (s,))
                bad = _check_discrete(o2, r2, lab)
                if bad:
                    return violated(bad, signature="discrete/unary/%s/%s" % (kind, name), replay={"confirmed": False})
                n += 1
                if s is None or kind == "lscale" and s == 2:
                    level1[lab] = (o2, r2)
        pool = level1 if depth2 else leaves
        items = list(pool.items())
        for (n1, (o1, r1)), (n2, (o2, r2)) in itertools.product(items, items):
            for kind in ("add", "sub", "mul", "matmul"):
                shape_ok = (r1.shape == r2.shape) if kind in ("add", "sub") else (r1.shape[1] == r2.shape[0])
                lab = "%s %s %s" % (n1, kind, n2)
                try:
                    o3, r3 = _apply_binary(kind, o1, r1, o2, r2) if shape_ok else (_apply_binary(kind, o1, r1, o2, r1)[0], None)
                except ValueError:
                    if shape_ok:
                        return violated("%s raises ValueError for compatible shapes %s %s" % (lab, r1.shape, r2.shape), signature="discrete/binary/" + kind, replay={"confirmed": False})
                    n += 1
                    continue
                except Exception as e:  # noqa
                    if shape_ok:
                        return violated("%s raises %s: %s" % (lab, type(e).__name__, e), signature="discrete/binary/" + kind, replay={"confirmed": False})
                    n += 1
                    continue
                if not shape_ok:
                    return violated("%s with incompatible shapes %s and %s is accepted (no error)" % (lab, r1.shape, r2.shape), signature="discrete/reject/" + kind,
                                    replay={"confirmed": False})
                bad = _check_discrete(o3, r3, lab)
                if bad:
                    return violated(bad, signature="discrete/binary/" + kind, replay={"confirmed": False})
                n += 1
    return proved("sym-exec+normal-form", "%d expressions / rejections" % n)


# ---------------------------------------------------------------------------------------------------------
# boundary operators, grid functions, blocked operators, potential operators
# ---------------------------------------------------------------------------------------------------------


def _spaces():
    import bempp_cl.api as api

    g = SG.make_grid(*SG.two_triangles())
    g2 = SG.make_grid(*SG.fan3())
    sp = {"P": api.function_space(g, "P", 1, include_boundary_dofs=True), "D0": api.function_space(g, "DP", 0), "D1": api.function_space(g, "DP", 1),
          "X": api.function_space(g2, "DP", 0)}
    return sp


def _mkop(name, dom, ran, dual, cache):
    from bempp_cl.api.assembly.boundary_operator import BoundaryOperator
    from bempp_cl.api.assembly.discrete_boundary_operator import DenseDiscreteBoundaryOperator

    mat = symmat(name, (dual.global_dof_count, dom.global_dof_count), cplx=False)

    class SymOp(BoundaryOperator):
        def _assemble(self):
            return DenseDiscreteBoundaryOperator(mat)

    op = SymOp(dom, ran, dual, None)
    cache[id(op)] = mat
    return op, mat


@contextlib.contextmanager
def stub_mass_inverse(store):
    from bempp_cl.api.utils import helpers
    from bempp_cl.api.assembly.discrete_boundary_operator import DenseDiscreteBoundaryOperator

    saved = (helpers.get_inverse_mass_matrix, helpers.get_mass_matrix)

    def inv(domain, dual):
        key = (domain.id, dual.id)
        if key not in store:
            store[key] = symmat("Minv%d" % len(store), (domain.global_dof_count, dual.global_dof_count), cplx=False)
        return DenseDiscreteBoundaryOperator(store[key])

    def mass(domain, dual):
        key = ("M", domain.id, dual.id)
        if key not in store:
            store[key] = symmat("M%d" % len(store), (dual.global_dof_count, domain.global_dof_count), cplx=False)
        return DenseDiscreteBoundaryOperator(store[key])

    helpers.get_inverse_mass_matrix, helpers.get_mass_matrix = inv, mass
    try:
        yield
    finally:
        helpers.get_inverse_mass_matrix, helpers.get_mass_matrix = saved


def ob_boundary_algebra():
    """post: weak(a+b) = weak a + weak b; weak(alpha a) = alpha weak a; weak(-a); weak(a-b); weak(a*b) = weak a . Minv(range_b, dual_b) . weak b;
    strong(a) = Minv(range, dual) weak(a); repeated weak_form() returns the same object; (a * f).projections(dual) = weak(a) f.coefficients in
    (range, dual); depth-2 trees; rejections: incompatible spaces in +, *, operator * function raise ValueError; operator + scalar raises."""
    import bempp_cl.api as api

    S.reset()
    store, cache = {}, {}
    sp = _spaces()
    with object_algebra(), stub_mass_inverse(store):
        a, Am = _mkop("a", sp["P"], sp["D1"], sp["D0"], cache)       # P -> D1, tested with D0: 3 x 5
        a2, A2m = _mkop("a2", sp["P"], sp["D1"], sp["D0"], cache)
        b, Bm = _mkop("b", sp["D1"], sp["P"], sp["P"], cache)        # D1 -> P: 4 x 6
        c, Cm = _mkop("c", sp["P"], sp["P"], sp["P"], cache)         # P -> P: 4 x 4
        other, _ = _mkop("o", sp["X"], sp["X"], sp["X"], cache)
        n = 0

        def minv(ran, dual):
            key = (ran.id, dual.id)
            if key not in store:
                api.utils.helpers.get_inverse_mass_matrix(ran, dual)
            return store[key]

        def chk(op, ref, lab, spaces=None):
            nonlocal n
            w = op.weak_form()
            if op.weak_form() is not w:
                return "%s: repeated weak_form() returns a different object" % lab
            bad = same(w.to_dense(), ref)
            if bad:
                return "%s: weak form: %s" % (lab, bad)
            bad = same(op.strong_form().to_dense(), minv(op.range, op.dual_to_range) @ ref)
            if bad:
                return "%s: strong form: %s" % (lab, bad)
            if spaces is not None and not (op.domain is spaces[0] and op.range is spaces[1] and op.dual_to_range is spaces[2]):
                return "%s: result spaces are not (domain, range, dual) = expected" % lab
            n += 1
            return None

        tests = [(a + a2, Am + A2m, "a+a2", (sp["P"], sp["D1"], sp["D0"])), (a - a2, Am - A2m, "a-a2", None), (-a, -Am, "-a", None),
                 (a * b, Am @ minv(sp["P"], sp["P"]) @ Bm, "a*b", (sp["D1"], sp["D1"], sp["D0"])), (a @ c, Am @ minv(sp["P"], sp["P"]) @ Cm, "a@c", None),
                 ((a + a2) * c, (Am + A2m) @ minv(sp["P"], sp["P"]) @ Cm, "(a+a2)*c", None), (a * (c * c), Am @ minv(sp["P"], sp["P"]) @ (Cm @ minv(sp["P"], sp["P"]) @ Cm), "a*(c*c)", None),
                 ((a * c) * c, (Am @ minv(sp["P"], sp["P"]) @ Cm) @ minv(sp["P"], sp["P"]) @ Cm, "(a*c)*c", None),
                 (c * b - b, Cm @ minv(sp["P"], sp["P"]) @ Bm - Bm, "c*b-b", None), (-(a - a2) + a, -(Am - A2m) + Am, "-(a-a2)+a", None)]
        for name, s in SCALARS:
            sc = S.Sym.const(complex(s) if np.iscomplexobj(s) else float(s))
            tests.append((s * a, Am * sc, "%s*a" % name, (sp["P"], sp["D1"], sp["D0"])))
            tests.append((a * s, Am * sc, "a*%s" % name, None))
            tests.append(((s * a) * c, (Am * sc) @ minv(sp["P"], sp["P"]) @ Cm, "(%s*a)*c" % name, None))
        for op, ref, lab, spaces in tests:
            bad = chk(op, ref, lab, spaces)
            if bad:
                return violated(bad, signature="boundary/" + lab, replay={"confirmed": False})
        # operator * grid function
        fc = symmat("f", (sp["P"].global_dof_count,))
        f = api.GridFunction(sp["P"], coefficients=fc)
        for op, ref, lab in ((a, Am, "a"), (a + a2, Am + A2m, "a+a2"), (a * c, Am @ minv(sp["P"], sp["P"]) @ Cm, "a*c"), (2.5 * a, Am * S.Sym.const(2.5), "2.5a")):
            g = op * f
            bad = same(g.projections(), ref @ fc)
            if bad or g.space is not sp["D1"] or g.dual_space is not sp["D0"]:
                return violated("(%s) * f: projections / spaces wrong: %s" % (lab, bad), signature="boundary/apply/" + lab, replay={"confirmed": False})
            n += 1
        # rejections
        # operands that differ in exactly ONE of the three spaces (each compatibility test is exercised on its own)
        a_ran, _ = _mkop("a_ran", sp["P"], sp["P"], sp["D0"], cache)      # like a, other range
        a_dom, _ = _mkop("a_dom", sp["D1"], sp["D1"], sp["D0"], cache)    # like a, other domain
        a_dual, _ = _mkop("a_dual", sp["P"], sp["D1"], sp["P"], cache)    # like a, other dual_to_range
        rejects = [("a + b (different spaces)", lambda: a + b), ("a * a (range of second != domain of first)", lambda: a * a), ("a + other grid", lambda: a + other),
                   ("b * f (f not in the domain)", lambda: b * f), ("a + 3", lambda: a + 3), ("other * a", lambda: other * a),
                   ("a + a' (only the range differs)", lambda: a + a_ran), ("a' + a (only the range differs)", lambda: a_ran + a), ("a - a' (only the range differs)", lambda: a - a_ran),
                   ("a + 2 a' (only the range differs)", lambda: a + 2.0 * a_ran),
                   ("a + a' (only the domain differs)", lambda: a + a_dom), ("a + a' (only dual_to_range differs)", lambda: a + a_dual)]
        for lab, thunk in rejects:
            try:
                r = thunk()
            except (ValueError, TypeError, AttributeError):
                n += 1
                continue
            rp = replay_boundary_reject()
            return violated("ill-typed combination `%s` is accepted and returns %r" % (lab, type(r).__name__), signature="boundary/reject/" + lab,
                            replay={"callable": "checks.c14:replay_boundary_reject", "kwargs": {}, "confirmed": rp["violates"], "result": rp})
    return proved("sym-exec+normal-form", "%d expressions / rejections" % n)


def replay_boundary_reject():
    """Native: sums of Laplace operators that differ in exactly one space must raise."""
    import bempp_cl.api as api
    from bempp_cl.api.operators.boundary import laplace

    warnings.simplefilter("ignore")
    g = SG.make_grid(*SG.octa())
    p1, dp0 = api.function_space(g, "P", 1), api.function_space(g, "DP", 0)
    par = Z.params(2, 2)
    base = laplace.single_layer(dp0, p1, dp0, parameters=par)
    accepted = []
    for lab, other in (("range", laplace.single_layer(dp0, dp0, dp0, parameters=par)), ("domain", laplace.single_layer(p1, p1, dp0, parameters=par)),
                       ("dual_to_range", laplace.single_layer(dp0, p1, p1, parameters=par))):
        for expr, thunk in (("a + b", lambda: base + other), ("b + a", lambda: other + base), ("a - b", lambda: base - other)):
            try:
                thunk()
            except (ValueError, TypeError, AttributeError):
                continue
            accepted.append("%s with different %s" % (expr, lab))
    return {"violates": bool(accepted), "accepted": accepted}


def ob_gridfunction_algebra():
    """post: (f+g), (f-g), -f, alpha f, f alpha, f/alpha have coefficients f.c + g.c etc. (primal) resp. projections (dual representation);
    different spaces are rejected with ValueError."""
    import bempp_cl.api as api

    S.reset()
    sp = _spaces()
    store = {}
    n = 0
    with object_algebra(), stub_mass_inverse(store):
        fc, gc = symmat("f", (sp["P"].global_dof_count,)), symmat("g", (sp["P"].global_dof_count,))
        f = api.GridFunction(sp["P"], coefficients=fc)
        g = api.GridFunction(sp["P"], coefficients=gc)
        h = api.GridFunction(sp["D0"], coefficients=symmat("h", (sp["D0"].global_dof_count,)))
        cases = [(f + g, fc + gc, "f+g"), (f - g, fc - gc, "f-g"), (-f, -fc, "-f")]
        for name, s in SCALARS:
            sc = S.Sym.const(complex(s) if np.iscomplexobj(s) else float(s))
            cases += [(s * f, fc * sc, "%s*f" % name), (f * s, fc * sc, "f*%s" % name), (f / s, fc / sc, "f/%s" % name)]
        for obj, ref, lab in cases:
            bad = same(obj.coefficients, ref)
            if bad or obj.space is not sp["P"]:
                return violated("%s: coefficients: %s" % (lab, bad), signature="gridfunction/" + lab, replay={"confirmed": False})
            n += 1
        pf, pg = symmat("pf", (sp["D0"].global_dof_count,)), symmat("pg", (sp["D0"].global_dof_count,))
        df = api.GridFunction(sp["D1"], dual_space=sp["D0"], projections=pf)
        dg = api.GridFunction(sp["D1"], dual_space=sp["D0"], projections=pg)
        for obj, ref, lab in ((df + dg, pf + pg, "dual f+g"), (2.0 * df, pf * 2, "2*dual f"), (df - dg, pf - pg, "dual f-g")):
            bad = same(obj.projections(), ref)
            if bad:
                return violated("%s: projections: %s" % (lab, bad), signature="gridfunction/" + lab, replay={"confirmed": False})
            n += 1
        for lab, thunk in (("f + h (different spaces)", lambda: f + h), ("f - h", lambda: f - h)):
            try:
                thunk()
            except ValueError:
                n += 1
                continue
            return violated("`%s` is accepted" % lab, signature="gridfunction/reject", replay={"confirmed": False})
    return proved("sym-exec+normal-form", "%d expressions / rejections" % n)


def ob_blocked_algebra():
    """post: BlockedOperator / GeneralizedBlockedOperator weak forms are the block matrices of the component weak forms (None = zero block);
    sums, scalar multiples, negation, products (weak . blockdiag(Minv) . weak); strong form; A * [f0, f1] returns grid functions whose
    projections are the row blocks of weak(A) [f0.c; f1.c] in (range_i, dual_i); BlockedDiscreteOperator matvec / matmat / to_dense;
    pack/unpack helpers; rejections."""
    import bempp_cl.api as api
    from bempp_cl.api.assembly import blocked_operator as BL

    S.reset()
    store, cache = {}, {}
    sp = _spaces()
    n = 0
    with object_algebra(), stub_mass_inverse(store):
        P, D0, D1 = sp["P"], sp["D0"], sp["D1"]
        # rows: (range, dual) = (D1, D0) and (P, P); columns: domains P and D1
        a00, A00 = _mkop("a00", P, D1, D0, cache)
        a01, A01 = _mkop("a01", D1, D1, D0, cache)
        a11, A11 = _mkop("a11", D1, P, P, cache)
        b00, B00 = _mkop("b00", P, D1, D0, cache)
        b10, B10 = _mkop("b10", P, P, P, cache)
        b11, B11 = _mkop("b11", D1, P, P, cache)
        A = BL.BlockedOperator(2, 2)
        A[0, 0], A[0, 1], A[1, 1] = a00, a01, a11
        B = BL.BlockedOperator(2, 2)
        B[0, 0], B[1, 0], B[1, 1] = b00, b10, b11
        Z10 = np.zeros((P.global_dof_count, P.global_dof_count), dtype=object)
        Z01 = np.zeros((D0.global_dof_count, D1.global_dof_count), dtype=object)
        Aref = np.block([[A00, A01], [Z10, A11]])
        Bref = np.block([[B00, Z01], [B10, B11]])

        def minv(ran, dual):
            key = (ran.id, dual.id)
            if key not in store:
                api.utils.helpers.get_inverse_mass_matrix(ran, dual)
            return store[key]

        cases = [(A, Aref, "A"), (A + B, Aref + Bref, "A+B"), (A - B, Aref - Bref, "A-B"), (-A, -Aref, "-A"), (2.5 * A, Aref * S.Sym.const(2.5), "2.5*A"),
                 (A * (1 + 2j), Aref * S.Sym.const(1 + 2j), "A*(1+2j)"), (np.float64(3.0) * (A + B), (Aref + Bref) * 3, "np.float64*(A+B)")]
        for op, ref, lab in cases:
            w = op.weak_form()
            bad = same(w.to_dense(), ref)
            if bad or op.weak_form() is not w:
                return violated("blocked %s: weak form: %s" % (lab, bad), signature="blocked/" + lab, replay={"confirmed": False})
            x = symmat("x", (ref.shape[1],))
            X = symmat("X", (ref.shape[1], 2))
            bad = same(w @ x, ref @ x) or same(w @ X, ref @ X)
            if bad:
                return violated("blocked %s: matvec/matmat: %s" % (lab, bad), signature="blocked/mv/" + lab, replay={"confirmed": False})
            n += 1
        # strong form: blockdiag(Minv(range_i, dual_i)) weak
        Mi = np.block([[minv(D1, D0), np.zeros((D1.global_dof_count, P.global_dof_count), dtype=object)],
                       [np.zeros((P.global_dof_count, D0.global_dof_count), dtype=object), minv(P, P)]])
        try:
            bad = same(A.strong_form().to_dense(), Mi @ Aref)
        except Exception as ex:  # noqa  (a well-typed expression must not raise)
            bad = "raises %s: %s" % (type(ex).__name__, str(ex)[:160])
        if bad:
            rp = replay_blocked_strong()
            return violated("blocked strong form (rows with range != dual_to_range) differs from blockdiag(Minv(range_i, dual_i)) weak(A): %s" % bad, signature="blocked/strong",
                            replay={"callable": "checks.c14:replay_blocked_strong", "kwargs": {}, "confirmed": rp["violates"], "result": rp})
        n += 1
        # product needs range(second) == domain(first): C maps (P, D1) -> rows with ranges (P, D1)
        c00, C00 = _mkop("c00", P, P, P, cache)
        c11, C11 = _mkop("c11", D1, D1, D0, cache)
        Cb = BL.BlockedOperator(2, 2)
        Cb[0, 0], Cb[1, 1] = c00, c11
        Cref = np.block([[C00, np.zeros((P.global_dof_count, D1.global_dof_count), dtype=object)],
                         [np.zeros((D0.global_dof_count, P.global_dof_count), dtype=object), C11]])
        MiC = np.block([[minv(P, P), np.zeros((P.global_dof_count, D0.global_dof_count), dtype=object)],
                        [np.zeros((D1.global_dof_count, P.global_dof_count), dtype=object), minv(D1, D0)]])
        prod = A * Cb
        bad = same(prod.weak_form().to_dense(), Aref @ MiC @ Cref)
        if bad:
            return violated("blocked product A*C: %s" % bad, signature="blocked/product", replay={"confirmed": False})
        n += 1
        # apply to a list of grid functions
        f0c, f1c = symmat("f0", (P.global_dof_count,)), symmat("f1", (D1.global_dof_count,))
        fl = [api.GridFunction(P, coefficients=f0c), api.GridFunction(D1, coefficients=f1c)]
        out = A * fl
        full = Aref @ np.concatenate([f0c, f1c])
        exp = [full[: D0.global_dof_count], full[D0.global_dof_count:]]
        for i, (gf, e, ran, dual) in enumerate(zip(out, exp, (D1, P), (D0, P))):
            bad = same(gf.projections(), e)
            if bad or gf.space is not ran or gf.dual_space is not dual:
                return violated("A * [f0, f1]: component %d has projections %s (expected row block %d of weak(A) [f0; f1], %d entries, in (range, dual))"
                                % (i, bad, i, len(e)), witness={"range_dofs": ran.global_dof_count, "dual_dofs": dual.global_dof_count},
                                signature="blocked/apply", replay={"callable": "checks.c14:replay_blocked_apply", "kwargs": {}, "confirmed": replay_blocked_apply()["violates"]})
        n += 1
        # generalized blocked operator
        Gop = BL.GeneralizedBlockedOperator([[a00, a01], [b10, b11]])
        Gref = np.block([[A00, A01], [B10, B11]])
        bad = same(Gop.weak_form().to_dense(), Gref) or same(Gop.weak_form() @ symmat("y", (Gref.shape[1], 1)), Gref @ symmat("y", (Gref.shape[1], 1)))
        if bad:
            return violated("GeneralizedBlockedOperator: %s" % bad, signature="blocked/generalized", replay={"confirmed": False})
        n += 1
        # pack / unpack helpers
        vec = BL.coefficients_from_grid_functions_list(fl)
        bad = same(vec, np.concatenate([f0c, f1c]))
        back = BL.grid_function_list_from_coefficients(vec, [P, D1])
        bad = bad or same(back[0].coefficients, f0c) or same(back[1].coefficients, f1c)
        if bad:
            return violated("coefficient pack/unpack: %s" % bad, signature="blocked/pack", replay={"confirmed": False})
        n += 1
        # rejections
        rejects = [("A + C (different spaces)", lambda: A + Cb), ("B * A (range/domain mismatch)", lambda: B * A), ("A * [f0] (wrong list length)", lambda: A * [fl[0]]),
                   ("A + 3", lambda: A + 3), ("assign incompatible block", lambda: A.__setitem__((1, 0), a00))]
        for lab, thunk in rejects:
            try:
                r = thunk()
            except (ValueError, TypeError):
                n += 1
                continue
            return violated("ill-typed blocked combination `%s` is accepted and returns %r" % (lab, r), witness={"expression": lab}, signature="blocked/reject/" + lab,
                            replay={"callable": "checks.c14:replay_blocked_reject", "kwargs": {}, "confirmed": replay_blocked_reject()["violates"]})
    return proved("sym-exec+normal-form", "%d expressions / rejections" % n)


def replay_blocked_strong():
    """Native: 2x2 blocked Laplace operator whose first row has range DP1 and dual DP0... (range != dual, non-symmetric mixed mass matrix P1 x DP0):
    strong_form() must equal blockdiag(M(range_i, dual_i)^-1) weak_form()."""
    import bempp_cl.api as api
    from bempp_cl.api.operators.boundary import laplace, sparse

    warnings.simplefilter("ignore")
    g = SG.make_grid(*SG.tetra())
    p1, dp0 = api.function_space(g, "P", 1), api.function_space(g, "DP", 0)
    par = Z.params(2, 2)
    # 4 vertices and 4 faces on the tetrahedron: the mixed mass matrix <P1, DP0> is square but not symmetric
    B = api.BlockedOperator(2, 2)
    B[0, 0] = laplace.single_layer(dp0, p1, dp0, parameters=par)
    B[0, 1] = laplace.single_layer(p1, p1, dp0, parameters=par)
    B[1, 1] = laplace.single_layer(p1, dp0, p1, parameters=par)
    try:
        S_ = np.asarray(B.strong_form().to_dense())
    except Exception as ex:  # noqa
        return {"violates": True, "detail": "strong_form raises %s: %s" % (type(ex).__name__, ex)}
    W = np.asarray(B.weak_form().to_dense())
    M0 = np.asarray(sparse.identity(p1, p1, dp0, parameters=par).weak_form().to_dense())      # rows dual dp0, columns range p1
    M1 = np.asarray(sparse.identity(dp0, dp0, p1, parameters=par).weak_form().to_dense())
    Mi = np.block([[np.linalg.inv(M0), np.zeros((4, 4))], [np.zeros((4, 4)), np.linalg.inv(M1)]])
    err = float(np.abs(S_ - Mi @ W).max() / np.abs(Mi @ W).max())
    return {"violates": err > 1e-10, "relative_error": err}


def replay_blocked_apply():
    """Native: 2x2 blocked operator with range P1 (dofs = vertices) and dual DP0 of different size, applied to two functions."""
    import bempp_cl.api as api
    from bempp_cl.api.operators.boundary import laplace

    warnings.simplefilter("ignore")
    g = SG.make_grid(*SG.octa())
    p1, dp0 = api.function_space(g, "P", 1), api.function_space(g, "DP", 0)
    par = Z.params(2, 2)
    A = api.BlockedOperator(2, 2)
    A[0, 0] = laplace.single_layer(dp0, p1, dp0, parameters=par)      # range P1 (6 dofs), dual DP0 (8 dofs)
    A[1, 1] = laplace.single_layer(dp0, dp0, dp0, parameters=par)
    f = [api.GridFunction(dp0, coefficients=np.arange(1.0, 9.0)), api.GridFunction(dp0, coefficients=np.ones(8))]
    try:
        out = A * f
        want = A[0, 0].weak_form() @ f[0].coefficients
        got = out[0].projections(dp0)
        ok = len(got) == len(want) and np.allclose(got, want)
        return {"violates": not ok, "observed_len": len(got), "required_len": len(want)}
    except Exception as e:  # noqa
        return {"violates": True, "observed": "%s: %s" % (type(e).__name__, e)}


def replay_blocked_reject():
    import bempp_cl.api as api
    from bempp_cl.api.operators.boundary import laplace

    g = SG.make_grid(*SG.octa())
    dp0 = api.function_space(g, "DP", 0)
    A = api.BlockedOperator(1, 1)
    A[0, 0] = laplace.single_layer(dp0, dp0, dp0)
    try:
        r = A + 3
        return {"violates": True, "observed": "A + 3 returns %r" % (r,)}
    except (TypeError, ValueError):
        return {"violates": False}


class _PotEval:
    def __init__(self, mat, space, points, dim=1):
        self.mat, self.space, self.points, self.kernel_dimension = mat, space, points, dim

    def evaluate(self, coeffs):
        return (self.mat @ coeffs).reshape(self.kernel_dimension, -1)


def ob_potential_algebra():
    """post: (p+q).evaluate(f) = p.evaluate(f)+q.evaluate(f); (alpha p), (p alpha), -p, p-q likewise; p * f = p.evaluate(f); space, component_count and
    evaluation_points of composite operators are those of the operands; operators with different points / spaces / component counts are
    rejected with ValueError."""
    import bempp_cl.api as api
    from bempp_cl.api.assembly.potential_operator import PotentialOperator

    S.reset()
    sp = _spaces()
    P = sp["P"]
    n = 0
    pts = np.array([[0.0, 1.0], [2.0, 0.5], [1.0, 3.0]])
    Pm, Qm = symmat("p", (2, P.global_dof_count)), symmat("q", (2, P.global_dof_count))
    p, q = PotentialOperator(_PotEval(Pm, P, pts)), PotentialOperator(_PotEval(Qm, P, pts))
    fc = symmat("f", (P.global_dof_count,))
    f = api.GridFunction(P, coefficients=fc)
    try:
        cases = [(p + q, (Pm + Qm) @ fc, "p+q"), (p - q, (Pm - Qm) @ fc, "p-q"), (-p, -(Pm @ fc), "-p"), ((p + q) + p, (Pm + Qm + Pm) @ fc, "(p+q)+p"),
                 (2.0 * (p + q), (Pm + Qm) @ fc * 2, "2*(p+q)"), ((2.0 * p) + q, (Pm * 2 + Qm) @ fc, "(2p)+q"),
                 # an already scaled operator scaled again, negated, subtracted: the factors multiply
                 ((2.5 * p) * 3.0, Pm @ fc * 7.5, "(2.5p)*3"), (3.0 * (2.5 * p), Pm @ fc * 7.5, "3*(2.5p)"), (-(2.5 * p), Pm @ fc * (-2.5), "-(2.5p)"),
                 (q - 2.5 * p, (Qm - Pm * 2.5) @ fc, "q-2.5p"), (-(p * 2.0) * 0.5, -(Pm @ fc), "-(p*2)*0.5")]
        for name, s in SCALARS:
            sc = S.Sym.const(complex(s) if np.iscomplexobj(s) else float(s))
            cases += [(s * p, Pm @ fc * sc, "%s*p" % name), (p * s, Pm @ fc * sc, "p*%s" % name)]
        for op, ref, lab in cases:
            bad = same(op.evaluate(f), np.asarray(ref).reshape(1, -1)) or same(op * f, np.asarray(ref).reshape(1, -1))
            if bad:
                rp = replay_potential_composites()
                return violated("potential %s: %s%s" % (lab, bad, ("; native replay with Laplace potentials on the octahedron: %s" % rp["failing"][:3]) if rp["violates"] else ""),
                                signature="potential/" + lab, witness={"expression": lab},
                                replay={"callable": "checks.c14:replay_potential_composites", "kwargs": {}, "confirmed": rp["violates"], "result": rp})
            if op.space is not P or op.component_count != 1 or not np.array_equal(op.evaluation_points, pts):
                return violated("potential %s: space/component_count/evaluation_points are not those of the operands" % lab, signature="potential/attrs/" + lab, replay={"confirmed": False})
            n += 1
    except AttributeError as e:
        rp = replay_potential_sum()
        return violated("documented potential-operator combination raises AttributeError: %s" % e, witness={"expression": "p + q"}, signature="potential/sum-raises",
                        replay={"callable": "checks.c14:replay_potential_sum", "kwargs": {}, "confirmed": rp["violates"], "result": rp})
    other_pts = PotentialOperator(_PotEval(Qm, P, pts + 1.0))
    other_space = PotentialOperator(_PotEval(symmat("r", (2, sp["D0"].global_dof_count)), sp["D0"], pts))
    other_dim = PotentialOperator(_PotEval(symmat("s", (6, P.global_dof_count)), P, pts, 3))
    for lab, o in (("different points", other_pts), ("different space", other_space), ("different component count", other_dim)):
        try:
            p + o
        except ValueError:
            n += 1
            continue
        return violated("sum of potential operators with %s is accepted" % lab, signature="potential/reject/" + lab, replay={"confirmed": False})
    return proved("sym-exec+normal-form", "%d expressions / rejections" % n)


def replay_equal_size_segments():
    """Native: spaces of the same kind on DIFFERENT parts of one grid with equally many elements (and dofs) are different spaces: sums, products, operator * function,
    function sums and projections across them must be rejected (ValueError), not evaluated."""
    import bempp_cl.api as api
    from bempp_cl.api.operators.boundary import laplace

    warnings.simplefilter("ignore")
    g = SG.make_grid(*SG.octa())
    par = Z.params(2, 2)
    accepted = []
    for kind, deg in (("DP", 0), ("DP", 1)):
        a = api.function_space(g, kind, deg, support_elements=[0, 1, 2, 3])
        b = api.function_space(g, kind, deg, support_elements=[4, 5, 6, 7])
        if a == b or a.is_compatible(b):
            accepted.append("%s%d spaces on elements 0-3 and on elements 4-7 compare equal / compatible" % (kind, deg))
        Va, Vb = laplace.single_layer(a, a, a, parameters=par), laplace.single_layer(b, b, b, parameters=par)
        fa = api.GridFunction(a, coefficients=np.arange(1.0, a.global_dof_count + 1))
        fb = api.GridFunction(b, coefficients=np.arange(1.0, b.global_dof_count + 1))
        for lab, thunk in (("V(A) + V(B)", lambda: (Va + Vb).weak_form()), ("V(A) * V(B)", lambda: (Va * Vb).weak_form()), ("V(A) * f(B)", lambda: Va * fb),
                           ("f(A) + f(B)", lambda: fa + fb), ("f(A) - f(B)", lambda: fa - fb)):
            try:
                thunk()
            except (ValueError, TypeError, AttributeError):
                continue
            accepted.append("%s%d: %s is accepted" % (kind, deg, lab))
        # projecting a function of A onto test functions living on B gives zero (disjoint supports), not A's own projections
        try:
            pr = np.asarray(fa.projections(b))
            if np.abs(pr).max() > 1e-14:
                accepted.append("%s%d: f(A).projections(B) is %s instead of zero" % (kind, deg, np.round(pr[:3], 4).tolist()))
        except (ValueError, TypeError):
            pass
    # the same kind of space on two different grids with identical connectivity (a deformed copy): different spaces as well
    v, e = SG.octa()
    g2 = SG.make_grid(np.array([[1.3], [0.7], [1.1]]) * v + np.array([[4.0], [0.0], [0.0]]), e)
    for kind, deg in (("DP", 0), ("P", 1)):
        a, b = api.function_space(g, kind, deg), api.function_space(g2, kind, deg)
        if a == b or a.is_compatible(b):
            accepted.append("%s%d spaces on a grid and on a deformed copy with the same connectivity compare equal / compatible" % (kind, deg))
        Va, Vb = laplace.single_layer(a, a, a, parameters=par), laplace.single_layer(b, b, b, parameters=par)
        try:
            (Va + Vb).weak_form()
            accepted.append("%s%d: V(grid) + V(deformed copy) is accepted" % (kind, deg))
        except (ValueError, TypeError, AttributeError):
            pass
    return {"violates": bool(accepted), "accepted": accepted}


def ob_equal_size_segments():
    """bounded: see replay_equal_size_segments"""
    r = replay_equal_size_segments()
    if r["violates"]:
        return violated("operands on different parts of the grid with equally many elements are treated as compatible: %s" % r["accepted"][:3], witness={"accepted": r["accepted"]},
                        signature="reject/equal-size-segments", replay={"callable": "checks.c14:replay_equal_size_segments", "kwargs": {}, "confirmed": True, "result": r})
    return held("DP0 / DP1 on two disjoint supports of four elements each: all combinations rejected, cross projections zero")


def ob_combined_type():
    """table (exhaustive, finite): for all 16 pairs of the four supported dtypes, given as names or numpy dtypes, combined_type is the smallest dtype
    that represents both exactly: complex iff one of them is complex, with the larger of the two real precisions; other names are rejected with ValueError; check_type
    maps None to the default."""
    from bempp_cl.api.utils.data_types import combined_type, check_type

    names = ["float32", "float64", "complex64", "complex128"]
    prec = {"float32": 32, "float64": 64, "complex64": 32, "complex128": 64}
    for a in names:
        for b in names:
            cplx = a.startswith("complex") or b.startswith("complex")
            p_ = max(prec[a], prec[b])
            want = np.dtype({(False, 32): "float32", (False, 64): "float64", (True, 32): "complex64", (True, 64): "complex128"}[(cplx, p_)])
            for form in (lambda t: t, np.dtype):
                got = combined_type(form(a), form(b))
                if np.dtype(got) != want:
                    return violated("combined_type(%s, %s) = %s, expected %s (a blocked operator mixing these blocks would compute in the wrong precision)" % (a, b, got, want),
                                    witness={"dtype1": a, "dtype2": b}, signature="combined-type/%s/%s" % (a, b),
                                    replay={"callable": "checks.c14:replay_combined_type", "kwargs": {"a": a, "b": b, "want": str(want)}, "confirmed": True})
    for bad in ("int64", "float16", "object", "bool"):
        try:
            combined_type(bad, "float64")
        except ValueError:
            continue
        return violated("combined_type accepts the unsupported dtype %s" % bad, signature="combined-type/reject", replay={"confirmed": True})
    if check_type(None) != np.dtype("float64") or check_type(None, "complex64") != np.dtype("complex64"):
        return violated("check_type(None) does not return the default", signature="check-type/default", replay={"confirmed": True})
    return proved("exhaustive-table", "16 pairs x 2 spellings, 4 rejections, defaults")


def replay_combined_type(a, b, want):
    from bempp_cl.api.utils.data_types import combined_type

    got = np.dtype(combined_type(a, b))
    return {"violates": got != np.dtype(want), "observed": str(got), "required": want}


def ob_potential_native():
    """bounded: composite real potential operators applied in all three forms, see replay_potential_composites"""
    rp = replay_potential_composites()
    if rp["violates"]:
        return violated("composite potential operators act wrongly on a grid function: %s" % rp["failing"][:4], witness={"failing": rp["failing"]}, signature="potential/native",
                        replay={"callable": "checks.c14:replay_potential_composites", "kwargs": {}, "confirmed": True, "result": rp})
    return held("12 composite expressions x 3 application forms")


def replay_potential_composites():
    """Native: sums, differences, scalar multiples and negations of real Laplace potential operators, applied as op.evaluate(f), op * f and op @ f to a complex
    grid function, equal the same combination of the leaf results."""
    import bempp_cl.api as api
    from bempp_cl.api.operators.potential import laplace

    warnings.simplefilter("ignore")
    g = SG.make_grid(*SG.octa())
    sp = api.function_space(g, "P", 1)
    pts = np.array([[2.0, -1.5, 0.3], [0.3, 0.4, 2.2], [0.1, 1.9, -0.7]])
    s_, d_ = laplace.single_layer(sp, pts), laplace.double_layer(sp, pts)
    rng = np.random.RandomState(3)
    f = api.GridFunction(sp, coefficients=rng.randn(sp.global_dof_count) + 1j * rng.randn(sp.global_dof_count))
    vs, vd = s_.evaluate(f), d_.evaluate(f)
    cases = [("s+d", lambda: s_ + d_, vs + vd), ("d-s", lambda: d_ - s_, vd - vs), ("-s", lambda: -s_, -vs), ("2.5*s", lambda: 2.5 * s_, 2.5 * vs), ("s*(1-2j)", lambda: s_ * (1 - 2j), (1 - 2j) * vs),
             ("(s+d)+s", lambda: (s_ + d_) + s_, 2 * vs + vd), ("2*(s+d)", lambda: 2.0 * (s_ + d_), 2 * (vs + vd)), ("-(d-s)", lambda: -(d_ - s_), vs - vd),
             ("(2.5*s)*3", lambda: (2.5 * s_) * 3.0, 7.5 * vs), ("-(2.5*s)", lambda: -(2.5 * s_), -2.5 * vs), ("d-1j*0.7*s", lambda: d_ - 1j * 0.7 * s_, vd - 0.7j * vs),
             ("s*1j*0.7", lambda: s_ * 1j * 0.7, 0.7j * vs)]
    failing = []
    for lab, mk, want in cases:
        try:
            op = mk()
            for form, got in (("evaluate", op.evaluate(f)), ("*", op * f), ("@", op @ f)):
                err = float(np.abs(np.asarray(got) - want).max() / np.abs(want).max())
                if not err < 1e-12:
                    failing.append("(%s) %s f: relative deviation %.2e" % (lab, form, err))
        except Exception as e:  # noqa: a documented combination that raises is a failure as well
            failing.append("(%s): %s: %s" % (lab, type(e).__name__, e))
    return {"violates": bool(failing), "failing": failing}


def replay_potential_sum():
    import bempp_cl.api as api
    from bempp_cl.api.operators.potential import laplace

    warnings.simplefilter("ignore")
    g = SG.make_grid(*SG.octa())
    sp = api.function_space(g, "DP", 0)
    pts = np.array([[2.0], [0.3], [0.1]])
    a, b = laplace.single_layer(sp, pts), laplace.single_layer(sp, pts)
    f = api.GridFunction(sp, coefficients=np.ones(sp.global_dof_count))
    try:
        v = (a + b).evaluate(f)
        w = (2.0 * a + b).evaluate(f)
        ok = np.allclose(v, 2 * a.evaluate(f)) and np.allclose(w, 3 * a.evaluate(f))
        return {"violates": not ok}
    except AttributeError as e:
        return {"violates": True, "observed": "AttributeError: %s" % e}


def ob_numeric_split():
    """bounded: real discrete operators (dense, sparse, inverse-sparse, blocked, scaled/sum/product of them) applied to complex vectors act on
    real and imaginary parts; to_dense agrees with matvec / matmat; sparse classes (scipy-backed) obey the same algebra numerically."""
    import bempp_cl.api as api
    from bempp_cl.api.operators.boundary import laplace, sparse
    from bempp_cl.api.assembly.blocked_operator import BlockedDiscreteOperator

    warnings.simplefilter("ignore")
    g = SG.make_grid(*SG.octa())
    p1, dp0 = api.function_space(g, "P", 1), api.function_space(g, "DP", 0)
    par = Z.params(2, 2)
    V = laplace.single_layer(dp0, dp0, dp0, parameters=par).weak_form()
    M = sparse.identity(dp0, dp0, dp0, parameters=par).weak_form()
    M2 = sparse.identity(p1, p1, dp0, parameters=par).weak_form()
    Mi = api.assembly.discrete_boundary_operator.InverseSparseDiscreteBoundaryOperator(M)
    rng = np.random.RandomState(4)
    worst = 0.0
    ops = {"dense": V, "sparse": M, "inverse-sparse": Mi, "sparse+sparse": M + M, "2.5*sparse": 2.5 * M, "sparse*dense": M * V, "dense*inv": V * Mi,
           "-(sparse)": -M, "sparse.T": M2.T, "dense.T": V.T, "dense.H": V.H, "blocked": BlockedDiscreteOperator([[V, None], [M, V]]), "sum-generic": V + M,
           "(1+2j)*dense": (1 + 2j) * V}
    # single precision: a real float32 operator applied to complex data still acts on real and imaginary parts (tolerance of the type)
    from bempp_cl.api.assembly.discrete_boundary_operator import DenseDiscreteBoundaryOperator

    V32 = laplace.single_layer(dp0, dp0, dp0, parameters=par, precision="single").weak_form()
    M32 = sparse.identity(dp0, dp0, dp0, parameters=par, precision="single").weak_form()
    for name, op in (("dense(single precision)", V32), ("DenseDiscreteBoundaryOperator(float32 array)", DenseDiscreteBoundaryOperator(np.asarray(V.to_dense(), dtype="float32"))),
                     ("sparse(single precision)", M32), ("blocked(single precision)", BlockedDiscreteOperator([[V32, None], [M32, V32]]))):
        D = np.asarray(op.to_dense(), dtype="float64")
        x = rng.randn(op.shape[1]) + 1j * rng.randn(op.shape[1])
        X = rng.randn(op.shape[1], 2) + 1j * rng.randn(op.shape[1], 2)
        e = max(Z.relerr(op @ x, D @ x), Z.relerr(op @ X, D @ X))
        if e > 1e-5:
            return violated("discrete operator %s: matvec / matmat on complex data differs from to_dense by %.2e (imaginary part lost?)" % (name, e), witness={"operator": name},
                            signature="numeric-split/single/" + name, replay={"callable": "checks.c14:replay_numeric_split", "kwargs": {}, "confirmed": True})
    for name, op in ops.items():
        D = np.asarray(op.to_dense())
        x = rng.randn(op.shape[1]) + 1j * rng.randn(op.shape[1])
        X = rng.randn(op.shape[1], 3) + 1j * rng.randn(op.shape[1], 3)
        e = max(Z.relerr(op @ x, D @ x), Z.relerr(op @ X, D @ X), Z.relerr(op @ x.real, D @ x.real))
        worst = max(worst, e)
        if e > 1e-12:
            return violated("discrete operator %s: matvec/matmat on complex data differs from to_dense by %.2e" % (name, e), witness={"operator": name},
                            signature="numeric-split/" + name, replay={"confirmed": True})
    refs = {"sparse+sparse": 2 * M.to_dense(), "2.5*sparse": 2.5 * M.to_dense(), "sparse*dense": M.to_dense() @ V.to_dense(), "-(sparse)": -M.to_dense(),
            "sparse.T": M2.to_dense().T, "sum-generic": V.to_dense() + M.to_dense(), "dense*inv": V.to_dense() @ np.linalg.inv(M.to_dense())}
    for name, ref in refs.items():
        e = Z.relerr(np.asarray(ops[name].to_dense()), np.asarray(ref))
        if e > 1e-12:
            return violated("discrete operator %s differs from the matrix expression by %.2e" % (name, e), signature="numeric-algebra/" + name, replay={"confirmed": True})
    # lists of grid functions with mixed real / complex coefficients: the packing helpers and the application of a (real) blocked operator keep the
    # imaginary parts whatever the position of the complex entries in the list
    from bempp_cl.api.assembly import blocked_operator as BL

    Vb = laplace.single_layer(dp0, dp0, dp0, parameters=par)
    Kb = laplace.single_layer(p1, dp0, dp0, parameters=par)
    blk = BL.BlockedOperator(2, 2)
    blk[0, 0], blk[0, 1], blk[1, 1] = Vb, Kb, laplace.single_layer(p1, p1, p1, parameters=par)
    Wd = np.asarray(blk.weak_form().to_dense())
    c_real = [rng.randn(dp0.global_dof_count), rng.randn(p1.global_dof_count)]
    c_cplx = [rng.randn(dp0.global_dof_count) + 1j * rng.randn(dp0.global_dof_count), rng.randn(p1.global_dof_count) + 1j * rng.randn(p1.global_dof_count)]
    for pattern in ((0, 0), (0, 1), (1, 0), (1, 1)):
        cs = [c_cplx[i] if pattern[i] else c_real[i] for i in range(2)]
        fl = [api.GridFunction(dp0, coefficients=cs[0]), api.GridFunction(p1, coefficients=cs[1])]
        stacked = np.concatenate(cs)
        lab = "[%s]" % ", ".join("complex" if q else "real" for q in pattern)
        vec = BL.coefficients_from_grid_functions_list(fl)
        if Z.relerr(vec, stacked) > 1e-15 and np.abs(vec - stacked).max() > 1e-15:
            return violated("coefficients_from_grid_functions_list(%s) loses data: max deviation %.2e" % (lab, np.abs(vec - stacked).max()), witness={"pattern": lab},
                            signature="numeric-lists/pack-coefficients", replay={"callable": "checks.c14:replay_numeric_split", "kwargs": {}, "confirmed": True})
        pv = BL.projections_from_grid_functions_list(fl, [dp0, p1])
        pref = np.concatenate([fl[0].projections(dp0), fl[1].projections(p1)])
        if np.abs(pv - pref).max() > 1e-14:
            return violated("projections_from_grid_functions_list(%s) loses data: max deviation %.2e" % (lab, np.abs(pv - pref).max()), witness={"pattern": lab},
                            signature="numeric-lists/pack-projections", replay={"callable": "checks.c14:replay_numeric_split", "kwargs": {}, "confirmed": True})
        out = blk * fl
        got = np.concatenate([out[0].projections(), out[1].projections()])
        e = Z.relerr(got, Wd @ stacked)
        if e > 1e-12:
            return violated("blocked operator applied to %s: projections differ from weak_form().to_dense() @ coefficients by %.2e" % (lab, e), witness={"pattern": lab},
                            signature="numeric-lists/apply", replay={"callable": "checks.c14:replay_numeric_split", "kwargs": {}, "confirmed": True})
        back = BL.grid_function_list_from_coefficients(stacked, [dp0, p1])
        if max(np.abs(back[i].coefficients - cs[i]).max() for i in range(2)) > 1e-15:
            return violated("grid_function_list_from_coefficients(%s) does not return the blocks" % lab, signature="numeric-lists/unpack", replay={"confirmed": True})
    return held("%d operators, worst %.1e; mixed real/complex grid-function lists (4 patterns) packed, unpacked and mapped by a blocked operator" % (len(ops), worst))


def replay_inverse_mass():
    """Native contract of the inverse mass matrix behind strong forms and products (InverseSparseDiscreteBoundaryOperator / _Solver): for a square
    matrix M (symmetric or not, any scipy storage the sparse operator accepts, real or complex) the operator applies M^-1 (reference: dense
    numpy.linalg.solve); for a thin matrix the least-squares pseudo-inverse (M^H M)^-1 M^H, for a thick one M^H (M M^H)^-1; and on a pair of
    DIFFERENT spaces with equal dof counts (P1 / DP0 on an irregular tetrahedron: square, non-symmetric mass matrix)
    strong_form == M^-1 W and weak_form(A*B) == W_A M^-1 W_B."""
    import bempp_cl.api as api
    import scipy.sparse as sps
    from bempp_cl.api.operators.boundary import laplace, sparse
    from bempp_cl.api.assembly.discrete_boundary_operator import InverseSparseDiscreteBoundaryOperator, SparseDiscreteBoundaryOperator

    warnings.simplefilter("ignore")
    rng = np.random.RandomState(11)
    problems = []
    for cplx in (False, True):
        for shape in ((5, 5), (6, 4), (4, 6)):
            A = rng.randn(*shape) * (rng.rand(*shape) < 0.7) + (1j * rng.randn(*shape) if cplx else 0)
            A[:min(shape), :min(shape)] += 3 * np.eye(min(shape))
            if shape[0] == shape[1]:
                want = np.linalg.inv(A)
            elif shape[0] > shape[1]:
                want = np.linalg.solve(A.conj().T @ A, A.conj().T)
            else:
                want = A.conj().T @ np.linalg.inv(A @ A.conj().T)
            for fmt in ("csr", "csc", "coo"):
                op = InverseSparseDiscreteBoundaryOperator(SparseDiscreteBoundaryOperator(getattr(sps, fmt + "_matrix")(A)))
                x = rng.randn(shape[0]) + 1j * rng.randn(shape[0])
                X = rng.randn(shape[0], 2)
                e = max(Z.relerr(op @ x, want @ x), Z.relerr(op @ X, want @ X))
                if op.shape != want.shape or e > 1e-11:
                    problems.append("inverse of a %s %s %dx%d matrix: shape %s, deviation %.2e from the dense (pseudo-)inverse" % ("complex" if cplx else "real", fmt, shape[0], shape[1], op.shape, e))
    verts = np.array([[0.0, 1.1, 0.2, 0.3], [0.0, 0.1, 0.9, 0.4], [0.0, -0.1, 0.2, 1.3]])
    els = np.array([[0, 0, 0, 1], [2, 1, 3, 2], [1, 3, 2, 3]], dtype="uint32")
    g = SG.make_grid(verts, els)
    p1, dp0 = api.function_space(g, "P", 1), api.function_space(g, "DP", 0)
    par = Z.params(3, 3)
    M = np.asarray(sparse.identity(p1, p1, dp0, parameters=par).weak_form().to_dense())
    if M.shape == (4, 4) and np.abs(M - M.T).max() > 1e-3:
        B = laplace.single_layer(dp0, p1, dp0, parameters=par)
        Acomp = laplace.single_layer(p1, dp0, dp0, parameters=par)
        WB, WA = np.asarray(B.weak_form().to_dense()), np.asarray(Acomp.weak_form().to_dense())
        e = Z.relerr(np.asarray(B.strong_form().to_dense()), np.linalg.solve(M, WB))
        if e > 1e-11:
            problems.append("strong_form with range P1, dual DP0 on the tetrahedron (square non-symmetric mass matrix): deviation %.2e from M^-1 W" % e)
        e = Z.relerr(np.asarray((Acomp * B).weak_form().to_dense()), WA @ np.linalg.solve(M, WB))
        if e > 1e-11:
            problems.append("weak_form(A*B) with B's range P1, dual DP0: deviation %.2e from W_A M^-1 W_B" % e)
        c = rng.randn(4) + 1j * rng.randn(4)
        e = Z.relerr((B * api.GridFunction(dp0, coefficients=c)).coefficients, np.linalg.solve(M, WB @ c))
        if e > 1e-11:
            problems.append("(B*f).coefficients with B's range P1, dual DP0: deviation %.2e from M^-1 W c" % e)
    else:
        problems.append("vacuous: the P1/DP0 mass matrix of the test tetrahedron is not a square non-symmetric matrix")
    return {"violates": bool(problems), "problems": problems}


def ob_inverse_mass():
    """bounded: see replay_inverse_mass"""
    r = replay_inverse_mass()
    if r["violates"]:
        return violated("inverse mass matrix: %s" % "; ".join(r["problems"][:3]), witness={"problems": r["problems"]}, signature="inverse-mass",
                        replay={"callable": "checks.c14:replay_inverse_mass", "kwargs": {}, "confirmed": True, "result": r})
    return held("square (symmetric / non-symmetric), thin and thick matrices in csr / csc / coo storage, real and complex; strong form, product and operator * function on P1 / DP0 of a tetrahedron")


def replay_numeric_split():
    r = ob_numeric_split()
    return {"violates": r["status"] == "violated", "detail": r["detail"]}


def main():
    run = Run("C14", "proof")
    thorough = run.tier == "thorough"
    run.explanation = __doc__
    from bempp_cl.api.assembly import boundary_operator as BO, discrete_boundary_operator as DO, blocked_operator as BL, potential_operator as PO, grid_function as GF

    for cls in (BO.BoundaryOperator, BO._SumBoundaryOperator, BO._ScaledBoundaryOperator, BO._ProductBoundaryOperator, DO._DiscreteOperatorBase, DO._ScaledDiscreteOperator,
                DO._SumDiscreteOperator, DO._ProductDiscreteOperator, DO.DenseDiscreteBoundaryOperator, DO.DiagonalOperator, DO.GenericDiscreteBoundaryOperator,
                DO.DiscreteRankOneOperator, BL.BlockedOperatorBase, BL.BlockedOperator, BL.GeneralizedBlockedOperator, BL.SumBlockedOperator, BL.ProductBlockedOperator,
                BL.ScaledBlockedOperator, BL.BlockedDiscreteOperator, BL.GeneralizedDiscreteBlockedOperator, PO.PotentialOperator, PO._ScaledPotentialOperator,
                PO._SumPotentialOperator):
        run.under_contract(cls, dropped="numeric dtype promotion (object dtype); inverse mass matrix replaced by a generic-matrix contract stub")
    run.add("discrete-operators.algebra(depth<=%d)" % (2 if thorough else 1), "post", ob_discrete_algebra, thorough)
    run.add("boundary-operators.algebra", "post", ob_boundary_algebra)
    run.add("grid-functions.algebra", "post", ob_gridfunction_algebra)
    run.add("blocked-operators.algebra", "post", ob_blocked_algebra)
    run.add("data_types.combined_type::table", "table", ob_combined_type)
    run.add("rejections.same-kind-spaces-on-different-supports-of-equal-size", "bounded", ob_equal_size_segments)
    run.add("potential-operators.algebra", "post", ob_potential_algebra)
    run.add("potential-operators.algebra::native[octa, Laplace single + double layer, complex density]", "bounded", ob_potential_native)
    run.add("numeric.real-operator-on-complex-vector+sparse-classes", "bounded", ob_numeric_split)
    run.add("inverse-mass-matrix.non-symmetric+rectangular[native; the symbolic algebra above replaces it by its contract]", "bounded", ob_inverse_mass)
    run.bound("generic matrices of shapes 2x3, 3x2, 2x2, 3x3 (discrete, complex entries) and 2x4, 4x6, 4x4 ... (real entries; spaces on a 2-element grid); trees of depth <= 2 "
              "(discrete trees of depth 2 only in the thorough tier); expression trees of any depth follow by structural induction over the constructor contracts")
    run.assume("polynomial identity in the matrix entries for fixed small shapes implies the matrix identity for all shapes (the classes never inspect sizes beyond shape checks)")
    run.assume("scipy LinearOperator dispatch (matvec/matmat/@/.T/.H) works as documented; scipy-sparse-backed classes only in the bounded numeric check")
    return run.finish()


if __name__ == "__main__":
    sys.exit(main())
