"""C15 linear solvers return solutions of the stated system in the right spaces (DESIGN 3, C15).

The scipy solvers are assumed contracts (listed): solve(M, v) returns x with M x = v for invertible M; lu_solve(lu_factor(M), v) likewise;
gmres / cg return (x, info) with ||M x - v|| <= rtol ||v|| when info == 0 and call `callback` once per iteration.  The real solver glue is
executed with those entry points replaced by recording stubs and with generic (symbolic-entry) operator matrices and right-hand sides, so
that "the system handed to scipy is the stated one" is a polynomial identity.
"""

import contextlib
import sys
import warnings

import numpy as np

from vlib import sym as S
from vlib import symgrid as SG
from vlib import zoo as Z
from vlib.framework import Run, proved, violated, undecided, held
from checks.c14 import symmat, same, object_algebra, stub_mass_inverse, _spaces, _mkop


class Rec:
    def __init__(self, ret):
        self.calls = []
        self.ret = ret

    def __call__(self, *a, **k):
        self.calls.append((a, k))
        return self.ret(*a, **k) if callable(self.ret) else self.ret


@contextlib.contextmanager
def scipy_stubs(stubs):
    import scipy.linalg
    import scipy.sparse.linalg

    saved = {}
    for name, fn in stubs.items():
        mod = scipy.linalg if name in ("solve", "lu_solve", "lu_factor") else scipy.sparse.linalg
        saved[name] = (mod, getattr(mod, name))
        setattr(mod, name, fn)
    try:
        yield
    finally:
        for name, (mod, fn) in saved.items():
            setattr(mod, name, fn)


def _dense(op):
    return np.asarray(op.to_dense() if hasattr(op, "to_dense") else op, dtype=object)


def ob_lu_single():
    """post: lu(A, b) calls scipy.linalg.solve(weak(A) as dense matrix, b.projections(A.dual_to_range)) and returns GridFunction(A.domain,
    coefficients = that solution); with b = A * f the right-hand side equals weak(A) f.c, so by scipy's contract the result is f (lemma);
    lu(A, b, lu_factor=compute_lu_factors(A)) calls lu_solve(lu_factor(dense weak(A)), same vector)."""
    import bempp_cl.api as api
    from bempp_cl.api.linalg import lu
    from bempp_cl.api.linalg.direct_solvers import compute_lu_factors

    S.reset()
    store, cache = {}, {}
    sp = _spaces()
    res = []
    with object_algebra(), stub_mass_inverse(store):
        A, W = _mkop("w", sp["P"], sp["D1"], sp["P"], cache)      # domain P (4), range D1, dual P: W is 4x4
        fc = symmat("f", (4,), cplx=False)
        f = api.GridFunction(sp["P"], coefficients=fc)
        b = A * f
        sol = symmat("sol", (4,), cplx=False)
        rec = Rec(sol)
        with scipy_stubs({"solve": rec}):
            out = lu(A, b)
        ok = (len(rec.calls) == 1 and same(rec.calls[0][0][0], W) is None and same(rec.calls[0][0][1], W @ fc) is None and out.space is sp["P"]
              and same(out.coefficients, sol) is None)
        res.append(("lu(A, A*f)", proved("sym-exec+recording-stubs", "solve(weak(A), weak(A) f.c) -> GridFunction(domain)") if ok else
                    violated("lu(A, A*f) hands scipy a system other than (weak(A), weak(A) f.c) or wraps the solution in the wrong space", signature="lu/single",
                             replay={"callable": "checks.c15:replay_numeric", "kwargs": {"which": "lu"}, "confirmed": replay_numeric("lu")["violates"]})))
        # "all right-hand sides": a right-hand side that was inspected before the solve (its coefficients were computed from the projections) is still the same function:
        # the stored projections must be used, not a recomputation from the coefficients (lossy when range and dual_to_range differ)
        b2 = A * f
        try:
            b2.coefficients
            rec1 = Rec(sol)
            with scipy_stubs({"solve": rec1}):
                lu(A, b2)
            ok = len(rec1.calls) == 1 and same(rec1.calls[0][0][1], W @ fc) is None
            res.append(("lu(A, b) after b.coefficients was read", proved("sym-exec+recording-stubs", "same right-hand side weak(A) f.c") if ok else
                        violated("after b.coefficients has been read, lu(A, b) hands scipy a right-hand side other than the projections of b = A*f", signature="lu/inspected-rhs",
                                 replay={"callable": "checks.c15:replay_numeric", "kwargs": {"which": "lu"}, "confirmed": replay_numeric("lu")["violates"]})))
        except Exception as ex:  # noqa
            res.append(("lu(A, b) after b.coefficients was read", undecided("symbolic run not possible: %s: %s" % (type(ex).__name__, str(ex)[:100]))))
        # generic right-hand side given by projections in another dual space: projections(dual_to_range) must be used
        g = api.GridFunction(sp["D1"], dual_space=sp["P"], projections=symmat("g", (4,), cplx=False))
        rec2 = Rec(sol)
        with scipy_stubs({"solve": rec2}):
            lu(A, g)
        ok = len(rec2.calls) == 1 and same(rec2.calls[0][0][1], g.projections(sp["P"])) is None
        res.append(("lu(A, g) uses projections onto dual_to_range", proved("sym-exec+recording-stubs") if ok else violated("lu does not use b.projections(A.dual_to_range)", signature="lu/rhs")))
        # precomputed factors
        token = ("LU-OF", "weak(A)")
        recf = Rec(lambda m: (token, m))
        recs = Rec(sol)
        crashed = None
        try:
            with scipy_stubs({"lu_factor": recf, "lu_solve": recs, "solve": Rec(lambda *a, **k: (_ for _ in ()).throw(AssertionError("solve called although factors were given")))}):
                fac = compute_lu_factors(A)
                out = lu(A, b, lu_factor=fac)
            ok = (len(recf.calls) == 1 and same(recf.calls[0][0][0], W) is None and len(recs.calls) == 1 and recs.calls[0][0][0] is fac
                  and same(recs.calls[0][0][1], W @ fc) is None and same(out.coefficients, sol) is None and out.space is sp["P"])
        except Exception as ex:  # noqa  (the real code manipulates the factors / the right-hand side in a way the recording stubs cannot follow)
            ok, crashed = False, "%s: %s" % (type(ex).__name__, str(ex)[:100])
    if not ok:
        rp = replay_numeric("lu")         # native decision, outside the object-algebra context
        if rp["violates"] or crashed is None:
            res.append(("lu with precomputed factors", violated("precomputed LU path does not solve the same system%s; native: %s" % ("" if crashed is None else " (symbolic run: %s)" % crashed, rp["failing"]),
                                                                 signature="lu/factors", replay={"callable": "checks.c15:replay_numeric", "kwargs": {"which": "lu"}, "confirmed": rp["violates"], "result": rp})))
        else:
            res.append(("lu with precomputed factors", undecided("symbolic run not possible (%s); the native contract holds" % crashed)))
    else:
        res.append(("lu with precomputed factors", proved("sym-exec+recording-stubs", "lu_solve(lu_factor(weak(A)), same rhs)")))
    return res


def ob_lu_blocked():
    """post: blocked lu: rhs = concatenated projections onto the dual_to_range spaces, matrix = dense blocked weak form, solution split by the
    domain spaces' dof counts into grid functions of the domain spaces; with b = A * [f0, f1] the rhs is weak(A) [f0.c; f1.c]."""
    import bempp_cl.api as api
    from bempp_cl.api.linalg import lu
    from bempp_cl.api.assembly import blocked_operator as BL

    S.reset()
    store, cache = {}, {}
    sp = _spaces()
    with object_algebra(), stub_mass_inverse(store):
        P, D0, D1 = sp["P"], sp["D0"], sp["D1"]
        a00, A00 = _mkop("a00", P, D1, D0, cache)    # 2 x 4
        a01, A01 = _mkop("a01", D0, D1, D0, cache)   # 2 x 2
        a10, A10 = _mkop("a10", P, D0, P, cache)     # 4 x 4
        a11, A11 = _mkop("a11", D0, D0, P, cache)    # 4 x 2
        A = BL.BlockedOperator(2, 2)
        A[0, 0], A[0, 1], A[1, 0], A[1, 1] = a00, a01, a10, a11
        Aref = np.block([[A00, A01], [A10, A11]])
        f0c, f1c = symmat("f0", (4,), cplx=False), symmat("f1", (2,), cplx=False)
        fl = [api.GridFunction(P, coefficients=f0c), api.GridFunction(D0, coefficients=f1c)]
        b = A * fl
        sol = symmat("sol", (6,), cplx=False)
        rec = Rec(sol)
        with scipy_stubs({"solve": rec}):
            out = lu(A, b)
        ok = (len(rec.calls) == 1 and same(rec.calls[0][0][0], Aref) is None and same(rec.calls[0][0][1], Aref @ np.concatenate([f0c, f1c])) is None
              and len(out) == 2 and out[0].space is P and out[1].space is D0 and same(out[0].coefficients, sol[:4]) is None and same(out[1].coefficients, sol[4:]) is None)
    if not ok:
        return violated("blocked lu(A, A*[f0,f1]) hands scipy a different system or splits the solution wrongly", signature="lu/blocked",
                        replay={"callable": "checks.c15:replay_numeric", "kwargs": {"which": "lu-blocked"}, "confirmed": replay_numeric("lu-blocked")["violates"]})
    return proved("sym-exec+recording-stubs", "solve(blocked weak(A), weak(A)[f0;f1]); solution split 4+2 into the domain spaces")


def ob_iterative(kind, strong, blocked=False):
    """post: gmres / cg call the scipy routine with (weak form, projections onto dual_to_range) resp. (strong form, coefficients), forward
    rtol=tol, restart, maxiter, pass an IterationCounter as callback, wrap x in the domain space(s) and pass info through; the callback counts
    calls and stores what it receives (gmres) resp. ||rhs - A x|| (cg); outputs ordered (x, info[, residuals][, count])."""
    import bempp_cl.api as api
    from bempp_cl.api.linalg import gmres, cg
    from bempp_cl.api.assembly import blocked_operator as BL

    S.reset()
    store, cache = {}, {}
    sp = _spaces()
    with object_algebra(), stub_mass_inverse(store):
        P, D0, D1 = sp["P"], sp["D0"], sp["D1"]
        if blocked:
            a00, A00 = _mkop("a00", P, P, P, cache)
            a11, A11 = _mkop("a11", D0, D0, D0, cache)
            a01, A01 = _mkop("a01", D0, P, P, cache)
            A = BL.BlockedOperator(2, 2)
            A[0, 0], A[0, 1], A[1, 1] = a00, a01, a11
            W = np.block([[A00, A01], [np.zeros((2, 4), dtype=object), A11]])
            bc = [symmat("b0", (4,), cplx=False), symmat("b1", (2,), cplx=False)]
            b = [api.GridFunction(P, coefficients=bc[0]), api.GridFunction(D0, coefficients=bc[1])]
            n = 6
            Minv = np.block([[store.get((P.id, P.id)) if (P.id, P.id) in store else api.utils.helpers.get_inverse_mass_matrix(P, P).to_dense(), np.zeros((4, 2), dtype=object)],
                             [np.zeros((2, 4), dtype=object), api.utils.helpers.get_inverse_mass_matrix(D0, D0).to_dense()]])
            Mass = [api.utils.helpers.get_mass_matrix(P, P).to_dense(), api.utils.helpers.get_mass_matrix(D0, D0).to_dense()]
            rhs_weak = np.concatenate([Mass[0] @ bc[0], Mass[1] @ bc[1]])
            rhs_strong = np.concatenate(bc)
            domains = [P, D0]
        else:
            A, W = _mkop("w", P, P, P, cache)
            bcv = symmat("b", (4,), cplx=False)
            b = api.GridFunction(P, coefficients=bcv)
            n = 4
            Minv = api.utils.helpers.get_inverse_mass_matrix(P, P).to_dense()
            rhs_weak = api.utils.helpers.get_mass_matrix(P, P).to_dense() @ bcv
            rhs_strong = bcv
            domains = [P]
        x = symmat("x", (n,), cplx=False)
        seen = []

        def fake(A_op, b_vec, **kw):
            cb = kw["callback"]
            it1, it2 = symmat("it1", (n,), cplx=False), symmat("it2", (n,), cplx=False)
            if kind == "gmres" and kw.get("callback_type") == "x":
                # scipy's contract: with callback_type='x' the callback runs once per restart cycle with the iterate (and maxiter counts cycles)
                cb(it2)
                seen.extend([it2])
            elif kind == "gmres":
                cb(0.5)
                cb(0.25)
                seen.extend([0.5, 0.25])
            else:
                cb(it1)
                cb(it2)
                seen.extend([it1, it2])
            return x, 7

        rec = Rec(fake)
        kwargs = dict(tol=1e-7, maxiter=33, use_strong_form=strong, return_residuals=True, return_iteration_count=True)
        if kind == "gmres":
            kwargs["restart"] = 11
        real_norm = np.linalg.norm
        with scipy_stubs({kind: rec}):
            np.linalg.norm = lambda v, *a, **k: ("NORM", v) if getattr(np.asarray(v), "dtype", None) == object else real_norm(v, *a, **k)
            try:
                out = (gmres if kind == "gmres" else cg)(A, b, **kwargs)
            finally:
                np.linalg.norm = real_norm
        if len(rec.calls) != 1 or len(out) != 4:
            return violated("%s: scipy routine called %d times / %d outputs" % (kind, len(rec.calls), len(out)), signature="iterative/%s" % kind, replay={"confirmed": False})
        (A_op, b_vec), kw = rec.calls[0]
        want_op = Minv @ W if strong else W
        want_rhs = rhs_strong if strong else rhs_weak
        problems = []
        if same(_dense(A_op), want_op):
            problems.append("operator is not the %s form" % ("strong" if strong else "weak"))
        if same(b_vec, want_rhs):
            problems.append("right-hand side is not the %s" % ("coefficient vector" if strong else "projection onto dual_to_range"))
        if kw.get("rtol") != 1e-7 or kw.get("maxiter") != 33 or (kind == "gmres" and kw.get("restart") != 11):
            problems.append("tol/restart/maxiter not forwarded: %s" % {k: v for k, v in kw.items() if k != "callback"})
        # the outputs requested must not change the call (same options; 2 inner iterations -> count 2 / 2 residuals whatever is returned)
        for rr, rc in ((False, True), (True, False), (False, False)):
            rec2 = Rec(fake)
            kw2 = dict(kwargs, return_residuals=rr, return_iteration_count=rc)
            with scipy_stubs({kind: rec2}):
                np.linalg.norm = lambda v, *a, **k: ("NORM", v) if getattr(np.asarray(v), "dtype", None) == object else real_norm(v, *a, **k)
                try:
                    out2 = (gmres if kind == "gmres" else cg)(A, b, **kw2)
                finally:
                    np.linalg.norm = real_norm
            lab2 = "return_residuals=%s, return_iteration_count=%s" % (rr, rc)
            if len(rec2.calls) != 1 or len(out2) != 2 + rr + rc:
                problems.append("%s: %d calls / %d outputs" % (lab2, len(rec2.calls), len(out2)))
                continue
            okw = {k: v for k, v in rec2.calls[0][1].items() if k != "callback"}
            if okw != {k: v for k, v in kw.items() if k != "callback"}:
                problems.append("%s: options of the scipy call differ from those with both outputs: %s" % (lab2, okw))
            if rc and out2[-1] != 2:
                problems.append("%s: iteration count %s for 2 iterations" % (lab2, out2[-1]))
            if rr and len(out2[2]) != 2:
                problems.append("%s: %d residuals for 2 iterations" % (lab2, len(out2[2])))
        sol, info, residuals, count = out
        sols = sol if blocked else [sol]
        pos = 0
        for s_, d in zip(sols, domains):
            if s_.space is not d or same(s_.coefficients, x[pos: pos + d.global_dof_count]):
                problems.append("solution not wrapped in the domain space / wrong slice")
            pos += d.global_dof_count
        if info != 7:
            problems.append("info not passed through")
        if count != 2 or len(residuals) != 2:
            problems.append("iteration count %s / %d residuals for 2 callback calls" % (count, len(residuals)))
        elif kind == "gmres":
            if [float(r) for r in residuals] != [0.5, 0.25]:
                problems.append("gmres residuals are not the values passed to the callback: %s" % residuals)
        else:
            for r, it in zip(residuals, seen):
                if not (isinstance(r, tuple) and r[0] == "NORM" and same(r[1], want_rhs - want_op @ it) is None):
                    problems.append("cg residual is not ||rhs - A x_k||")
    if problems:
        # the native replay runs outside the object-algebra context (real scipy, floats)
        which = kind + ("-blocked" if blocked else "")
        rp = replay_numeric(which)
        return violated("%s(%s%s): %s" % (kind, "strong" if strong else "weak", ", blocked" if blocked else "", "; ".join(problems)), signature="iterative/%s/%s/%s" % (kind, strong, blocked),
                        replay={"callable": "checks.c15:replay_numeric", "kwargs": {"which": which}, "confirmed": rp["violates"], "result": rp})
    return proved("sym-exec+recording-stubs", "system, options, wrapping, info, residuals, count")


def ob_rejects():
    """raises: gmres(non-operator), cg(blocked / non grid function), strong form with b outside the range -> ValueError."""
    import bempp_cl.api as api
    from bempp_cl.api.linalg import gmres, cg

    S.reset()
    store, cache = {}, {}
    sp = _spaces()
    with object_algebra(), stub_mass_inverse(store):
        A, W = _mkop("w", sp["P"], sp["P"], sp["P"], cache)
        b = api.GridFunction(sp["P"], coefficients=symmat("b", (4,), cplx=False))
        wrong = api.GridFunction(sp["D0"], coefficients=symmat("c", (2,), cplx=False))
        for lab, thunk in (("gmres(3, b)", lambda: gmres(3, b)), ("cg(A, [b])", lambda: cg(A, [b])), ("gmres(A, 'x')", lambda: gmres(A, "x")),
                           ("gmres strong form, b not in range", lambda: gmres(A, wrong, use_strong_form=True)), ("cg strong form, b not in range", lambda: cg(A, wrong, use_strong_form=True))):
            try:
                thunk()
            except ValueError:
                continue
            except Exception as e:  # noqa
                return violated("%s raises %s instead of ValueError" % (lab, type(e).__name__), signature="reject/" + lab, replay={"confirmed": False})
            return violated("%s is accepted" % lab, signature="reject/" + lab, replay={"confirmed": False})
    return proved("exec", "5 ill-typed calls rejected with ValueError")


# ---- bounded numeric ---------------------------------------------------------------------------------------------


def _numeric_ops():
    import bempp_cl.api as api
    from bempp_cl.api.operators.boundary import laplace, helmholtz, sparse

    g = SG.make_grid(*SG.octa())
    g = g.refine()
    p1, dp0 = api.function_space(g, "P", 1), api.function_space(g, "DP", 0)
    par = Z.params(3, 3)
    V = laplace.single_layer(dp0, dp0, dp0, parameters=par)                # SPD
    Vh = helmholtz.single_layer(dp0, dp0, dp0, 0.7 + 0.1j, parameters=par)  # complex
    I_ = sparse.identity(p1, p1, p1, parameters=par)
    K = laplace.double_layer(p1, p1, p1, parameters=par)
    second = 0.5 * I_ - K                                                   # well conditioned second kind (1/2 I + K has the constants as kernel)
    _numeric_ops.extra = (K, I_)
    return g, p1, dp0, V, Vh, second


def replay_numeric(which):
    import bempp_cl.api as api
    from bempp_cl.api.linalg import lu, gmres, cg
    from bempp_cl.api.linalg.direct_solvers import compute_lu_factors

    warnings.simplefilter("ignore")
    g, p1, dp0, V, Vh, second = _numeric_ops()
    K, I_ = _numeric_ops.extra
    rng = np.random.RandomState(1)
    f0 = api.GridFunction(dp0, coefficients=rng.randn(dp0.global_dof_count))
    f1 = api.GridFunction(p1, coefficients=rng.randn(p1.global_dof_count))
    fc = api.GridFunction(dp0, coefficients=rng.randn(dp0.global_dof_count) + 1j * rng.randn(dp0.global_dof_count))
    errs = {}
    if which in ("lu", "all"):
        errs["lu(V, V f)"] = Z.relerr(lu(V, V * f0).coefficients, f0.coefficients)
        errs["lu(Vh, Vh f) complex"] = Z.relerr(lu(Vh, Vh * fc).coefficients, fc.coefficients)
        errs["lu precomputed"] = Z.relerr(lu(V, V * f0, lu_factor=compute_lu_factors(V)).coefficients, lu(V, V * f0).coefficients)
        # real operator, complex right-hand side, with and without precomputed factors
        errs["lu real operator, complex rhs"] = Z.relerr(lu(V, V * fc).coefficients, fc.coefficients)
        errs["lu real operator, complex rhs, precomputed factors"] = Z.relerr(lu(V, V * fc, lu_factor=compute_lu_factors(V)).coefficients, fc.coefficients)
        errs["lu(second, second f)"] = Z.relerr(lu(second, second * f1).coefficients, f1.coefficients)
        # "for every invertible operator": the same second-kind operator with the dense summand first (sum operators convert to dense differently depending on the
        # order of their summands), solved repeatedly and with factors computed between two direct solves - the operator must not change by being solved
        second_b = K - 0.5 * I_
        for rep in range(3):
            errs["lu(K - I/2, (K - I/2) f), call %d" % (rep + 1)] = Z.relerr(lu(second_b, second_b * f1).coefficients, f1.coefficients)
            if rep == 1:
                fac_b = compute_lu_factors(second_b)
        errs["lu(K - I/2) with factors computed between two direct solves"] = Z.relerr(lu(second_b, second_b * f1, lu_factor=fac_b).coefficients, f1.coefficients)
        xg, info_g = gmres(second_b, second_b * f1, tol=1e-10)
        errs["gmres(K - I/2) after direct solves"] = 0.0 if (info_g == 0 and Z.relerr(xg.coefficients, f1.coefficients) < 1e-7) else max(1.0, Z.relerr(xg.coefficients, f1.coefficients))
        # right-hand sides that were inspected before the solve, for an operator whose range and dual_to_range have different dof counts
        from bempp_cl.api.operators.boundary import laplace as _lap

        V2 = _lap.single_layer(dp0, p1, dp0, parameters=Z.params(3, 3))
        b = V2 * f0
        b.coefficients, b.l2_norm()
        errs["lu(V2, b) after b.coefficients / b.l2_norm() were read (range P1, dual DP0)"] = Z.relerr(lu(V2, b).coefficients, f0.coefficients)
        b = V2 * f0
        b.coefficients
        x, info = gmres(V2, b, tol=1e-10)
        errs["gmres(V2, b) after b.coefficients was read"] = 0.0 if (info == 0 and Z.relerr(x.coefficients, f0.coefficients) < 1e-7) else max(1.0, Z.relerr(x.coefficients, f0.coefficients))
    if which in ("lu-blocked", "all"):
        B = api.BlockedOperator(2, 2)
        B[0, 0], B[1, 1] = V, second
        B[0, 1] = api.operators.boundary.laplace.single_layer(p1, dp0, dp0, parameters=Z.params(3, 3))
        sol = lu(B, B * [f0, f1])
        errs["lu blocked"] = max(Z.relerr(sol[0].coefficients, f0.coefficients), Z.relerr(sol[1].coefficients, f1.coefficients))
        f1c = api.GridFunction(p1, coefficients=rng.randn(p1.global_dof_count) + 1j * rng.randn(p1.global_dof_count))
        solc = lu(B, B * [fc, f1c], lu_factor=compute_lu_factors(B))
        errs["lu blocked, complex rhs, precomputed factors"] = max(Z.relerr(solc[0].coefficients, fc.coefficients), Z.relerr(solc[1].coefficients, f1c.coefficients))
        ok_spaces = sol[0].space == dp0 and sol[1].space == p1
        if not ok_spaces:
            errs["lu blocked spaces"] = 1.0
        # "the returned functions live in the domain spaces of A": a blocked system whose FIRST domain space lives on the barycentric refinement (DUAL0: the number of its
        # dofs differs from the number of grid dofs of the refined grid), coupled through sparse blocks only where dense assembly is not available
        from bempp_cl.api.operators.boundary import sparse as _sp, laplace as _lp

        gt = SG.make_grid(*SG.tetra())
        q1, d0 = api.function_space(gt, "P", 1), api.function_space(gt, "DUAL", 0)
        part = Z.params(3, 3)
        Bd = api.BlockedOperator(2, 2)
        Bd[0, 0] = _sp.identity(d0, q1, q1, parameters=part)
        Bd[0, 1] = 0.5 * _sp.identity(q1, q1, q1, parameters=part) + _lp.double_layer(q1, q1, q1, parameters=part)
        Bd[1, 1] = _lp.single_layer(q1, q1, q1, parameters=part)
        fd = api.GridFunction(d0, coefficients=rng.randn(d0.global_dof_count))
        fq = api.GridFunction(q1, coefficients=rng.randn(q1.global_dof_count))
        for lab, solve in (("lu", lambda: lu(Bd, Bd * [fd, fq])), ("lu with factors", lambda: lu(Bd, Bd * [fd, fq], lu_factor=compute_lu_factors(Bd))),
                           ("gmres", lambda: gmres(Bd, Bd * [fd, fq], tol=1e-12)[0])):
            try:
                sd = solve()
                e = max(Z.relerr(sd[0].coefficients, fd.coefficients), Z.relerr(sd[1].coefficients, fq.coefficients)) if (
                    sd[0].coefficients.shape == fd.coefficients.shape and sd[1].coefficients.shape == fq.coefficients.shape) else 1.0
                if sd[0].space != d0 or sd[1].space != q1:
                    e = 1.0
            except Exception as ex:  # noqa
                e = 1.0
            errs["blocked (DUAL0, P1) domain spaces, %s" % lab] = e if lab != "gmres" else (0.0 if e < 1e-7 else e)
    bad = {k: v for k, v in errs.items() if v > 1e-9}
    details = dict(errs)
    if which in ("gmres", "cg", "all"):
        for tol in (1e-4, 1e-8, 1e-12):
            for strong in (False, True):
                x, info, res, cnt = gmres(second, second * f1, tol=tol, use_strong_form=strong, return_residuals=True, return_iteration_count=True, restart=50, maxiter=200)
                e = Z.relerr(x.coefficients, f1.coefficients)
                details["gmres tol=%g strong=%s" % (tol, strong)] = e
                if info != 0 or e > 200 * tol or cnt != len(res) or cnt < 1 or x.space != p1:
                    bad["gmres tol=%g strong=%s" % (tol, strong)] = e
                x, info, res, cnt = cg(V, V * f0, tol=tol, use_strong_form=strong, return_residuals=True, return_iteration_count=True, maxiter=500)
                e = Z.relerr(x.coefficients, f0.coefficients)
                details["cg tol=%g strong=%s" % (tol, strong)] = e
                if strong:
                    continue  # the strong form of a symmetric operator is not symmetric: outside the cg clause ("symmetric positive definite A")
                if info != 0 or e > 2000 * tol or cnt != len(res) or x.space != dp0:
                    bad["cg tol=%g" % tol] = e
    if which in ("gmres", "cg", "all"):
        # "the residual ... outputs correspond to the iteration that was run": after an early stop (maxiter=3) the last reported cg residual is the residual of the
        # returned iterate in the system that was iterated on (weak: weak form / projections; strong: strong form / coefficients)
        for strong in (False, True):
            x, info, res, cnt = cg(V, V * f0, tol=1e-14, maxiter=3, use_strong_form=strong, return_residuals=True, return_iteration_count=True)
            A_sys = V.strong_form() if strong else V.weak_form()
            b_sys = (V * f0).coefficients if strong else (V * f0).projections(dp0)
            true = float(np.linalg.norm(b_sys - A_sys @ x.coefficients))
            key = "cg maxiter=3 strong=%s: last reported residual vs residual of the returned iterate" % strong
            details[key] = abs(res[-1] - true) / true if len(res) else 1.0
            if cnt != len(res) or cnt != 3 or not details[key] < 1e-8:
                bad[key] = details[key]
    if which in ("gmres", "cg", "all"):
        # "outputs correspond to the iteration that was run": which outputs are requested changes neither the iteration (same iterate after an early stop,
        # restart=3 / maxiter=4 and defaults) nor the reported count (equal to the number of residuals of the call that returns both)
        for lab, solver, opn, rhsf, kw in (("gmres restart=3 maxiter=4", gmres, second, second * f1, dict(restart=3, maxiter=4, tol=1e-14)),
                                          ("gmres tol=1e-9", gmres, second, second * f1, dict(tol=1e-9)),
                                          ("cg maxiter=4", cg, V, V * f0, dict(maxiter=4, tol=1e-14))):
            xb, _, resb, cntb = solver(opn, rhsf, return_residuals=True, return_iteration_count=True, **kw)
            xc, _, cntc = solver(opn, rhsf, return_iteration_count=True, **kw)
            xr, _, resr = solver(opn, rhsf, return_residuals=True, **kw)
            xn, _ = solver(opn, rhsf, **kw)
            key = "%s: outputs requested change the iteration / the count" % lab
            dev = max(Z.relerr(xc.coefficients, xb.coefficients), Z.relerr(xr.coefficients, xb.coefficients), Z.relerr(xn.coefficients, xb.coefficients))
            details[key] = dev
            if dev > 1e-12 or cntc != cntb or cntb != len(resb) or len(resr) != len(resb):
                bad[key + " (count with both outputs %d, count alone %d, residuals alone %d)" % (cntb, cntc, len(resr))] = max(dev, 1.0 if cntc != cntb else 0.0)
    if which in ("gmres-blocked", "cg-blocked", "all"):
        # blocked systems: the requested tolerance must reach the scipy routine (true relative residual of the weak / strong system)
        B = api.BlockedOperator(2, 2)
        B[0, 0], B[1, 1] = V, second
        B[0, 1] = api.operators.boundary.laplace.single_layer(p1, dp0, dp0, parameters=Z.params(3, 3))
        rhs = B * [f0, f1]
        for tol in (1e-4, 1e-8, 1e-11):
            for strong in (False, True):
                sol, info, res, cnt = gmres(B, rhs, tol=tol, use_strong_form=strong, return_residuals=True, return_iteration_count=True, restart=60, maxiter=300)
                M = (B.strong_form() if strong else B.weak_form())
                xv = np.concatenate([sol[0].coefficients, sol[1].coefficients])
                bv = np.concatenate([rhs[0].coefficients, rhs[1].coefficients]) if strong else np.concatenate([rhs[0].projections(dp0), rhs[1].projections(p1)])
                rr = float(np.linalg.norm(M @ xv - bv) / np.linalg.norm(bv))
                details["gmres blocked tol=%g strong=%s (relative residual)" % (tol, strong)] = rr
                if info != 0 or rr > 5 * tol or cnt != len(res) or sol[0].space != dp0 or sol[1].space != p1:
                    bad["gmres blocked tol=%g strong=%s (relative residual)" % (tol, strong)] = rr
    if which in ("gmres-blocked-mixed", "all"):
        # blocked system whose rows have range != dual_to_range with a non-symmetric mixed mass matrix (tetrahedron: 4 vertices, 4 faces): the strong form
        # must use M(range_i, dual_i)^-1 -- solution of the strong-form gmres equals the solution of lu and the exact f
        from bempp_cl.api.operators.boundary import laplace as _lap

        gt = SG.make_grid(*SG.tetra())
        tp1, tdp0 = api.function_space(gt, "P", 1), api.function_space(gt, "DP", 0)
        tpar = Z.params(3, 3)
        Bm = api.BlockedOperator(2, 2)
        Bm[0, 0] = _lap.single_layer(tdp0, tp1, tdp0, parameters=tpar)
        Bm[0, 1] = _lap.single_layer(tp1, tp1, tdp0, parameters=tpar)
        Bm[1, 1] = _lap.single_layer(tp1, tdp0, tp1, parameters=tpar)
        ft = [api.GridFunction(tdp0, coefficients=rng.randn(4)), api.GridFunction(tp1, coefficients=rng.randn(4))]
        rhs_t = Bm * ft
        for strong in (False, True):
            sol, info = gmres(Bm, rhs_t, tol=1e-11, use_strong_form=strong, restart=20, maxiter=200)
            e = max(Z.relerr(sol[0].coefficients, ft[0].coefficients), Z.relerr(sol[1].coefficients, ft[1].coefficients))
            details["gmres blocked, range != dual, strong=%s" % strong] = e
            if info != 0 or e > 1e-8 or sol[0].space != tdp0 or sol[1].space != tp1:
                bad["gmres blocked, range != dual, strong=%s" % strong] = e
    if which in ("gmres", "cg", "all"):
        xc, info = gmres(Vh, Vh * fc, tol=1e-10, maxiter=300)
        e = Z.relerr(xc.coefficients, fc.coefficients)
        details["gmres complex"] = e
        if info != 0 or e > 1e-6:
            bad["gmres complex"] = e
    return {"violates": bool(bad), "failing": {k: float(v) for k, v in bad.items()}, "errors": {k: float(v) for k, v in details.items()}}


def ob_numeric(which):
    """bounded: the statement's numeric claims on well-conditioned operators (octahedron refined once: Laplace V on DP0 (SPD), Helmholtz V complex,
    1/2 I + K on P1, 2x2 blocked): lu(A, A f) = f to rounding, precomputed factors = direct solve, gmres/cg reach tol 1e-4..1e-12 with info 0 in
    weak and strong form, functions live in the domain spaces, residual list length = iteration count."""
    r = replay_numeric(which)
    if r["violates"]:
        return violated("solver claim fails: %s" % r["failing"], witness=r["failing"], signature="numeric/" + which,
                        replay={"callable": "checks.c15:replay_numeric", "kwargs": {"which": which}, "confirmed": True})
    return held("; ".join("%s %.1e" % kv for kv in list(r["errors"].items())[:8]))


def main():
    run = Run("C15", "other")
    run.explanation = __doc__
    from bempp_cl.api.linalg import direct_solvers as DS, iterative_solvers as IS

    for f in (DS.lu, DS.compute_lu_factors, IS.gmres, IS.cg, IS._gmres_single_op_imp, IS._gmres_block_op_imp, IS.IterationCounter):
        run.under_contract(f)
    run.assumed_contract("scipy.linalg.solve / lu_factor / lu_solve", "solve(M, v) = x with M x = v for invertible M; lu_solve(lu_factor(M), v) = solve(M, v)")
    run.assumed_contract("scipy.sparse.linalg.gmres / cg", "(x, info): info == 0 => ||M x - v|| <= rtol ||v||; callback invoked once per (inner) iteration with the residual norm (gmres, legacy) or the iterate (cg)")
    run.add("direct_solvers.lu[single]", "post", ob_lu_single)
    run.add("direct_solvers.lu[blocked]", "post", ob_lu_blocked)
    for kind in ("gmres", "cg"):
        for strong in (False, True):
            run.add("iterative_solvers.%s[%s]" % (kind, "strong" if strong else "weak"), "post", ob_iterative, kind, strong)
    for strong in (False, True):
        run.add("iterative_solvers.gmres[blocked, %s]" % ("strong" if strong else "weak"), "post", ob_iterative, "gmres", strong, True)
    run.add("solvers::raises", "raises", ob_rejects)
    run.add("numeric.lu", "bounded", ob_numeric, "lu")
    run.add("numeric.lu-blocked", "bounded", ob_numeric, "lu-blocked")
    run.add("numeric.gmres+cg", "bounded", ob_numeric, "gmres")
    run.add("numeric.gmres-blocked", "bounded", ob_numeric, "gmres-blocked")
    run.add("numeric.gmres-blocked-mixed-spaces", "bounded", ob_numeric, "gmres-blocked-mixed")
    run.bound("symbolic part: generic 4x4 / 6x6 systems; numeric part: 32-element octahedron, tol 1e-4, 1e-8, 1e-12, weak and strong form")
    run.assume("convergence of the iterative solvers on well-conditioned systems is scipy's; checked only on the listed operators")
    return run.finish()


if __name__ == "__main__":
    sys.exit(main())
