"""C16 assembly results are independent of thread count and scheduling (DESIGN 3, C16).

Argument (each step an obligation below):
  1. every `prange` loop of a function compiled with parallel=True writes, in two different iterations, to disjoint locations of every shared
     array, reads no location another iteration writes, and assigns no shared scalar  -- proved by z3 on the real AST (vlib/prange.py) under the
     launch precondition `requires` of contracts/prange_launch.py; hence each memory location is produced by one iteration, executed
     sequentially, and the result cannot depend on the schedule or the number of threads;
  2. no statement outside the prange loops of those functions is a reduction that Numba auto-parallelises (sum, dot, ... : the partial sums
     would depend on the thread count);
  3. functions called from prange bodies do not write through their parameters (AST scan of every candidate of the kernel tables), except the
     declared sparse kernels, which are inlined into the analysis of step 1;
  4. the launch precondition of the six regular assemblers (`COLOURED`: the test elements of one launch pairwise share no global dof in any local
     slot) holds at the only call site, dense_assembler: it launches one colour class of dual_to_range per call together with the local2global
     map of the same space (AST contract), and the colouring of a space separates elements with a common dof:
       lemma A (z3): a greedy step that gives element e a colour unused by all already coloured elements n with Nb(e, n) preserves
                     "coloured neighbours have different colours";
       lemma B (z3): if global2local is the inverse of local2global on non-zero multipliers and every slot's dof also sits in a non-zero slot of
                     the same element (slot cover), then the neighbour set built by _compute_color_map from global2local contains every element
                     sharing ANY slot dof with e (zero-multiplier slots included);
     the slot-cover hypothesis of lemma B is itself proved (V-engine, all sizes) for the final loops of _compute_p1_dof_map and
     _compute_rwg0_space_data, extracted mechanically per iteration (contracts/dofmap_blocks.py);
     and, bounded (run-time contracts on a sweep of spaces x supports x options, barycentric and localised representations included):
       the real _compute_color_map equals the greedy specification, slot cover and inverse hold, _sort_elements_by_color returns the colour
       classes, and every launch of a real assembly meets COLOURED on its actual arguments;
  5. (thorough) dense matrices and potentials assembled with JIT on under NUMBA_NUM_THREADS = 1, 2, 7, 16 are bitwise identical.
"""

import ast
import hashlib
import importlib
import inspect
import itertools
import json
import os
import subprocess
import sys
import textwrap
import warnings

import numpy as np
import z3

from vlib import prange as P
from vlib import symgrid as SG
from vlib import zoo as Z
from vlib.vengine import Unsupported
from vlib.framework import Run, proved, violated, undecided, held, VERIF, REPO
from contracts import prange_launch as PL

_AN = {}


def par_functions(modname):
    """[(name, parallel flag)] of the module-level functions that contain a prange loop, from the module's AST."""
    mod = importlib.import_module(modname)
    tree = ast.parse(inspect.getsource(mod))
    out = []
    for fd in tree.body:
        if isinstance(fd, ast.FunctionDef) and any(isinstance(n, ast.Call) and ast.unparse(n.func).endswith("prange") for n in ast.walk(fd)):
            par = False
            for dec in fd.decorator_list:
                if isinstance(dec, ast.Call):
                    for kw in dec.keywords:
                        if kw.arg == "parallel" and getattr(kw.value, "value", None) is True:
                            par = True
            out.append((fd.name, par))
    return out


def variants(modname, fname):
    """contract variants of one function: one per candidate of an inlined function-valued parameter"""
    c = PL.CONTRACTS[(modname, fname)]
    if "inline_table" in c:
        from vlib import kernelrun as KR

        prm, table = c["inline_table"]
        return [(key, dict(c, inline={prm: fn})) for key, fn in sorted(KR.kernel_tables()[table].items())]
    return [("", c)]


def analysis(modname, fname, vkey):
    k = (modname, fname, vkey)
    if k not in _AN:
        f = getattr(importlib.import_module(modname), fname)
        c = dict(variants(modname, fname))[vkey]
        obs, _ = P.analyse(f, c)
        _AN[k] = (obs, list(P.analyse.last_calls))
    return _AN[k]


def ob_prange(modname, fname, vkey, index):
    obs, _ = analysis(modname, fname, vkey)
    name, kind, assumptions, goal = obs[index]
    verdict, model = P.discharge(assumptions, goal, 60000)
    if verdict == "proved":
        return proved("z3", "unsat of: launch precondition, both iterations' loop ranges, i != i', and equal index tuples")
    if verdict == "refuted":
        return violated("two iterations of the prange loop of %s.%s can touch the same location: %s refuted" % (modname, fname, name), backend="z3",
                        replay={"confirmed": False, "solver_model": str(model)[:3000],
                                "note": "the model gives two iteration indices and inner indices with equal store indices; a lost update needs a particular thread "
                                        "interleaving and is not replayed natively"},
                        signature="%s/%s" % (fname, kind))
    return undecided("z3 unknown on %s" % name, backend="z3")


def ob_vacuity(modname, fname, vkey):
    """cover: the assumptions of the disjointness obligations (launch precondition + ranges + i != i') are satisfiable, and at least one store was
    collected"""
    obs, _ = analysis(modname, fname, vkey)
    dis = [o for o in obs if o[1] == "disjoint"]
    if not dis:
        return {"status": "error", "detail": "no store into a shared array collected for %s" % fname}
    from vlib import smt

    s = z3.Solver()
    for a in dis[0][2]:
        s.add(a)
    r = {"unsat": z3.unsat, "sat": z3.sat}.get(smt.z3_check(s, 30)[0], z3.unknown)
    if r == z3.sat:
        return proved("z3", "assumptions satisfiable (%d store pairs)" % len(dis))
    if r == z3.unsat:
        return {"status": "error", "backend": "z3", "detail": "vacuity guard: launch precondition of %s is contradictory" % fname}
    return proved("native-witness", "sat query undetermined; the precondition is exercised by the bounded launch contracts")


REDUCTIONS = ("sum", "prod", "min", "max", "argmin", "argmax", "mean", "var", "std", "dot", "vdot", "cumsum", "cumprod", "nansum")


def ob_no_parallel_reduction(modname, fname):
    f = getattr(importlib.import_module(modname), fname)
    f = getattr(f, "py_func", f)
    fd = ast.parse(textwrap.dedent(inspect.getsource(f))).body[0]
    bad = []
    for st in fd.body:
        if isinstance(st, ast.For) and ast.unparse(st.iter.func if isinstance(st.iter, ast.Call) else st.iter).endswith("prange"):
            continue
        for n in ast.walk(st):
            if isinstance(n, ast.Call):
                nm = ast.unparse(n.func).split(".")[-1]
                if nm in REDUCTIONS:
                    bad.append("%s at +%d" % (ast.unparse(n)[:60], n.lineno))
    if bad:
        return violated("auto-parallelised reduction outside the prange loop of %s (partial sums depend on the number of threads): %s" % (fname, bad),
                        replay={"confirmed": False}, signature="%s/reduction" % fname)
    return proved("ast", "no sum/dot/min/max/mean... call outside the prange loop")


def callee_candidates(modname, fname):
    """functions that can be called from the prange body of `fname`: resolved module-level names plus every member of the kernel tables for
    function-valued parameters"""
    from vlib import kernelrun as KR

    mod = importlib.import_module(modname)
    obs, calls = analysis(modname, fname, variants(modname, fname)[0][0])
    tables = KR.kernel_tables()
    out, unresolved = {}, []
    for c in calls:
        if c.startswith("_np.") or c in ("len", "range", "min", "max", "abs", "int", "float"):
            continue
        if hasattr(mod, c) and callable(getattr(mod, c)):
            out[c] = [getattr(mod, c)]
        elif c in ("kernel_evaluator", "kernel_function"):
            if "singular" in fname:
                out[c] = list(tables["kernel_functions_singular"].values())
            elif modname.endswith("numba_kernels"):
                out[c] = list(tables["kernel_functions_regular"].values())
            else:
                from bempp_cl.api.fmm import helpers as FH

                out[c] = [getattr(FH, n) for n in dir(FH) if n.endswith("_kernel") and callable(getattr(FH, n))]
        else:
            unresolved.append(c)
    return out, unresolved


def ob_callee_purity(modname, fname):
    cands, unresolved = callee_candidates(modname, fname)
    inlined = set()
    c = PL.CONTRACTS[(modname, fname)]
    if "inline_table" in c:
        inlined.add(c["inline_table"][0])
    bad, n = [], 0
    for prm, fns in cands.items():
        if prm in inlined:
            continue
        for fn in fns:
            n += 1
            w = P.writes_through_parameters(fn)
            if w:
                bad.append("%s writes through %s" % (getattr(fn, "__name__", fn), w))
    if bad:
        return violated("function called from the prange body of %s stores into its arguments (not covered by the disjointness analysis): %s" % (fname, bad),
                        replay={"confirmed": False}, signature="%s/callee-purity" % fname)
    return proved("ast", "%d candidate callees have no store through a parameter; unresolved (assumed pure, listed in assumptions): %s" % (n, sorted(set(unresolved))))


# ---- call site of the regular assemblers ---------------------------------------------------------------------------------


def ob_launch_ast():
    """frame/post on dense_assembler (AST): the assembly function is called once per test colour inside `for c in range(number_of_test_colors)`, with
    argument 5 = test_indices[test_color_indexptr[c] : test_color_indexptr[1 + c]] where (test_indices, test_color_indexptr) =
    dual_to_range.get_elements_by_color(), argument 9 = dual_to_range.local2global, argument 3 = dual_to_range.number_of_shape_functions, and the
    launches are sequential statements of one Python loop."""
    from bempp_cl.core import numba_assemblers as NA

    fd = ast.parse(textwrap.dedent(inspect.getsource(NA.dense_assembler))).body[0]
    env = {}
    for st in fd.body:
        if isinstance(st, ast.Assign):
            t = st.targets[0]
            if isinstance(t, ast.Tuple) and all(isinstance(e, ast.Name) for e in t.elts):
                env[tuple(e.id for e in t.elts)] = ast.unparse(st.value)
            elif isinstance(t, ast.Name):
                env[t.id] = ast.unparse(st.value)
    loops = [st for st in fd.body if isinstance(st, ast.For)]
    problems = []
    if len(loops) != 1:
        problems.append("expected exactly one launch loop, found %d" % len(loops))
    else:
        lp = loops[0]
        c = lp.target.id if isinstance(lp.target, ast.Name) else None
        if ast.unparse(lp.iter) != "range(number_of_test_colors)" or env.get("number_of_test_colors") != "len(test_color_indexptr) - 1":
            problems.append("launch loop does not run over the test colours: %s / %s" % (ast.unparse(lp.iter), env.get("number_of_test_colors")))
        calls = [s.value for s in lp.body if isinstance(s, ast.Expr) and isinstance(s.value, ast.Call)]
        if len(calls) != 1 or len(lp.body) != 1:
            problems.append("launch loop body is not a single call")
        else:
            a = [ast.unparse(x) for x in calls[0].args]
            want5 = {"test_indices[test_color_indexptr[%s]:test_color_indexptr[1 + %s]]" % (c, c), "test_indices[test_color_indexptr[%s]:test_color_indexptr[%s + 1]]" % (c, c)}
            if a[4] not in want5:
                problems.append("argument 5 (test elements of the launch) is %s" % a[4])
            if env.get(("test_indices", "test_color_indexptr")) != "dual_to_range.get_elements_by_color()":
                problems.append("test_indices/test_color_indexptr = %s" % env.get(("test_indices", "test_color_indexptr")))
            if a[8] != "dual_to_range.local2global":
                problems.append("argument 9 (test dof map) is %s" % a[8])
            if a[2] != "nshape_test" or env.get("nshape_test") != "dual_to_range.number_of_shape_functions":
                problems.append("argument 3 (nshape_test) is %s = %s" % (a[2], env.get("nshape_test")))
            if a[-1] != "result":
                problems.append("last argument is %s" % a[-1])
    if problems:
        return violated("dense_assembler does not establish the launch precondition COLOURED of the regular assemblers: %s" % "; ".join(problems),
                        replay={"confirmed": False}, signature="dense_assembler/launch")
    return proved("ast", "one launch per colour class of dual_to_range with the dof map of the same space")


def _lemma(s, goal):
    from vlib import smt

    s.add(z3.Not(goal))
    r, _ = smt.z3_check(s, 60)
    return {"unsat": z3.unsat, "sat": z3.sat}.get(r, z3.unknown)


def ob_lemma_greedy():
    """lemma A"""
    E = z3.IntSort()
    col, col2 = z3.Array("col", E, z3.IntSort()), z3.Array("col2", E, z3.IntSort())
    done, done2 = z3.Array("done", E, z3.BoolSort()), z3.Array("done2", E, z3.BoolSort())
    Nb = z3.Function("Nb", E, E, z3.BoolSort())
    e, c, a, b, n, x = z3.Ints("e c a b n x")
    s = z3.Solver()
    s.set("timeout", 30000)
    s.add(z3.ForAll([a, b], Nb(a, b) == Nb(b, a)))
    inv = z3.And(z3.ForAll([a, b], z3.Implies(z3.And(done[a], done[b], a != b, Nb(a, b)), col[a] != col[b])), z3.ForAll([a], z3.Implies(done[a], col[a] >= 0)))
    s.add(inv, z3.Not(done[e]))
    s.add(z3.ForAll([n], z3.Implies(z3.Not(done[n]), col[n] == -1)))
    # step specification of _compute_color_map: colour c >= 0 not among the colours of the neighbours (uncoloured neighbours carry -1)
    s.add(c >= 0, z3.ForAll([n], z3.Implies(z3.And(n != e, Nb(e, n)), col[n] != c)))
    s.add(col2 == z3.Store(col, e, c), done2 == z3.Store(done, e, True))
    goal = z3.And(z3.ForAll([a, b], z3.Implies(z3.And(done2[a], done2[b], a != b, Nb(a, b)), col2[a] != col2[b])), z3.ForAll([a], z3.Implies(done2[a], col2[a] >= 0)),
                  z3.ForAll([n], z3.Implies(z3.Not(done2[n]), col2[n] == -1)))
    r = _lemma(s, goal)
    if r == z3.unsat:
        return proved("z3", "greedy step preserves the colouring invariant")
    return undecided("lemma A: %s" % r, backend="z3")


def ob_lemma_neighbours(ns):
    """lemma B for ns local slots"""
    E = z3.IntSort()
    l2g = z3.Function("l2g", E, E, E)
    mult = z3.Function("mult", E, E, E)
    G = z3.Function("G", E, E, z3.BoolSort())     # G(d, n): n occurs in global2local[d]
    e, n, d = z3.Ints("e n d")
    slots = range(ns)
    s = z3.Solver()
    s.set("timeout", 30000)
    # inverse: (n, t) in global2local[d]  <=>  local2global[n, t] = d and multiplier != 0
    s.add(z3.ForAll([d, n], G(d, n) == z3.Or(*[z3.And(l2g(n, t) == d, mult(n, t) != 0) for t in slots])))
    # slot cover for the two elements
    for el in (e, n):
        for t in slots:
            s.add(z3.Or(*[z3.And(mult(el, u) != 0, l2g(el, u) == l2g(el, t)) for u in slots]))
    shares = z3.Or(*[l2g(e, t) == l2g(n, u) for t in slots for u in slots])
    in_neighbours = z3.Or(*[G(l2g(e, t), n) for t in slots])       # n is added by `for dof in local2global[e]: for elem, _ in global2local[dof]`
    r = _lemma(s, z3.Implies(shares, in_neighbours))
    if r == z3.unsat:
        return proved("z3", "neighbour set of _compute_color_map covers all elements sharing any slot dof (ns=%d)" % ns)
    return undecided("lemma B: %s" % r, backend="z3")


# ---- bounded run-time contracts on real spaces -------------------------------------------------------------------------

KINDS = [("DP", 0), ("DP", 1), ("P", 1), ("DUAL", 0), ("DUAL", 1), ("RWG", 0), ("SNC", 0), ("BC", 0), ("RBC", 0)]


def supports(ne, thorough, seed):
    subs = [None]
    if ne > 14:
        # 2^ne subsets cannot be enumerated (32 elements: the list exhausted 60 GB and the OOM killer left the worker pool hanging): sample directly
        rng = np.random.RandomState(seed)
        out = []
        while len(out) < (120 if thorough else 12):
            r = int(rng.randint(1, ne))
            c = sorted(int(x) for x in rng.choice(ne, size=r, replace=False))
            if c not in out:
                out.append(c)
        return subs + sorted(out)
    allsub = [list(c) for r in range(1, ne) for c in itertools.combinations(range(ne), r)]
    if len(allsub) <= (300 if thorough else 20):
        return subs + allsub
    rng = np.random.RandomState(seed)
    pick = rng.choice(len(allsub), size=(120 if thorough else 12), replace=False) if len(allsub) < 100000 else []
    subs += [allsub[i] for i in sorted(pick)]
    return subs


def spaces_of(mesh, kind, deg, thorough):
    import bempp_cl.api as api

    v, e = getattr(SG, mesh[0])(*mesh[1])
    ne = np.asarray(e).shape[1]
    for sub in supports(ne, thorough, 7):
        for ib, tr in itertools.product((False, True), (False, True)):
            kw = {}
            if sub is not None:
                kw["support_elements"] = np.array(sub, dtype="uint32")
            if kind in ("P", "RWG", "SNC", "BC", "RBC", "DUAL"):
                kw["include_boundary_dofs"] = ib
                kw["truncate_at_segment_edge"] = tr
            elif (ib, tr) != (False, False):
                continue
            g = SG.make_grid(v, e)
            try:
                with warnings.catch_warnings():
                    warnings.simplefilter("ignore")
                    s = api.function_space(g, kind, deg, **kw)
            except Exception:  # noqa  (option combination not offered by the library / empty space)
                continue
            yield (sub, ib, tr), s


def colour_contract(space):
    """None or a message: slot cover, inverse, greedy specification, colour separation, colour classes"""
    l2g = np.asarray(space.local2global)
    mult = np.asarray(space.local_multipliers)
    sup = [int(x) for x in space.support_elements]
    ns = l2g.shape[1]
    g2l = space.global2local
    # inverse on non-zero multipliers
    want = {}
    for el in range(l2g.shape[0]):
        for t in range(ns):
            if mult[el, t] != 0:
                want.setdefault(int(l2g[el, t]), set()).add((el, t))
    for d in range(space.global_dof_count):
        got = {(int(a), int(b)) for a, b in g2l[d]}
        if got != want.get(d, set()):
            return "global2local[%d] = %s is not the inverse of local2global on non-zero multipliers (%s)" % (d, sorted(got), sorted(want.get(d, set())))
    for el in sup:
        for t in range(ns):
            if not any(mult[el, u] != 0 and l2g[el, u] == l2g[el, t] for u in range(ns)):
                return "slot cover fails: element %d slot %d carries dof %d, which is in no non-zero slot of the element" % (el, t, int(l2g[el, t]))
    cm = np.asarray(space.color_map)
    # greedy specification
    spec = -np.ones(len(cm), dtype=int)
    for el in sup:
        nb = set()
        for d in l2g[el]:
            nb.update(int(a) for a, _ in g2l[int(d)])
        nb.discard(el)
        used = {int(spec[n]) for n in nb}
        spec[el] = next(c for c in range(len(sup)) if c not in used)
    if not np.array_equal(spec, cm):
        return "color_map %s differs from the greedy specification %s" % (cm.tolist(), spec.tolist())
    for a, b in itertools.combinations(sup, 2):
        if cm[a] == cm[b] and set(l2g[a].tolist()) & set(l2g[b].tolist()):
            return "elements %d and %d have colour %d and share global dof(s) %s" % (a, b, int(cm[a]), sorted(set(l2g[a].tolist()) & set(l2g[b].tolist())))
    idx, ptr = space.get_elements_by_color()
    idx, ptr = [int(x) for x in idx], [int(x) for x in ptr]
    if sorted(idx) != sorted(sup) or ptr[0] != 0 or ptr[-1] != len(idx):
        return "get_elements_by_color does not partition the support elements: %s %s" % (idx, ptr)
    for c in range(len(ptr) - 1):
        if any(cm[x] != c for x in idx[ptr[c]:ptr[c + 1]]):
            return "slice %d of get_elements_by_color contains elements of another colour" % c
    return None


def replay_colour(mesh, kind, deg, sub, ib, tr, rep):
    import bempp_cl.api as api

    v, e = getattr(SG, mesh[0])(*mesh[1])
    kw = {}
    if sub is not None:
        kw["support_elements"] = np.array(sub, dtype="uint32")
    if kind in ("P", "RWG", "SNC", "BC", "RBC", "DUAL"):
        kw["include_boundary_dofs"] = ib
        kw["truncate_at_segment_edge"] = tr
    s = api.function_space(SG.make_grid(v, e), kind, deg, **kw)
    s = {"space": s, "barycentric": s.barycentric_representation() if rep == "barycentric" else s, "localised": s.localised_space}[rep] if rep != "space" else s
    msg = colour_contract(s)
    return {"violates": msg is not None, "message": msg}


def ob_colouring(mesh, kind, deg, thorough):
    n = 0
    for (sub, ib, tr), s in spaces_of(mesh, kind, deg, thorough):
        reps = [("space", s)]
        try:
            reps.append(("localised", s.localised_space))
        except Exception:  # noqa
            pass
        if s.has_non_barycentric_space if hasattr(s, "has_non_barycentric_space") else False:
            pass
        try:
            b = s.barycentric_representation()
            if b is not None:
                reps.append(("barycentric", b))
        except Exception:  # noqa
            pass
        for rep, sp in reps:
            n += 1
            msg = colour_contract(sp)
            if msg is not None:
                return violated("%s %s%d support=%s include_boundary_dofs=%s truncate_at_segment_edge=%s (%s): %s" % (mesh[0], kind, deg, sub, ib, tr, rep, msg),
                                witness={"mesh": mesh, "kind": kind, "degree": deg, "support": sub, "include_boundary_dofs": ib, "truncate": tr, "representation": rep},
                                replay={"callable": "checks.c16:replay_colour", "confirmed": True,
                                        "kwargs": {"mesh": mesh, "kind": kind, "deg": deg, "sub": sub, "ib": ib, "tr": tr, "rep": rep}},
                                signature="colouring/%s%d/%s" % (kind, deg, rep))
    if n == 0 and kind in ("BC", "RBC"):
        return held("not applicable: the library builds no %s space on %s (non-manifold / screen restrictions)" % (kind, mesh[0]))
    if n == 0:
        return {"status": "error", "detail": "no space could be built for %s %s%d" % (mesh, kind, deg)}
    return held("%d spaces (with localised / barycentric representations): inverse, slot cover, greedy spec, separation, colour classes" % n)


def launch_check(args):
    """COLOURED on the actual arguments of one launch of a regular assembler"""
    test_elements = [int(x) for x in args[4]]
    dofs = np.asarray(args[8])
    seen = {}
    for pos, el in enumerate(test_elements):
        for d in set(int(x) for x in dofs[el]):
            if d in seen and seen[d] != el:
                return "test elements %d and %d of one launch share global dof %d" % (seen[d], el, d)
            seen[d] = el
    if len(set(test_elements)) != len(test_elements):
        return "a test element occurs twice in one launch"
    return None


def run_launches(opname, gridname, test_kind, trial_kind, sub):
    import bempp_cl.api as api
    from bempp_cl.core import numba_kernels as NK

    g = Z.grid_with_domains(gridname)
    kw = {} if sub is None else {"segments": list(sub)}
    test = api.function_space(g, *test_kind, **kw)
    trial = api.function_space(g, *trial_kind)
    msgs, n = [], [0]
    real = NK.select_numba_kernels

    def patched(descriptor, mode="regular"):
        fa, fk = real(descriptor, mode=mode)
        if mode != "regular":
            return fa, fk

        def wrapper(*args):
            n[0] += 1
            m = launch_check(args)
            if m:
                msgs.append(m)
            return fa(*args)

        return wrapper, fk

    NK.select_numba_kernels = patched
    try:
        op = Z.boundary_operator(opname, trial, test if opname.startswith("maxwell") or True else test, test, Z.params(2, 2))
        Z.dense(op)
    finally:
        NK.select_numba_kernels = real
    return msgs, n[0]


def replay_launch(opname, gridname, test_kind, trial_kind, sub):
    msgs, n = run_launches(opname, gridname, tuple(test_kind), tuple(trial_kind), sub)
    return {"violates": bool(msgs), "message": msgs[:3], "launches": n}


LAUNCH_CASES = [("laplace_single", "screen3", ("P", 1), ("DP", 0), None), ("laplace_single", "screen3", ("P", 1), ("P", 1), (1, 2)),
                ("laplace_hyp", "octa", ("P", 1), ("P", 1), None), ("helmholtz_hyp", "screen3", ("P", 1), ("P", 1), (1, 2)),
                ("modified_hyp", "cube12", ("P", 1), ("P", 1), (2, 3)), ("helmholtz_double", "octa", ("DP", 1), ("P", 1), None),
                ("maxwell_electric", "octa", ("SNC", 0), ("RWG", 0), None), ("maxwell_magnetic", "screen3", ("SNC", 0), ("RWG", 0), (1, 2)),
                ("maxwell_electric", "cube12", ("SNC", 0), ("RWG", 0), (1, 2)), ("laplace_adjoint", "screen2", ("DP", 1), ("DP", 0), (2,)),
                ("modified_single", "tetra", ("P", 1), ("DP", 0), None)]


def ob_colouring_sequence(mesh):
    """bounded: several spaces created and coloured one after the other on the SAME grid object (same kind and support, different DOF layout: boundary dofs
    excluded / included / extended): each space's own colouring separates elements with a common dof, whatever was coloured before it."""
    import bempp_cl.api as api

    warnings.simplefilter("ignore")
    v, e = getattr(SG, mesh[0])(*mesh[1])
    ne = np.asarray(e).shape[1]
    n = 0
    subs = [None] + supports(ne, False, 11)[1:5]
    # a support that survives the pruning of dof-less elements when boundary dofs are excluded (fixed point): the spaces of a sequence then have the SAME
    # support elements and differ only in their DOF layout
    for kind0 in ("P", "RWG"):
        cur = list(range(ne))
        for _ in range(6):
            try:
                sp0 = api.function_space(SG.make_grid(v, e), kind0, 1 if kind0 == "P" else 0, support_elements=np.array(cur, dtype="uint32"), include_boundary_dofs=False)
            except Exception:  # noqa
                cur = []
                break
            nxt = [int(x) for x in sp0.support_elements]
            if nxt == cur:
                break
            cur = nxt
        if cur and cur not in subs:
            subs.append(cur)
    for sub in subs:
        for kind in ("P", "RWG", "SNC"):
            grid = SG.make_grid(v, e)
            seq = [(False, True), (True, True), (True, False), (False, False), (True, True)]
            for ib, tr in seq:
                kw = {"include_boundary_dofs": ib, "truncate_at_segment_edge": tr}
                if sub is not None:
                    kw["support_elements"] = np.array(sub, dtype="uint32")
                try:
                    s = api.function_space(grid, kind, 0 if kind != "P" else 1, **kw)
                except Exception:  # noqa
                    continue
                n += 1
                msg = colour_contract(s)
                if msg is not None:
                    return violated("%s on %s support=%s include_boundary_dofs=%s truncate_at_segment_edge=%s, created after other spaces on the same grid: %s"
                                    % (kind, mesh[0], sub, ib, tr, msg), witness={"mesh": mesh, "kind": kind, "support": sub, "sequence": seq},
                                    replay={"callable": "checks.c16:replay_colouring_sequence", "kwargs": {"mesh": mesh}, "confirmed": True}, signature="colouring-sequence/%s" % kind)
    return held("%d spaces coloured in sequences on shared grids" % n)


def replay_colouring_sequence(mesh):
    r = ob_colouring_sequence(tuple(mesh) if not isinstance(mesh, tuple) else mesh)
    return {"violates": r["status"] == "violated", "detail": r["detail"]}


def ob_launch_runtime(case):
    opname, gridname, tk, rk, sub = case
    with warnings.catch_warnings():
        warnings.simplefilter("ignore")
        msgs, n = run_launches(opname, gridname, tk, rk, sub)
    if n == 0:
        return {"status": "error", "detail": "no launch of a regular assembler observed for %s" % (case,)}
    if msgs:
        return violated("launch precondition COLOURED violated in a real assembly %s: %s" % (case, msgs[0]), witness={"case": list(map(str, case))},
                        replay={"callable": "checks.c16:replay_launch", "confirmed": True,
                                "kwargs": {"opname": opname, "gridname": gridname, "test_kind": list(tk), "trial_kind": list(rk), "sub": sub}},
                        signature="launch/%s" % opname)
    return held("%d launches meet COLOURED on their actual arguments" % n)


def ob_csr_runtime(mesh):
    """requires of get_local_interaction_matrix_impl at its call site: element_neighbor_indexptr of a real grid is non-negative and monotone"""
    v, e = getattr(SG, mesh[0])(*mesh[1])
    g = SG.make_grid(v, e)
    ptr = [int(x) for x in g.data("double").element_neighbor_indexptr]
    if ptr[0] < 0 or any(a > b for a, b in zip(ptr, ptr[1:])):
        return violated("element_neighbor_indexptr of %s is not monotone: %s" % (mesh, ptr), witness={"mesh": mesh}, replay={"confirmed": True}, signature="csr/indexptr")
    return held("element_neighbor_indexptr monotone (%d entries)" % len(ptr))


# ---- thorough: thread counts -------------------------------------------------------------------------------------------

THREAD_SCRIPT = r'''
import sys, hashlib, json, warnings
warnings.simplefilter("ignore")
import numpy as np
sys.path.insert(0, %(verif)r)
from vlib import symgrid as SG, zoo as Z
import bempp_cl.api as api
out = {}
v, e = SG.screen(5)
g = SG.make_grid(v, e)
p1 = api.function_space(g, "P", 1); dp0 = api.function_space(g, "DP", 0); rwg = api.function_space(g, "RWG", 0); snc = api.function_space(g, "SNC", 0)
par = Z.params(3, 3)
for rep in range(2):
    for name, (d, r, t) in {"laplace_single": (dp0, dp0, p1), "laplace_hyp": (p1, p1, p1), "helmholtz_double": (p1, p1, p1), "helmholtz_hyp": (p1, p1, p1),
                            "maxwell_electric": (rwg, rwg, snc), "maxwell_magnetic": (rwg, rwg, snc)}.items():
        A = Z.dense(Z.boundary_operator(name, d, r, t, par))
        out["%%s#%%d" %% (name, rep)] = hashlib.sha256(np.ascontiguousarray(A).tobytes()).hexdigest()
    from bempp_cl.api.operators.potential import laplace as PLp, maxwell as PMx
    pts = np.array([[0.3, 0.1, 0.7, 2.0], [0.2, 0.9, 0.4, 1.0], [1.0, 2.0, 0.5, 3.0]])
    f = api.GridFunction(dp0, coefficients=np.arange(dp0.global_dof_count) + 1.0)
    out["pot_single#%%d" %% rep] = hashlib.sha256(np.ascontiguousarray(PLp.single_layer(dp0, pts, parameters=par) * f).tobytes()).hexdigest()
    fr = api.GridFunction(rwg, coefficients=np.arange(rwg.global_dof_count) + 1.0)
    out["pot_efield#%%d" %% rep] = hashlib.sha256(np.ascontiguousarray(PMx.electric_field(rwg, pts, 1.3, parameters=par) * fr).tobytes()).hexdigest()
    out["mass#%%d" %% rep] = hashlib.sha256(np.ascontiguousarray(api.operators.boundary.sparse.identity(p1, p1, p1).weak_form().to_dense()).tobytes()).hexdigest()
print("RESULT " + json.dumps(out))
'''


def ob_threads():
    script = THREAD_SCRIPT % {"verif": VERIF}
    results = {}
    procs = {}
    for nt in (1, 2, 7, 16):
        env = dict(os.environ, NUMBA_NUM_THREADS=str(nt), NUMBA_DISABLE_JIT="0", PYTHONPATH=VERIF + os.pathsep + REPO)
        procs[nt] = subprocess.Popen([sys.executable, "-c", script], env=env, stdout=subprocess.PIPE, stderr=subprocess.PIPE, text=True)
    for nt, pr in procs.items():
        try:
            o, e = pr.communicate(timeout=5400)
        except subprocess.TimeoutExpired:
            pr.kill()
            return undecided("thread-count run with %d threads timed out" % nt)
        line = [x for x in o.splitlines() if x.startswith("RESULT ")]
        if pr.returncode != 0 or not line:
            return {"status": "error", "detail": "thread-count run (%d threads) failed: %s" % (nt, e[-600:])}
        results[nt] = json.loads(line[0][7:])
    diffs = []
    ref = results[1]
    for nt, r in results.items():
        for k in ref:
            base = ref[k.split("#")[0] + "#0"]
            if r[k] != base:
                diffs.append("%s with %d threads" % (k, nt))
    if diffs:
        return violated("results are not bitwise identical across thread counts / repetitions: %s" % diffs[:6], witness={"differs": diffs},
                        replay={"confirmed": True, "note": "sha256 of the assembled arrays under NUMBA_NUM_THREADS=1,2,7,16", "hashes": results}, signature="threads/bitwise")
    return held("%d arrays x 2 repetitions bitwise identical under 1, 2, 7, 16 threads (JIT on)" % (len(ref) // 2))


def ob_sort_native(gridname):
    """bounded link: on real spaces (all kinds, whole grid and segments) the contract of _sort_elements_by_color (requires, ensures and the assumed slice-range fact:
    the number of coloured elements equals number_of_support_elements) holds for the arrays the real method produces."""
    import importlib
    import bempp_cl.api as api
    from vlib import vnative as VN, zoo as Z

    c = importlib.import_module("contracts.dofmap_blocks").BLOCKS["_sort_elements_by_color"]["contract"]
    grid = Z.grid_with_domains(gridname)
    n = 0
    for kind, deg in (("DP", 0), ("DP", 1), ("P", 1), ("RWG", 0), ("SNC", 0)):
        for kw in ({}, {"segments": [2]}, {"segments": [1, 2]}, {"support_elements": [0, 3, 4]}):
            if kind != "DP":
                kw = dict(kw, include_boundary_dofs=True)
            sp = api.function_space(grid, kind, deg, **kw)
            srt, ptr = sp.get_elements_by_color()
            cm = np.asarray(sp.color_map).astype(int)
            env = {"color_map": cm, "number_of_support_elements": int(sp.number_of_support_elements), "result_0": np.asarray(srt).astype(int),
                   "result_1": np.asarray(ptr).astype(int)}
            for t in c["requires"] + c["ensures"]:
                if not VN.evaluate(t, env):
                    return violated("%s%d %s on %s: contract clause of _sort_elements_by_color fails on the real arrays: %s" % (kind, deg, kw, gridname, t[:120]),
                                    witness={"grid": gridname, "kind": kind, "kw": kw}, signature="sort-colours/native", replay={"confirmed": True})
            if int((cm >= 0).sum()) != int(sp.number_of_support_elements) or len(srt) != int(sp.number_of_support_elements):
                return violated("%s%d %s on %s: number of coloured elements differs from number_of_support_elements" % (kind, deg, kw, gridname), signature="sort-colours/cardinality",
                                replay={"confirmed": True})
            n += 1
    return held("%d spaces" % n)


def ob_not_under_contract(modname, fname):
    """frame: every function with a `prange` loop has a launch contract.  A parallel loop that appears in a function without one (new code) is analysed with the
    empty launch precondition: if two iterations can store to the same location, or it reduces into a shared scalar, the property is violated; otherwise it is
    undecided until a contract is written."""
    try:
        obs, _ = analysis(modname, fname, None)
    except Exception as ex:  # noqa
        return undecided("prange function %s.%s has no launch contract and cannot be analysed: %s" % (modname, fname, str(ex)[:200]))
    bad = []
    for i, (name, kind, _, _) in enumerate(obs):
        try:
            r = ob_prange(modname, fname, None, i)
        except Exception as ex:  # noqa
            return undecided("prange function %s.%s has no launch contract; obligation %s could not be discharged: %s" % (modname, fname, name, str(ex)[:120]))
        if r.get("status") == "violated":
            bad.append((name, r.get("detail", "")[:200]))
    if bad:
        return violated("new parallel loop in %s.%s (no launch contract): %s" % (modname, fname, bad[:3]), signature="prange/new/%s" % fname,
                        replay={"confirmed": False, "note": "structural obligation on the loop body; a schedule-dependent result needs JIT and several thread counts (thorough tier)"})
    return undecided("prange function %s.%s has no launch contract (its stores are disjoint without any precondition); add one to contracts/prange_launch.py" % (modname, fname))


def ob_not_analysable(tag, msg):
    return undecided("prange loop of %s is outside the analysed subset: %s" % (tag, msg))


def ob_contract_without_function(modname, fname):
    return {"status": "error", "detail": "contract for %s.%s matches no prange function" % (modname, fname)}


def main():
    run = Run("C16", "other")
    thorough = run.tier == "thorough"
    run.explanation = __doc__
    listed = set()
    for modname in (PL.NUMBA_KERNELS, PL.FMM_HELPERS):
        mod = importlib.import_module(modname)
        for fname, par in par_functions(modname):
            if (modname, fname) not in PL.CONTRACTS:
                run.add("%s::not-under-contract" % fname, "frame", ob_not_under_contract, modname, fname)
                continue
            listed.add((modname, fname))
            f = getattr(mod, fname)
            run.under_contract(f, qualname="%s.%s" % (modname, fname),
                               dropped="numba decorator; loop bodies abstracted to their index arithmetic (values of stores are not modelled); integers mathematical")
            for vkey, _ in variants(modname, fname):
                tag = "%s[%s]" % (fname, vkey) if vkey else fname
                try:
                    obs, _ = analysis(modname, fname, vkey)
                except Unsupported as ex:
                    run.add("%s::analysable" % tag, "frame", ob_not_analysable, tag, str(ex))
                    continue
                for i, (name, kind, _, _) in enumerate(obs):
                    nm = name.replace(fname + "::", tag + "::")
                    run.add(nm, "frame" if kind == "frame" else "post", ob_prange, modname, fname, vkey, i)
                if par:
                    run.add("%s::launch-precondition-satisfiable" % tag, "pre-sat", ob_vacuity, modname, fname, vkey)
            if par:
                run.add("%s::no-auto-parallel-reduction" % fname, "frame", ob_no_parallel_reduction, modname, fname)
                run.add("%s::callees-do-not-write-arguments" % fname, "frame", ob_callee_purity, modname, fname)
    for key in PL.CONTRACTS:
        if key not in listed:
            run.add("%s::contract-without-function" % key[1], "frame", ob_contract_without_function, key[0], key[1])
    run.add("dense_assembler::establishes-COLOURED", "pre", ob_launch_ast)
    # hypothesis "slot cover" of lemma B, proved per iteration on the mechanically extracted final loops of the P1 and RWG / SNC dof-map functions (all sizes)
    from vlib import vrun as VR

    for blk in ("_p1_numbering", "_p1_final_block", "_rwg_final_block"):
        VR.add_block(run, "contracts.dofmap_blocks", blk)
    # the greedy step specification of lemma A, proved on the mechanically extracted body of the loop of FunctionSpace._compute_color_map (sets, the generator
    # passed to next(), fancy indexing modelled as set / image-set terms), for 1 and 3 local slots: the new colour is in range and differs from the colour of
    # every element listed under one of the element's dofs; all other colours are unchanged
    for blk in ("_colour_step_ns1", "_colour_step_ns3"):
        VR.add_block(run, "contracts.dofmap_blocks", blk)
    # the launch batches: FunctionSpace._sort_elements_by_color as a whole (V-engine, all sizes): batch c holds elements of colour c only, each once, and every
    # coloured element is in its batch; np.where / slice stores are modelled by their defining properties
    VR.add_block(run, "contracts.dofmap_blocks", "_sort_elements_by_color")
    for gname in ("octa", "screen2") + (("cube12", "screen3") if thorough else ()):
        run.add("_sort_elements_by_color::native[%s]" % gname, "bounded", ob_sort_native, gname)
    run.add("_sort_elements_by_color::canary", "cover", VR.ob_block_canary, "contracts.dofmap_blocks", "_sort_elements_by_color",
            [("color_map == color", "color_map != color"), ("count += colors_length", "count += 0"), ("indexptr[index + 1] = count", "indexptr[index] = count"),
             ("sorted_indices[count:count + colors_length] = colors", "sorted_indices[0:colors_length] = colors"), ("ncolors = 1 + max(color_map)", "ncolors = max(color_map)")])
    # hypothesis "inverse" of lemma B: invert_local2global (V-engine, all sizes)
    VR.add_function(run, "bempp_cl.api.space.space", "invert_local2global", "contracts.space_maps",
                    [{"local2global_map": [[0, 1, 2], [2, 1, 3]], "local_multipliers": [[1, 1, 0], [1, -1, 1]]}, {"local2global_map": [[1, 1], [0, 1]], "local_multipliers": [[0, 1], [1, 0]]}])
    run.add("lemma.greedy-step-preserves-colouring", "lemma", ob_lemma_greedy)
    for ns in (1, 3, 6):
        run.add("lemma.neighbour-set-covers-shared-dofs[ns=%d]" % ns, "lemma", ob_lemma_neighbours, ns)
    meshes = [("tetra", ()), ("octa", ()), ("screen", (2,)), ("fan3", ())] + ([("cube12", ()), ("screen", (3,))] if thorough else [])
    for mesh in meshes:
        for kind, deg in KINDS:
            run.add("colouring[%s%s,%s%d]" % (mesh[0], "".join(map(str, mesh[1])), kind, deg), "bounded", ob_colouring, mesh, kind, deg, thorough)
        run.add("csr-indexptr[%s%s]" % (mesh[0], "".join(map(str, mesh[1]))), "bounded", ob_csr_runtime, mesh)
    for mesh in [("screen", (3,)), ("octa", ())] + ([("screen", (4,)), ("cube12", ())] if thorough else []):
        run.add("colouring-sequence[%s%s]" % (mesh[0], "".join(map(str, mesh[1]))), "bounded", ob_colouring_sequence, mesh)
    for case in (LAUNCH_CASES if thorough else LAUNCH_CASES[:6]):
        run.add("launch[%s,%s,%s%d,%s]" % (case[0], case[1], case[2][0], case[2][1], case[4]), "bounded", ob_launch_runtime, case)
    if thorough:
        run.add("threads[1,2,7,16].bitwise", "bounded", ob_threads)
    from bempp_cl.api.space import space as SP
    from bempp_cl.core import numba_assemblers as NA

    run.under_contract(NA.dense_assembler, qualname="bempp_cl.core.numba_assemblers.dense_assembler", dropped="everything but the launch loop and the bindings of its arguments")
    run.under_contract(SP.FunctionSpace._compute_color_map, qualname="bempp_cl.api.space.space.FunctionSpace._compute_color_map",
                       dropped="BOUNDED ONLY: sets / generator expressions are outside the V-engine subset; compared with the greedy specification on the sweep")
    run.under_contract(SP.FunctionSpace._sort_elements_by_color, qualname="bempp_cl.api.space.space.FunctionSpace._sort_elements_by_color", dropped="BOUNDED ONLY")
    run.bound("colouring sweep: meshes %s x 9 space kinds x supports (all sub-complexes when few, else a fixed random sample) x 4 option combinations, with localised and "
              "barycentric representations" % [m[0] + "".join(map(str, m[1])) for m in meshes])
    run.bound("launch contracts: %d real assemblies (JIT off) with the precondition checked on every launch" % (len(LAUNCH_CASES) if thorough else 6))
    if thorough:
        run.bound("thread counts 1, 2, 7, 16 on screen(5) (50 elements), 9 arrays, 2 repetitions, JIT on")
    run.assume("_compute_color_map: the generator passed to next() is not exhausted (an element has fewer distinct neighbour colours than there are support elements); the "
               "composition of the per-iteration step contract over the loop is lemma A (induction step) with the trivial initial state (all colours -1)")
    run.assume("Numba executes every prange iteration exactly once, sequentially within the iteration, and privatises arrays and scalars first assigned inside the body")
    run.assume("methods of grid_data, shapeset / basis evaluators and numpy functions called in prange bodies do not write to shared arrays (unresolved callees are listed "
               "in the callee obligations)")
    run.assume("3x2 @ 2x3 matrix products outside the prange loops are delegated to BLAS and are deterministic; fastmath reassociation is fixed at compile time")
    run.assume("spaces with a dof transformation (BC, RBC, DUAL) are rejected by the dense assembler; their colouring is still part of the sweep")
    run.assume("OpenCL kernels are not covered (no OpenCL device in this environment)")
    run.assumed_contract("store values", "the analysis decides WHERE iterations write, not WHAT: values are covered by C01-C08")
    run.assumed_contract("block preconditions of contracts/dofmap_blocks.py",
                         "each block is verified per iteration under its `requires` (rows of an unprocessed element still zero, dof numbers of marked vertices / edges "
                         "non-negative, an element kept in the support has a dof).  For RWG / SNC the last one is the postcondition of `_rwg_selection_block` together with "
                         "the frame clause (dof numbers never return to -1); the others follow from the allocation with zeros and from every element being visited once. "
                         "This composition over the loops is an argument on paper, backed by the bounded DOF-map contracts on real runs")
    return run.finish()


if __name__ == "__main__":
    sys.exit(main())
