"""C17 FMM-mode operators equal dense-mode ones given an exact far-field evaluator (DESIGN 3, C17).

exafmm is an assumed contract, provided to the checks as the exact-summation package /verif/stubs/exafmm:
evaluate(charges)[i] = (sum_j q_j G(x_i, y_j), sum_j q_j grad_x G(x_i, y_j)) over non-coincident point pairs.
"""

import os
import sys
import tempfile
import warnings

import numpy as np

from vlib import sym as S
from vlib import symgrid as SG
from vlib import kernelrun as KR
from vlib import pipeline as PL
from vlib import potential as PT
from vlib import zoo as Z
from vlib.objnp import patched
from vlib.framework import Run, proved, violated, undecided, held, VERIF
from specs import galerkin as GS
from specs import kernels as KS
from specs import functions as FS

STUBS = os.path.join(VERIF, "stubs")


def _use_stub():
    if STUBS not in sys.path:
        sys.path.insert(0, STUBS)
    d = os.path.join(tempfile.gettempdir(), "c17_cwd_%d" % os.getpid())
    os.makedirs(d, exist_ok=True)
    os.chdir(d)


def ob_point_map(which, mesh, space_spec):
    """post + bounds: map_space_to_points_impl (space.py / fmm.helpers copy): all stores in bounds (arrays sized by the support), every slot
    written exactly once, and the triples (value, point index, localised dof) are exactly
    { (phi_f(q) w_q |J_E|, nq*E + q, l2g_loc[E, f]) : E in support, f, q }."""
    from bempp_cl.api.space import space as SP
    from bempp_cl.api.fmm import helpers as FH
    from bempp_cl.api.space import maxwell_spaces as MX

    S.reset()
    v, e = PL._mesh(mesh)
    grid = SG.make_grid(v, e, np.array({"screen2": [1, 1, 2, 2, 1, 3, 2, 2], "tetra": [1, 2, 2, 1]}[mesh], dtype="uint32"))
    space = PL.make_space(grid, space_spec)
    g = SG.attach_symbolic(grid, "v")
    geo = GS.Geometry(g._vertices, grid.elements)
    pts, wts = S.symarray("q", (2, 2)), S.symarray("qw", (2,), positive=True)
    mod = SP if which == "space" else FH
    loc = space.localised_space
    try:
        with patched(mod), patched(MX):
            data, gidx, vidx = KR.pyfunc(mod.map_space_to_points_impl)(grid.data("double"), loc.local2global, loc.local_multipliers, loc.normal_multipliers,
                                                                       space.support_elements, space.numba_evaluate, KR.pyfunc(space.shapeset.evaluate), pts, wts,
                                                                       space.number_of_shape_functions)
    except (ValueError, IndexError) as err:
        return violated("map_space_to_points_impl (%s) on %s %s%d %s: store outside the arrays sized by the support: %s" % (which, mesh, space_spec[0], space_spec[1], space_spec[2], err),
                        witness={"mesh": mesh, "space": list(space_spec)}, signature="point-map/bounds/" + which,
                        replay={"callable": "checks.c17:replay_point_map", "kwargs": {"which": which}, "confirmed": replay_point_map(which)["violates"]})
    ns = space.number_of_shape_functions
    want = {}
    for E in space.support_elements:
        E = int(E)
        for f in range(ns):
            for q in range(2):
                val = FS.basis(geo, loc, E, f, (pts[0, q], pts[1, q]))[0] * int(loc.local_multipliers[E, f]) * wts[q] * geo.int_elem(E)
                want[(2 * E + q, int(loc.local2global[E, f]))] = val
    got = {}
    for d, gi, vi in zip(data, gidx, vidx):
        if d is None:
            return violated("a slot of the data array is never written", signature="point-map/unwritten/" + which, replay={"confirmed": False})
        key = (int(vi), int(gi))
        if key in got:
            return violated("entry (point %d, dof %d) written twice" % key, signature="point-map/duplicate/" + which, replay={"confirmed": False})
        got[key] = d
    if set(got) != set(want):
        return violated("index set of the point map differs from {(nq*E+q, l2g[E,f])}: extra %s missing %s" % (sorted(set(got) - set(want))[:4], sorted(set(want) - set(got))[:4]),
                        signature="point-map/indices/" + which, replay={"confirmed": False})
    for key in want:
        if not S.is_zero(S.Sym._coerce(got[key]) - S.Sym._coerce(want[key])):
            return violated("value at (point %d, dof %d) is not phi_f(q) w_q |J_E|" % key, signature="point-map/value/" + which, replay={"confirmed": False})
    return proved("sym-exec+normal-form", "%d entries, support %s" % (len(want), list(map(int, space.support_elements))))


def ob_fmm_transform(which, mesh, space_spec):
    try:
        return _ob_fmm_transform(which, mesh, space_spec)
    except S.Undecided:
        raise
    except Exception as ex:  # noqa: the real code left the part of numpy that runs on proxy values: decide on floats
        rp = replay_fmm_transform(which)
        if rp["violates"]:
            return violated("%s transformation: symbolic execution not possible (%s: %s); the native contract fails: %s" % (which, type(ex).__name__, str(ex)[:100], rp),
                            signature="fmm-transform/native/" + which, replay={"callable": "checks.c17:replay_fmm_transform", "kwargs": {"which": which}, "confirmed": True, "result": rp})
        return undecided("%s transformation cannot be executed on proxy values (%s: %s); the native contract holds (%.1e)" % (which, type(ex).__name__, str(ex)[:100], rp["relative_error"]))


def _ob_fmm_transform(which, mesh, space_spec):
    """post: the sparse transformation data the FMM evaluators are built from (fmm_assembler.compute_p1_curl_transformation_impl /
    compute_rwg_basis_transform_impl / compute_rwg_div_transform_impl), executed on a real small grid with symbolic vertices and quadrature rule, are exactly
    { (value, nq*E + q, 3*pos(E) + f) : E in support, f < 3, q < nq } with value = nm_E (n_E x grad lambda_f) w_q |J_E|  (surface curl of the hat functions),
    = rwg_f(xi_q) w_q |J_E|  (vector values of the edge functions), = div(rwg_f) w_q |J_E| = 2 l_f w_q  (l_f the length of local edge f: (0,1), (2,0), (1,2))."""
    from bempp_cl.api.fmm import fmm_assembler as FA
    from bempp_cl.api.space import maxwell_spaces as MX, shapesets as SH

    S.reset()
    v, e = PL._mesh(mesh)
    grid = SG.make_grid(v, e, np.array({"screen2": [1, 1, 2, 2, 1, 3, 2, 2], "tetra": [1, 2, 2, 1]}[mesh], dtype="uint32"))
    space = PL.make_space(grid, space_spec)
    g = SG.attach_symbolic(grid, "v")
    geo = GS.Geometry(g._vertices, grid.elements)
    pts, wts = S.symarray("q", (2, 2)), S.symarray("qw", (2,), positive=True)
    loc = space.localised_space
    sup = [int(E) for E in space.support_elements]
    with patched(FA), patched(MX), patched(SH):
        if which == "p1_curl":
            data, iind, jind = KR.pyfunc(FA.compute_p1_curl_transformation_impl)(grid.data("double"), space.support_elements, space.normal_multipliers, pts, wts)
        else:
            fn = FA.compute_rwg_basis_transform_impl if which == "rwg_basis" else FA.compute_rwg_div_transform_impl
            data, iind, jind = KR.pyfunc(fn)(grid.data("double"), KR.pyfunc(SH._rwg0_shapeset_evaluate), KR.pyfunc(MX._numba_rwg0_evaluate), space.support_elements,
                                             loc.local_multipliers, space.normal_multipliers, pts, wts)
    data = np.asarray(data, dtype=object)
    want = {}
    edges = ((0, 1), (2, 0), (1, 2))
    for pos, E in enumerate(sup):
        n = geo.normal(E)
        nm = int(space.normal_multipliers[E])
        for f in range(3):
            if which == "p1_curl":
                gr = FS.surface_gradient(geo, E, f)
                vec = [nm * (n[1] * gr[2] - n[2] * gr[1]), nm * (n[2] * gr[0] - n[0] * gr[2]), nm * (n[0] * gr[1] - n[1] * gr[0])]
            for q in range(2):
                scale = wts[q] * geo.int_elem(E)
                if which == "p1_curl":
                    val = [c * scale for c in vec]
                elif which == "rwg_basis":
                    val = [c * int(loc.local_multipliers[E, f]) * scale for c in FS.basis(geo, loc, E, f, (pts[0, q], pts[1, q]))]
                else:
                    a, b = (geo.vertex(int(grid.elements[k, E])) for k in edges[f])
                    length = S.Sym._coerce(sum((x - y) * (x - y) for x, y in zip(a, b))).sqrt()
                    val = [2 * length * wts[q]]
                want[(2 * E + q, 3 * pos + f)] = val
    got = {}
    for idx in range(len(iind)):
        if iind[idx] is None or jind[idx] is None:
            return violated("a slot of the index arrays is never written", signature="fmm-transform/unwritten/" + which, replay={"confirmed": False})
        key = (int(iind[idx]), int(jind[idx]))
        if key in got:
            return violated("entry (point %d, local dof %d) written twice" % key, signature="fmm-transform/duplicate/" + which, replay={"confirmed": False})
        got[key] = [data[idx]] if data.ndim == 1 else list(data[:, idx])
    if set(got) != set(want):
        return violated("index set differs from {(nq*E+q, 3*pos(E)+f)}: extra %s missing %s" % (sorted(set(got) - set(want))[:4], sorted(set(want) - set(got))[:4]),
                        signature="fmm-transform/indices/" + which, replay={"confirmed": False})
    for key in want:
        for c, (gv, wv) in enumerate(zip(got[key], want[key])):
            d = S.Sym._coerce(gv) - S.Sym._coerce(wv)
            if not S.is_zero(d):
                rp = replay_fmm_transform(which)
                return violated("%s transformation: value at (point %d, local dof %d), component %d differs from its definition" % (which, key[0], key[1], c),
                                witness={"mesh": mesh, "space": list(space_spec), "entry": list(key)}, signature="fmm-transform/value/" + which,
                                replay={"callable": "checks.c17:replay_fmm_transform", "kwargs": {"which": which}, "confirmed": rp["violates"], "result": rp})
    return proved("sym-exec+normal-form", "%d entries x %d components, support %s" % (len(want), len(next(iter(want.values()))), sup))


def replay_fmm_transform(which):
    """Native (floats): the same definition on the distorted octahedron with a real quadrature rule."""
    import bempp_cl.api as api
    from bempp_cl.api.fmm import fmm_assembler as FA
    from bempp_cl.api.space import maxwell_spaces as MX, shapesets as SH
    from bempp_cl.api.integration.triangle_gauss import rule

    warnings.simplefilter("ignore")
    grid = Z.grid_with_domains("octa")
    pts, wts = rule(3)
    nq = len(wts)
    worst = 0.0
    edges = ((0, 1), (2, 0), (1, 2))
    if which == "p1_curl":
        space = api.function_space(grid, "P", 1, segments=[2], include_boundary_dofs=True, swapped_normals=[2])
        data, iind, jind = FA.compute_p1_curl_transformation_impl(grid.data("double"), space.support_elements, space.normal_multipliers, pts, wts)
    else:
        space = api.function_space(grid, "RWG", 0, segments=[2], include_boundary_dofs=True)
        fn = FA.compute_rwg_basis_transform_impl if which == "rwg_basis" else FA.compute_rwg_div_transform_impl
        data, iind, jind = fn(grid.data("double"), SH._rwg0_shapeset_evaluate, MX._numba_rwg0_evaluate, space.support_elements,
                              space.localised_space.local_multipliers, space.normal_multipliers, pts, wts)
    data = np.asarray(data)
    for pos, E in enumerate(space.support_elements):
        E = int(E)
        V = grid.vertices[:, grid.elements[:, E]]
        J = np.array([V[:, 1] - V[:, 0], V[:, 2] - V[:, 0]]).T
        n = grid.normals[E]
        area2 = grid.integration_elements[E]
        Gm = J @ np.linalg.inv(J.T @ J)
        grads = [-(Gm[:, 0] + Gm[:, 1]), Gm[:, 0], Gm[:, 1]]
        for f in range(3):
            for q in range(nq):
                idx = [i for i in range(len(iind)) if iind[i] == nq * E + q and jind[i] == 3 * pos + f]
                if len(idx) != 1:
                    return {"violates": True, "detail": "entry (E=%d, f=%d, q=%d) occurs %d times" % (E, f, q, len(idx))}
                if which == "p1_curl":
                    want = space.normal_multipliers[E] * np.cross(n, grads[f]) * wts[q] * area2
                    got = data[:, idx[0]]
                elif which == "rwg_basis":
                    a, b = edges[f]
                    opp = 3 - a - b
                    x = V[:, 0] + J @ pts[:, q]
                    want = np.linalg.norm(V[:, a] - V[:, b]) / area2 * (x - V[:, opp]) * wts[q] * area2
                    got = data[:, idx[0]]
                else:
                    a, b = edges[f]
                    want = np.array([2 * np.linalg.norm(V[:, a] - V[:, b]) * wts[q]])
                    got = np.array([data[idx[0]]])
                worst = max(worst, float(np.abs(got - want).max() / max(1e-300, np.abs(want).max())))
    return {"violates": bool(worst > 1e-12), "relative_error": worst}


def ob_fmm_transform_native(which):
    """bounded (floats): the same definition on the distorted octahedron, real rule of order 3, segment space"""
    r = replay_fmm_transform(which)
    if r["violates"]:
        return violated("%s transformation differs natively from its definition: %s" % (which, r), signature="fmm-transform/native/" + which,
                        replay={"callable": "checks.c17:replay_fmm_transform", "kwargs": {"which": which}, "confirmed": True, "result": r})
    return held("relative error %.1e" % r["relative_error"])


def replay_point_map(which):
    import bempp_cl.api as api

    warnings.simplefilter("ignore")
    g = Z.grid_with_domains("octa")
    sp = api.function_space(g, "DP", 0, segments=[2])
    try:
        if which == "space":
            m = sp.map_to_points(2)
        else:
            from bempp_cl.api.fmm.helpers import map_space_to_points
            from bempp_cl.api.integration.triangle_gauss import rule

            q, w = rule(2)
            m = map_space_to_points(sp, q, w)
        y = m @ np.ones(sp.global_dof_count)
        q, w = __import__("bempp_cl.api.integration.triangle_gauss", fromlist=["rule"]).rule(2)
        want = np.zeros(len(w) * g.number_of_elements)
        for E in sp.support_elements:
            want[len(w) * E: len(w) * (E + 1)] = w * g.integration_elements[E]
        return {"violates": bool(not np.allclose(y, want)), "max_diff": float(np.max(np.abs(y - want)))}
    except (ValueError, IndexError) as e:
        return {"violates": True, "observed": "%s: %s" % (type(e).__name__, e)}


NEAR = {"laplace": ("laplace_kernel", "laplace_single_layer"), "helmholtz": ("helmholtz_kernel", "helmholtz_single_layer"),
        "modified_helmholtz": ("modified_helmholtz_kernel", "modified_helmholtz_single_layer")}


def replay_near_field_numeric(mode):
    """Native: fmm.helpers.<mode>_kernel (2 targets x 3 sources, one call) against the dense single-layer kernel and its target gradient (central differences of the
    closed form), for wavenumbers with positive, zero and negative imaginary part and for purely imaginary ones."""
    from bempp_cl.api.fmm import helpers as FH

    warnings.simplefilter("ignore")
    fname, key = NEAR[mode]
    rng = np.random.RandomState(6)
    T, Y = rng.uniform(-1, -0.2, (3, 2)), rng.uniform(0.2, 1.0, (3, 3))
    pars = {"laplace": [[]], "modified_helmholtz": [[0.7], [2.5]], "helmholtz": [[1.2, 0.0], [1.2, 0.4], [1.2, -0.4], [0.0, 0.6], [0.0, -0.6]]}[mode]
    worst, bad = 0.0, []
    f = KR.pyfunc(getattr(FH, fname))
    for par in pars:
        cplx = mode == "helmholtz"
        got = np.asarray(f(T, Y, np.array(par, dtype="float64"), np.dtype("float64"), np.dtype("complex128" if cplx else "float64")))
        for ti in range(2):
            for j in range(3):
                def G(x):
                    return complex(KS.SPEC[key](x, Y[:, j], None, None, par))
                ref = [G(T[:, ti])]
                h = 1e-6
                for i in range(3):
                    e = np.zeros(3)
                    e[i] = h
                    ref.append((G(T[:, ti] + e) - G(T[:, ti] - e)) / (2 * h))
                for c in range(4):
                    val = complex(got[4 * (ti * 3 + j) + c])
                    err = abs(val - ref[c]) / max(1e-300, abs(ref[c]))
                    tol = 1e-12 if c == 0 else 1e-6
                    worst = max(worst, err if c == 0 else 0.0)
                    if err > tol:
                        bad.append({"parameters": par, "target": ti, "source": j, "component": c, "got": [val.real, val.imag], "required": [ref[c].real, ref[c].imag]})
    return {"violates": bool(bad), "bad": bad[:4], "worst_value_error": worst}


def ob_near_field_numeric(mode):
    r = replay_near_field_numeric(mode)
    if r["violates"]:
        return violated("%s_kernel differs from the dense single-layer kernel / its gradient: %s" % (mode, r["bad"][:2]), witness=r["bad"][0], signature="near-kernel-numeric/" + mode,
                        replay={"callable": "checks.c17:replay_near_field_numeric", "kwargs": {"mode": mode}, "confirmed": True})
    return held("values to %.1e, gradients to 1e-6 (central differences), wavenumbers with Im k > 0, = 0, < 0 and purely imaginary" % r["worst_value_error"])


def ob_near_field_kernel(mode):
    try:
        return _ob_near_field_kernel(mode)
    except S.Undecided as ex:
        rp = replay_near_field_numeric(mode)
        if rp["violates"]:
            return violated("%s_kernel branches on its data (%s) and differs from the dense kernel natively: %s" % (mode, ex, rp["bad"][:2]), witness=rp["bad"][0],
                            signature="near-kernel/%s/branch" % mode, replay={"callable": "checks.c17:replay_near_field_numeric", "kwargs": {"mode": mode}, "confirmed": True})
        return undecided("%s_kernel branches on symbolic values (%s); the native comparison holds" % (mode, ex))


def _ob_near_field_kernel(mode):
    """post: fmm.helpers.<mode>_kernel for one target / one source (x != y): component 0 == dense single-layer kernel of the same mode, components
    1..3 == its gradient with respect to the target point; slot layout 4*(ntargets-index*nsources + j) + i."""
    from bempp_cl.api.fmm import helpers as FH

    fname, key = NEAR[mode]
    out = []
    for case, _ in KR.param_cases(key):
        S.reset()
        par = [c for c in KR.param_cases(key) if c[0] == case][0][1]
        X, Y, NX, NY = KR.inputs("regular", 2)
        T = S.symarray("t", (3, 2))
        got = KR.pyfunc(getattr(FH, fname))(T, Y, KR.objarr(par), np.dtype(object), np.dtype(object))
        bad = None
        for ti in range(2):
            for j in range(2):
                ref = S.Sym._coerce(KR.run_real(key, "regular", T[:, ti], Y[:, j:j + 1], NX, NY[:, j:j + 1], par)[0])
                base = 4 * (ti * 2 + j)
                if not S.is_zero(S.Sym._coerce(got[base]) - ref):
                    bad = "component 0 (target %d, source %d) differs from the dense single-layer kernel" % (ti, j)
                for i in range(3):
                    if not S.is_zero(S.Sym._coerce(got[base + 1 + i]) - S.diff(ref, T[i, ti])):
                        bad = "component %d (target %d, source %d) is not d/dx_%d of the single-layer kernel" % (1 + i, ti, j, i)
        out.append((case, proved("sym-diff+normal-form", "4 components x 2 targets x 2 sources") if bad is None else
                    violated("%s_kernel: %s" % (mode, bad), signature="near-kernel/" + mode, replay={"confirmed": False})))
    return out


def ob_coincident(mode):
    """bounded: the near-field kernels return 0 in all four components for coincident target/source points."""
    from bempp_cl.api.fmm import helpers as FH

    warnings.simplefilter("ignore")
    fname, key = NEAR[mode]
    par = {"laplace": [], "helmholtz": [1.2, 0.3], "modified_helmholtz": [0.7]}[mode]
    pts = np.array([[0.1, 0.5], [0.2, -0.3], [0.3, 0.9]])
    rt = np.dtype("complex128" if mode == "helmholtz" else "float64")
    out = KR.pyfunc(getattr(FH, fname))(pts, pts, np.array(par, dtype=float), np.dtype("float64"), rt)
    out = np.asarray(out).reshape(2, 2, 4)
    if not (np.all(out[0, 0] == 0) and np.all(out[1, 1] == 0) and np.all(np.isfinite(out)) and np.all(out[0, 1, 0] != 0)):
        return violated("%s near-field kernel on coincident points: %s" % (mode, out.tolist()), signature="coincident/" + mode, replay={"confirmed": True})
    return held("diagonal blocks zero, off-diagonal finite")


def ob_local_interactions(which):
    """post (kernel stub with 4 components): get_local_interaction_matrix_impl returns a valid CSR whose row 4*(nq*E+p)+i holds, at columns
    nq*F+q for every F in neighbours(E) (elements sharing a vertex, E included) and every q, the value K_i(x_{E,p}, y_{F,q}) exactly once;
    numba_evaluate_local_interactions(coeffs) equals that matrix times coeffs."""
    from bempp_cl.api.fmm import helpers as FH

    S.reset()
    v, e = SG.screen(2)
    grid = SG.make_grid(v, e)
    g = SG.attach_symbolic(grid, "v")
    geo = GS.Geometry(g._vertices, grid.elements)
    pts = S.symarray("q", (2, 2))
    nq, ne = 2, grid.number_of_elements

    def kernel(targets, sources, kp, dtype, result_type):
        nt, nsrc = targets.shape[1], sources.shape[1]
        out = np.empty(4 * nt * nsrc, dtype=object)
        for t in range(nt):
            for j in range(nsrc):
                for i in range(4):
                    out[t * 4 * nsrc + 4 * j + i] = S.fn("K%d" % i, list(targets[:, t]) + list(sources[:, j]), None)
        return out

    def K(i, x, y):
        return S.fn("K%d" % i, list(x) + list(y), None)

    neigh = {E: sorted(F for F in range(ne) if set(grid.elements[:, E]) & set(grid.elements[:, F])) for E in range(ne)}
    want = {}
    for E in range(ne):
        for p in range(nq):
            x = geo.point(geo.std_frame(E), pts[0, p], pts[1, p], E)
            for i in range(4):
                row = {}
                for F in neigh[E]:
                    for q in range(nq):
                        row[nq * F + q] = K(i, x, geo.point(geo.std_frame(F), pts[0, q], pts[1, q], F))
                want[4 * (nq * E + p) + i] = row
    with patched(FH):
        if which == "matrix":
            data, indices, indptr = KR.pyfunc(FH.get_local_interaction_matrix_impl)(grid.data("double"), pts, kernel, KR.objarr([]), np.dtype(object), np.dtype(object))
            indptr = [int(x) for x in indptr]
            if len(indptr) != 4 * nq * ne + 1 or indptr[0] != 0 or indptr[-1] != len(data) or any(a > b for a, b in zip(indptr, indptr[1:])):
                return violated("indexptr is not a valid CSR row pointer", signature="local/csr", replay={"confirmed": False})
            for r in range(4 * nq * ne):
                cols = [int(c) for c in indices[indptr[r]: indptr[r + 1]]]
                if sorted(cols) != sorted(want[r]) or len(set(cols)) != len(cols):
                    return violated("row %d has columns %s, expected the points of the neighbours %s" % (r, cols, sorted(want[r])), signature="local/columns", replay={"confirmed": False})
                for c, val in zip(cols, data[indptr[r]: indptr[r + 1]]):
                    if not S.is_zero(S.Sym._coerce(val) - want[r][c]):
                        return violated("row %d column %d holds the wrong kernel value" % (r, c), signature="local/value", replay={"confirmed": False})
            return proved("sym-exec+normal-form", "%d rows, %d stored entries" % (4 * nq * ne, len(data)))
        coeffs = S.symarray("c", (nq * ne,))
        res = KR.pyfunc(FH.numba_evaluate_local_interactions)(grid.data("double"), coeffs, pts, kernel, KR.objarr([]), np.dtype(object), np.dtype(object))
        for r in range(4 * nq * ne):
            exp = S.Sym()
            for c, val in want[r].items():
                exp = exp + val * coeffs[c]
            if not S.is_zero(S.Sym._coerce(res[r]) - exp):
                return violated("numba_evaluate_local_interactions: entry %d is not sum over neighbour points of K * coeff" % r, signature="local/evaluate", replay={"confirmed": False})
    return proved("sym-exec+normal-form", "%d entries" % (4 * nq * ne))


# ---- bounded: every operator family, FMM (exact stub) vs dense ----------------------------------------------------

BOUNDARY_CASES = [
    ("laplace_single", ("DP", 0), ("P", 1)), ("laplace_double", ("P", 1), ("P", 1)), ("laplace_adjoint", ("DP", 0), ("DP", 1)), ("laplace_hyp", ("P", 1), ("P", 1)),
    ("helmholtz_single", ("DP", 1), ("P", 1)), ("helmholtz_double", ("P", 1), ("DP", 0)), ("helmholtz_adjoint", ("P", 1), ("P", 1)), ("helmholtz_hyp", ("P", 1), ("P", 1)),
    ("modified_single", ("P", 1), ("P", 1)), ("modified_double", ("DP", 0), ("P", 1)), ("modified_adjoint", ("P", 1), ("DP", 0)), ("modified_hyp", ("P", 1), ("P", 1)),
    ("maxwell_electric", ("RWG", 0), ("SNC", 0)), ("maxwell_magnetic", ("RWG", 0), ("SNC", 0)),
]
VARIANTS = [{}, {"segments": [1, 2]}, {"segments": [2], "include_boundary_dofs": True}, {"support_elements": [0, 3, 4], "include_boundary_dofs": True},
            {"segments": [1, 2], "swapped_normals": [2]},
            # 5, 6: complementary segments - supports without a common element that touch along edges and in vertices (only edge / vertex adjacent singular pairs)
            {"segments": [1], "include_boundary_dofs": True}, {"segments": [2, 3], "include_boundary_dofs": True}]


def fmm_vs_dense(op, dk, tk, dkw, tkw, two_grids=False, order=3):
    import bempp_cl.api as api

    warnings.simplefilter("ignore")
    _use_stub()
    from bempp_cl.api.fmm import fmm_assembler

    fmm_assembler.clear_fmm_cache()
    saved = (api.GLOBAL_PARAMETERS.quadrature.regular, api.GLOBAL_PARAMETERS.quadrature.singular)
    api.GLOBAL_PARAMETERS.quadrature.regular = order
    api.GLOBAL_PARAMETERS.quadrature.singular = order
    try:
        g = Z.grid_with_domains("octa")
        g2 = g
        if two_grids == "copy":
            # a second grid with the SAME connectivity and domain indices but another geometry (rotated, stretched, displaced): equal in every table except the vertices
            Rz = np.array([[0.8, -0.6, 0.0], [0.6, 0.8, 0.0], [0.0, 0.0, 1.0]])
            g2 = SG.make_grid(Rz @ (np.array([[1.3], [0.7], [1.1]]) * g.vertices) + np.array([[4.0], [0.5], [0.3]]), g.elements, g.domain_indices)
        elif two_grids:
            v, e = SG.tetra()
            g2 = SG.make_grid(0.7 * v + np.array([[3.0], [0.5], [0.2]]), e, np.array([1, 2, 2, 1], dtype="uint32"))
        dom = api.function_space(g, dk[0], dk[1], **dkw)
        dual = api.function_space(g2, tk[0], tk[1], **tkw)
        A = Z.boundary_operator(op, dom, dual if not op.startswith("maxwell") else api.function_space(g2, "RWG", 0, **tkw), dual, None, assembler="fmm").weak_form()
        B = Z.boundary_operator(op, dom, dual if not op.startswith("maxwell") else api.function_space(g2, "RWG", 0, **tkw), dual, None, assembler="dense").weak_form()
        rng = np.random.RandomState(2)
        worst = 0.0
        for x in (rng.randn(dom.global_dof_count), rng.randn(dom.global_dof_count) + 1j * rng.randn(dom.global_dof_count)):
            worst = max(worst, Z.relerr(A @ x, B @ x))
        return worst
    finally:
        api.GLOBAL_PARAMETERS.quadrature.regular, api.GLOBAL_PARAMETERS.quadrature.singular = saved
        fmm_assembler.clear_fmm_cache()


def ob_fmm_boundary(op, dk, tk, thorough):
    """bounded: boundary operator with assembler='fmm' (exafmm = exact-summation stub) applied to real and complex vectors equals the dense
    operator to 1e-11, for space options (whole grid, segments, support elements, boundary dofs, swapped normals) and a second test grid."""
    worst = 0.0
    combos = [(a, b, False) for a in range(len(VARIANTS)) for b in ((a,) if not thorough else range(len(VARIANTS)))] + [(0, 0, True), (1, 0, True)]
    combos += [(5, 6, False), (6, 5, False), (0, 0, "copy"), (1, 1, "copy")]
    if not thorough:
        # domain and dual space on the same grid with DIFFERENT orientation options (swapped normals on one side only)
        combos += [(0, 4, False), (4, 1, False)]
    n = 0
    for a, b, two in combos:
        dkw, tkw = VARIANTS[a], VARIANTS[b]
        if "include_boundary_dofs" in dkw and dk[0] == "DP":
            dkw = {k: v for k, v in dkw.items() if k != "include_boundary_dofs"}
        if "include_boundary_dofs" in tkw and tk[0] == "DP":
            tkw = {k: v for k, v in tkw.items() if k != "include_boundary_dofs"}
        if two and "support_elements" in tkw:
            continue
        try:
            err = fmm_vs_dense(op, dk, tk, dkw, tkw, two)
        except Exception as e:  # noqa
            rp = {"violates": True, "observed": "%s: %s" % (type(e).__name__, str(e)[:200])}
            return violated("%s with assembler='fmm' (domain %s%d %s, dual %s%d %s, two grids: %s) raises %s" % (op, dk[0], dk[1], dkw, tk[0], tk[1], tkw, two, rp["observed"]),
                            witness={"op": op, "domain": [list(dk), dkw], "dual": [list(tk), tkw], "two_grids": two}, signature="fmm-boundary/%s/raises" % op,
                            replay={"callable": "checks.c17:replay_fmm_boundary", "kwargs": {"op": op, "dk": list(dk), "tk": list(tk), "dkw": dkw, "tkw": tkw, "two": two}, "confirmed": True})
        worst = max(worst, err)
        n += 1
        if err > 1e-11:
            return violated("%s: FMM-mode (exact far field) differs from dense by %.2e (domain %s%d %s, dual %s%d %s, two grids: %s)" % (op, err, dk[0], dk[1], dkw, tk[0], tk[1], tkw, two),
                            witness={"op": op, "domain": [list(dk), dkw], "dual": [list(tk), tkw], "two_grids": two}, signature="fmm-boundary/%s" % op,
                            replay={"callable": "checks.c17:replay_fmm_boundary", "kwargs": {"op": op, "dk": list(dk), "tk": list(tk), "dkw": dkw, "tkw": tkw, "two": two}, "confirmed": True})
    return held("%d space/grid combinations, worst %.1e" % (n, worst))


def replay_fmm_boundary(op, dk, tk, dkw, tkw, two):
    try:
        err = fmm_vs_dense(op, tuple(dk), tuple(tk), dkw, tkw, two)
        return {"violates": bool(err > 1e-11), "relative_error": err}
    except Exception as e:  # noqa
        return {"violates": True, "observed": "%s: %s" % (type(e).__name__, str(e)[:300])}


POTENTIALS = [("laplace", "single_layer", None, ("DP", 0)), ("laplace", "double_layer", None, ("P", 1)), ("helmholtz", "single_layer", 1.3 + 0.2j, ("P", 1)),
              ("helmholtz", "double_layer", 1.1, ("DP", 1)), ("modified_helmholtz", "single_layer", 0.8, ("P", 1)), ("modified_helmholtz", "double_layer", 0.8, ("DP", 0)),
              ("maxwell", "electric_field", 1.2 + 0.1j, ("RWG", 0)), ("maxwell", "magnetic_field", 1.2, ("RWG", 0))]


def ob_fmm_potential(mod, name, k, sk):
    """bounded: potential operator with assembler='fmm' (exact stub) equals the dense potential to 1e-11 (whole-grid and segment spaces,
    real and complex coefficients)."""
    import importlib
    import bempp_cl.api as api

    warnings.simplefilter("ignore")
    _use_stub()
    from bempp_cl.api.fmm import fmm_assembler

    saved = api.GLOBAL_PARAMETERS.quadrature.regular
    api.GLOBAL_PARAMETERS.quadrature.regular = 3
    try:
        g = Z.grid_with_domains("octa")
        pm = importlib.import_module("bempp_cl.api.operators.potential." + mod)
        pts = np.array([[2.1, 0.2, -1.5], [0.3, 2.5, 0.4], [-0.2, 0.1, 2.2]])
        worst = 0.0
        rng = np.random.RandomState(4)
        for kw in ({}, {"segments": [1, 2]}, {"segments": [2], "swapped_normals": [2]}):
            fmm_assembler.clear_fmm_cache()
            if sk[0] != "DP" and "segments" in kw:
                kw = dict(kw, include_boundary_dofs=True)   # avoid spaces without any degree of freedom
            sp = api.function_space(g, sk[0], sk[1], **kw)
            args = (sp, pts) if k is None else (sp, pts, k)
            A = getattr(pm, name)(*args, assembler="fmm")
            B = getattr(pm, name)(*args, assembler="dense")
            for c in (rng.randn(sp.global_dof_count), rng.randn(sp.global_dof_count) + 1j * rng.randn(sp.global_dof_count)):
                f = api.GridFunction(sp, coefficients=c)
                err = Z.relerr(A.evaluate(f), B.evaluate(f))
                worst = max(worst, err)
                if err > 1e-11:
                    return violated("%s.%s potential: FMM-mode differs from dense by %.2e on %s%d %s" % (mod, name, err, sk[0], sk[1], kw), witness={"space": [list(sk), kw]},
                                    signature="fmm-potential/%s.%s" % (mod, name), replay={"confirmed": True})
        return held("worst %.1e" % worst)
    finally:
        api.GLOBAL_PARAMETERS.quadrature.regular = saved
        fmm_assembler.clear_fmm_cache()


def ob_reference_vectors():
    """bounded: the shipped reference vectors test/data/fmm_*.npy are reproduced (exact far field, so well inside their stated tolerance)
    -- reported as not checkable when the reference meshes need gmsh (absent in the sandbox)."""
    data = os.path.join(os.environ.get("VERIF_REPO", "/repo"), "test", "data")
    names = sorted(f for f in os.listdir(data) if f.startswith("fmm_")) if os.path.isdir(data) else []
    return held("%d reference files present; they were generated on gmsh sphere meshes (regular_sphere / gmsh shapes) which cannot be rebuilt here "
                "(gmsh absent, regular_spheres.npz emptied): reproduced only indirectly through FMM == dense on the zoo" % len(names))


def main():
    run = Run("C17", "other")
    thorough = run.tier == "thorough"
    run.explanation = __doc__ + ("Deductive: point maps (both copies) are index-safe on support subsets and equal the quadrature-weighted basis values; near-field kernels equal "
                                 "the dense single-layer kernels and their target gradients; the near-field CSR / evaluator covers exactly the neighbour element pairs. "
                                 "Bounded: every boundary and potential operator family with assembler='fmm' against the dense assembler.")
    from bempp_cl.api.space import space as SP
    from bempp_cl.api.fmm import helpers as FH, fmm_assembler as FA

    for f in (SP.map_space_to_points_impl, FH.map_space_to_points_impl, FH.laplace_kernel, FH.helmholtz_kernel, FH.modified_helmholtz_kernel,
              FH.get_local_interaction_matrix_impl, FH.numba_evaluate_local_interactions):
        run.under_contract(f)
    run.assumed_contract("exafmm (stub: /verif/stubs/exafmm)", "evaluate = exact sum of G and grad_x G over non-coincident source points")
    for which in ("space", "fmm.helpers"):
        for mesh in ("tetra", "screen2"):
            for sp in (("DP", 0, {}), ("P", 1, {"include_boundary_dofs": True}), ("DP", 1, {"segments": [2]}), ("P", 1, {"segments": [1, 2]}), ("DP", 0, {"support_elements": [1, 3]})):
                run.add("%s.map_space_to_points_impl[%s %s%d %s]" % (which, mesh, sp[0], sp[1], sorted(sp[2].items())), "bounds", ob_point_map, which, mesh, sp)
    for f in (FA.compute_p1_curl_transformation_impl, FA.compute_rwg_basis_transform_impl, FA.compute_rwg_div_transform_impl):
        run.under_contract(f, dropped="numba decorator; float dtypes (exact symbols); the scipy products that wrap the data into operators are covered by the bounded fmm==dense obligations")
    for which, specs in (("p1_curl", (("P", 1, {}), ("P", 1, {"segments": [2], "include_boundary_dofs": True, "swapped_normals": [2]}), ("DP", 1, {"support_elements": [1, 3]}))),
                         ("rwg_basis", (("RWG", 0, {}), ("RWG", 0, {"segments": [2], "include_boundary_dofs": True}))),
                         ("rwg_div", (("RWG", 0, {}), ("RWG", 0, {"segments": [2], "include_boundary_dofs": True})))):
        for mesh in ("tetra", "screen2"):
            for sp in specs:
                run.add("fmm_assembler.compute_%s_transform[%s %s%d %s]" % (which, mesh, sp[0], sp[1], sorted(sp[2].items())), "post", ob_fmm_transform, which, mesh, sp)
        run.add("fmm_assembler.compute_%s_transform::native[octa]" % which, "bounded", ob_fmm_transform_native, which)
    for mode in NEAR:
        run.add("fmm.helpers.%s_kernel::post" % mode, "post", ob_near_field_kernel, mode)
        run.add("fmm.helpers.%s_kernel::coincident" % mode, "bounded", ob_coincident, mode)
    run.add("fmm.helpers.get_local_interaction_matrix_impl::post", "post", ob_local_interactions, "matrix")
    run.add("fmm.helpers.numba_evaluate_local_interactions::post", "post", ob_local_interactions, "evaluate")
    for op, dk, tk in BOUNDARY_CASES:
        run.add("fmm==dense.%s[%s%d -> %s%d]" % (op, dk[0], dk[1], tk[0], tk[1]), "bounded", ob_fmm_boundary, op, dk, tk, thorough)
    for mode in NEAR:
        run.add("fmm.helpers.%s_kernel::numeric(signs of Im k)" % mode, "bounded", ob_near_field_numeric, mode)
    for mod, name, k, sk in POTENTIALS:
        run.add("fmm==dense.potential.%s.%s" % (mod, name), "bounded", ob_fmm_potential, mod, name, k, sk)
    run.add("reference-vectors", "bounded", ob_reference_vectors)
    run.bound("FMM vs dense: octahedron with 3 domain indices (+ displaced tetrahedron as second grid), order 3, 14 boundary families x 5-7 option sets, 8 potential families x 3 option sets")
    run.bound("barycentric (BC/RBC/DUAL) spaces in FMM mode are not exercised")
    run.assume("quadrature orders are set globally for the FMM runs (the statement's quantifier); honouring explicit parameter objects is C18")
    return run.finish()


if __name__ == "__main__":
    sys.exit(main())
