"""C18 results depend only on explicit arguments, not on process history (DESIGN 3, C18).

Deductive parts
  * frame / dependency contracts (AST): every textual read of process-global mutable state (GLOBAL_PARAMETERS, DEFAULT_PRECISION,
    DEFAULT_DEVICE_INTERFACE, the FMM caches) anywhere under bempp_cl/ must sit in a function listed in READS_ALLOWED, each entry with the
    reason why it cannot influence a result after construction. (Over-approximation: any textual use counts as a read.)
  * cache-key contract: every attribute of the parameter object that the cached FMM interface is built from is a component of the key.
  * parameter-object contract (executed with recording quadrature stubs): dense, singular, sparse, potential and FMM assemblers request
    exactly the orders of the explicit parameter object, whatever the global object holds.
Bounded part: scripted call histories against a fresh interpreter.
"""

import ast
import itertools
import json
import os
import subprocess
import sys
import tempfile
import warnings

import numpy as np

from vlib import symgrid as SG
from vlib import zoo as Z
from vlib.framework import Run, proved, violated, undecided, held, VERIF, REPO

GLOBAL_NAMES = {"GLOBAL_PARAMETERS", "DEFAULT_PRECISION", "DEFAULT_DEVICE_INTERFACE", "DEFAULT_DEVICE", "_FMM_CACHE", "_FMM_POTENTIAL_CACHE"}

# function (module path relative to bempp_cl, qualified name) -> why the read is harmless for results
READS_ALLOWED = {
    ("api/__init__.py", "<module>"): "definition of the globals",
    ("api/utils/helpers.py", "assign_parameters"): "resolution of parameters=None at construction time (the operator then holds the object it was given)",
    ("api/operators/boundary/common.py", "create_operator"): "default precision / device resolved at construction",
    ("api/operators/boundary/common.py", "create_multitrace_operator"): "default precision / device resolved at construction",
    ("api/assembly/assembler.py", "AssemblerInterface.__init__"): "default device interface resolved at construction",
    ("api/assembly/assembler.py", "select_potential_implementation"): "default device interface resolved at construction",
    ("api/assembly/boundary_operator.py", "ZeroBoundaryOperator.__init__"): "parameter object stored at construction; the zero operator has no quadrature",
    ("api/space/space.py", "map_space_to_points"): "only when the caller passes quadrature_order=None (all library callers pass the order explicitly)",
    ("api/grid/grid.py", "Grid.map_to_point_cloud"): "only when neither order nor local_points is given (all library callers pass one)",
    ("api/utils/timing.py", "*"): "logging / timing switches, no effect on results",
    ("api/fmm/fmm_assembler.py", "get_fmm_interface"): "cache lookup (key contract checked separately)",
    ("api/fmm/fmm_assembler.py", "get_fmm_potential_interface"): "cache lookup (key contract checked separately)",
    ("api/fmm/fmm_assembler.py", "clear_fmm_cache"): "cache reset",
    ("api/fmm/fmm_assembler.py", "<module>"): "definition of the caches",
    ("api/fmm/helpers.py", "get_local_interaction_operator"): "default device interface resolved when the interface is constructed",
    ("api/fmm/exafmm.py", "ExafmmInterface.__init__"): "dense_evaluation / debug switches captured at construction when not given explicitly",
    ("api/space/space.py", "FunctionSpace.mass_matrix"): "the cached mass matrix is keyed by the global regular order: the value returned is the one the current global "
                                                        "parameters give, independent of earlier calls",
}
for _f in ("laplace", "helmholtz", "modified_helmholtz", "maxwell"):
    for _d in ("potential", "far_field"):
        READS_ALLOWED[("api/operators/%s/%s.py" % (_d, _f), "*")] = "default precision resolved at construction"


def _qualname(stack):
    return ".".join(stack) if stack else "<module>"


def scan_reads(root):
    """(module, function) -> sorted list of (line, name) of textual reads of global state."""
    out = {}
    base = os.path.join(root, "bempp_cl")
    for dirpath, _, files in os.walk(base):
        if "external" in dirpath:
            continue
        for fn in files:
            if not fn.endswith(".py"):
                continue
            path = os.path.join(dirpath, fn)
            rel = os.path.relpath(path, base)
            try:
                tree = ast.parse(open(path).read())
            except SyntaxError:
                continue

            def walk(node, stack):
                for child in ast.iter_child_nodes(node):
                    if isinstance(child, (ast.FunctionDef, ast.ClassDef)):
                        walk(child, stack + [child.name])
                        continue
                    name = None
                    if isinstance(child, ast.Name) and child.id in GLOBAL_NAMES:
                        name = child.id
                    elif isinstance(child, ast.Attribute) and child.attr in GLOBAL_NAMES:
                        name = child.attr
                    elif isinstance(child, ast.ImportFrom) and any(a.name in GLOBAL_NAMES for a in child.names):
                        name = [a.name for a in child.names if a.name in GLOBAL_NAMES][0]
                    elif isinstance(child, ast.Global):
                        continue
                    if name:
                        out.setdefault((rel, _qualname(stack)), []).append((child.lineno, name))
                    walk(child, stack)

            walk(tree, [])
    return out


# process-global mutable state that functions of the package may write, with the reason why it cannot make a result depend on the history
STATE_ALLOWED = {
    ("api/__init__.py", "CONSOLE_LOGGING_HANDLER"): "logging handler",
    ("api/fmm/fmm_assembler.py", "_FMM_CACHE"): "FMM interface cache (key contract: cache-key.get_fmm_interface)",
    ("api/fmm/fmm_assembler.py", "_FMM_POTENTIAL_CACHE"): "FMM potential interface cache (key contract: cache-key.get_fmm_potential_interface)",
    ("api/fmm/exafmm.py", "FMM_TMP_DIR"): "path of the temporary directory of the FMM library",
    ("api/utils/remote_operator.py", "_REMOTE_MANAGER"): "MPI remote manager singleton (not used by assembly)",
    ("core/opencl_kernels.py", "_DEFAULT_CPU_CONTEXT"): "OpenCL device selection (OpenCL execution is not covered)",
    ("core/opencl_kernels.py", "_DEFAULT_CPU_DEVICE"): "OpenCL device selection",
    ("core/opencl_kernels.py", "_DEFAULT_GPU_CONTEXT"): "OpenCL device selection",
    ("core/opencl_kernels.py", "_DEFAULT_GPU_DEVICE"): "OpenCL device selection",
}
_MUTATORS = ("append", "add", "update", "setdefault", "pop", "clear", "extend", "insert", "remove", "popitem")


def scan_state_writes(root):
    """{(module, name): [(function, line)]}: module-level names bound to a container / None at module level and written (rebound through `global`, item
    / attribute store, mutating method call) inside a function of the same module."""
    out = {}
    base = os.path.join(root, "bempp_cl")
    for dp, dn, fn in os.walk(base):
        for f in fn:
            if not f.endswith(".py"):
                continue
            path = os.path.join(dp, f)
            rel = os.path.relpath(path, base)
            try:
                tree = ast.parse(open(path).read())
            except SyntaxError:
                continue
            names = set()
            for st in tree.body:
                if isinstance(st, (ast.Assign, ast.AnnAssign)):
                    v = st.value
                    mutable = isinstance(v, (ast.Dict, ast.List, ast.Set, ast.DictComp, ast.ListComp, ast.SetComp)) or (isinstance(v, ast.Constant) and v.value is None) or (
                        isinstance(v, ast.Call) and ast.unparse(v.func).split(".")[-1] in ("dict", "list", "set", "defaultdict", "OrderedDict", "WeakValueDictionary", "lru_cache"))
                    for t in (st.targets if isinstance(st, ast.Assign) else [st.target]):
                        if isinstance(t, ast.Name) and mutable:
                            names.add(t.id)
            # functools caches on functions are process-global state as well
            for node in ast.walk(tree):
                if isinstance(node, ast.FunctionDef):
                    for dec in node.decorator_list:
                        if ast.unparse(dec).split("(")[0].split(".")[-1] in ("lru_cache", "cache"):
                            out.setdefault((rel, "@%s(%s)" % (ast.unparse(dec).split("(")[0], node.name)), []).append((node.name, node.lineno))
            for node in ast.walk(tree):
                if not isinstance(node, (ast.FunctionDef, ast.AsyncFunctionDef)):
                    continue
                globs = set()
                for n in ast.walk(node):
                    if isinstance(n, ast.Global):
                        globs.update(n.names)
                for n in ast.walk(node):
                    if isinstance(n, (ast.Assign, ast.AugAssign)):
                        for t in (n.targets if isinstance(n, ast.Assign) else [n.target]):
                            b = t
                            while isinstance(b, (ast.Subscript, ast.Attribute)):
                                b = b.value
                            if isinstance(b, ast.Name) and ((b is not t and b.id in names) or (b is t and b.id in globs)):
                                out.setdefault((rel, b.id), []).append((node.name, n.lineno))
                    if isinstance(n, ast.Call) and isinstance(n.func, ast.Attribute) and n.func.attr in _MUTATORS and isinstance(n.func.value, ast.Name) and n.func.value.id in names:
                        out.setdefault((rel, n.func.value.id), []).append((node.name, n.lineno))
    return out


def ob_state_writes():
    """frame: the functions of the package write no process-global mutable state other than the listed one.  New global state (e.g. a memo table) is
    not a violation by itself - its key may be complete - so it is reported as UNDECIDED ("not under a frame contract"); the scripted histories decide
    whether results actually depend on it."""
    writes = scan_state_writes(REPO)
    res = []
    for key, where in sorted(writes.items()):
        lab = "%s::%s" % key
        if key in STATE_ALLOWED:
            res.append((lab, proved("ast-frame", "listed: %s" % STATE_ALLOWED[key])))
        else:
            res.append((lab, undecided("process-global state %s is written by %s and is under no frame / key contract: results may depend on the call history "
                                       "(see the history obligations)" % (lab, sorted(set(where))), backend="ast-frame")))
    if not res:
        return {"status": "error", "detail": "no global state found at all (scanner broken?)"}
    return res


def ob_frame():
    """frame: reads of process-global state ⊆ READS_ALLOWED."""
    reads = scan_reads(REPO)
    res = []
    known_bad = []
    for (mod, fun), where in sorted(reads.items()):
        allowed = (mod, fun) in READS_ALLOWED or (mod, "*") in READS_ALLOWED
        lab = "%s::%s" % (mod, fun)
        if allowed:
            res.append((lab, proved("ast-frame", "allowed: %s" % (READS_ALLOWED.get((mod, fun)) or READS_ALLOWED.get((mod, "*"))))))
        else:
            res.append((lab, violated("%s reads %s at line(s) %s: a result computed after construction depends on the current global parameters, not on the parameter "
                                      "object the operator was given" % (lab, sorted({n for _, n in where}), sorted({l for l, _ in where})),
                                      witness={"module": mod, "function": fun, "lines": sorted({l for l, _ in where})}, backend="ast-frame",
                                      signature="frame/%s::%s" % (mod, fun),
                                      replay={"callable": "checks.c18:replay_explicit_parameters", "kwargs": {"assembler": "fmm"},
                                              "confirmed": replay_explicit_parameters("fmm")["violates"] if mod.startswith("api/fmm/fmm_assembler") else False})))
    return res


def ob_cache_key(funcname):
    """post: in get_fmm_interface / get_fmm_potential_interface the cached object is built only from components of `key`: every
    `parameters.<group>.<attr>` read by the function and by ExafmmInterface.from_grid / get_local_interaction_operator (for the boundary
    interface) appears in the key tuple, as do the arguments that reach the constructor."""
    src = open(os.path.join(REPO, "bempp_cl/api/fmm/fmm_assembler.py")).read()
    tree = ast.parse(src)
    fd = [n for n in tree.body if isinstance(n, ast.FunctionDef) and n.name == funcname][0]
    key = None
    for node in ast.walk(fd):
        if isinstance(node, ast.Assign) and isinstance(node.targets[0], ast.Name) and node.targets[0].id == "key" and isinstance(node.value, ast.Tuple):
            key = {ast.unparse(e) for e in node.value.elts}
    if key is None:
        return undecided("no `key = (...)` tuple in %s" % funcname)

    def param_reads(node):
        out = set()
        for n in ast.walk(node):
            if isinstance(n, ast.Attribute) and isinstance(n.value, ast.Attribute) and isinstance(n.value.value, ast.Name) and n.value.value.id in ("parameters",):
                out.add("parameters.%s.%s" % (n.value.attr, n.attr))
            if isinstance(n, ast.Attribute) and isinstance(n.value, ast.Attribute) and ast.unparse(n.value.value).endswith("GLOBAL_PARAMETERS"):
                out.add("GLOBAL.%s.%s" % (n.value.attr, n.attr))
        return out

    needed = param_reads(fd)
    if funcname == "get_fmm_interface":
        ex = ast.parse(open(os.path.join(REPO, "bempp_cl/api/fmm/exafmm.py")).read())
        fg = [n for n in ast.walk(ex) if isinstance(n, ast.FunctionDef) and n.name == "from_grid"][0]
        needed |= param_reads(fg)
        hp = ast.parse(open(os.path.join(REPO, "bempp_cl/api/fmm/helpers.py")).read())
        lo = [n for n in ast.walk(hp) if isinstance(n, ast.FunctionDef) and n.name == "get_local_interaction_operator"][0]
        needed |= param_reads(lo)
        for n in ast.walk(lo):
            if isinstance(n, ast.Attribute) and isinstance(n.value, ast.Attribute) and isinstance(n.value.value, ast.Name) and n.value.value.id == "GLOBAL_PARAMETERS":
                needed.add("GLOBAL.%s.%s" % (n.value.attr, n.attr))
        needed.add("device_interface")
    missing = sorted(x for x in needed if x not in key)
    if missing:
        rp = replay_cache_history()
        return violated("%s: the cached FMM interface depends on %s which %s not part of the cache key %s -- a later request with other values gets the stale object"
                        % (funcname, missing, "is" if len(missing) == 1 else "are", sorted(key)), witness={"function": funcname, "missing": missing}, backend="ast-frame",
                        signature="cache-key/%s" % funcname,
                        replay={"callable": "checks.c18:replay_cache_history", "kwargs": {}, "confirmed": rp["violates"], "result": rp})
    return proved("ast-frame", "key components %s cover the dependencies %s" % (sorted(key), sorted(needed)))


# ---- explicit parameter object honoured: recording stubs ----------------------------------------------------------


def _requested_orders(assembler, kind):
    """Orders requested from triangle_gauss.rule / duffy_galerkin.rule while assembling with an explicit parameter object (5, 7),
    the global object holding (3, 4)."""
    import bempp_cl.api as api
    from bempp_cl.api.integration import triangle_gauss, duffy_galerkin
    from bempp_cl.api.operators.boundary import laplace, sparse, maxwell, helmholtz
    from bempp_cl.api.operators.potential import laplace as plaplace, maxwell as pmaxwell

    warnings.simplefilter("ignore")
    if assembler == "fmm":
        stubs = os.path.join(VERIF, "stubs")
        if stubs not in sys.path:
            sys.path.insert(0, stubs)
        os.chdir(tempfile.mkdtemp(prefix="c18_"))
        from bempp_cl.api.fmm import fmm_assembler

        fmm_assembler.clear_fmm_cache()
    reg, sing, npts = [], [], []
    saved = (triangle_gauss.rule, duffy_galerkin.rule, triangle_gauss.get_number_of_quad_points, api.GLOBAL_PARAMETERS.quadrature.regular, api.GLOBAL_PARAMETERS.quadrature.singular)

    def rrule(order):
        reg.append(int(order))
        return saved[0](order)

    def drule(order, adjacency):
        sing.append(int(order))
        return saved[1](order, adjacency)

    def nq(order):
        npts.append(int(order))
        return saved[2](order)

    triangle_gauss.rule, duffy_galerkin.rule, triangle_gauss.get_number_of_quad_points = rrule, drule, nq
    api.GLOBAL_PARAMETERS.quadrature.regular, api.GLOBAL_PARAMETERS.quadrature.singular = 3, 4
    try:
        par = Z.params(5, 7)
        g = Z.grid_with_domains("octa")
        p1, dp0 = api.function_space(g, "P", 1), api.function_space(g, "DP", 0)
        rwg, snc = api.function_space(g, "RWG", 0), api.function_space(g, "SNC", 0)
        x = np.ones(p1.global_dof_count)
        if kind == "scalar":
            laplace.single_layer(p1, p1, p1, parameters=par, assembler=assembler).weak_form() @ x
        elif kind == "hypersingular":
            helmholtz.hypersingular(p1, p1, p1, 1.1, parameters=par, assembler=assembler).weak_form() @ x
        elif kind == "maxwell":
            maxwell.electric_field(rwg, rwg, snc, 1.1, parameters=par, assembler=assembler).weak_form() @ np.ones(rwg.global_dof_count)
        elif kind == "sparse":
            sparse.identity(p1, p1, p1, parameters=par).weak_form()
        elif kind == "potential":
            pts = np.array([[2.0], [0.3], [0.1]])
            plaplace.double_layer(p1, pts, parameters=par, assembler=assembler).evaluate(api.GridFunction(p1, coefficients=x))
        elif kind == "maxwell-potential":
            pts = np.array([[2.0], [0.3], [0.1]])
            pmaxwell.electric_field(rwg, pts, 1.1, parameters=par, assembler=assembler).evaluate(api.GridFunction(rwg, coefficients=np.ones(rwg.global_dof_count)))
        elif kind == "gridfunction":
            @api.callable(vectorized=True)
            def f(xx, n, d, res):
                res[0, :] = xx[0]
            api.GridFunction(p1, fun=f, parameters=par).projections()
    finally:
        triangle_gauss.rule, duffy_galerkin.rule, triangle_gauss.get_number_of_quad_points = saved[:3]
        api.GLOBAL_PARAMETERS.quadrature.regular, api.GLOBAL_PARAMETERS.quadrature.singular = saved[3:]
        if assembler == "fmm":
            fmm_assembler.clear_fmm_cache()
    return sorted(set(reg + npts)), sorted(set(sing))


def replay_explicit_parameters(assembler, kind="scalar"):
    try:
        reg, sing = _requested_orders(assembler, kind)
    except Exception as e:  # noqa
        return {"violates": True, "observed": "%s: %s" % (type(e).__name__, str(e)[:300])}
    ok = reg == [5] and sing in ([7], [])
    return {"violates": not ok, "regular_orders_requested": reg, "singular_orders_requested": sing, "required": {"regular": [5], "singular": [7]}}


def ob_explicit_parameters(assembler, kind):
    """post: with parameters=P (regular 5, singular 7) and GLOBAL_PARAMETERS at (3, 4) the assembler requests regular rules of order 5 only and
    singular rules of order 7 only."""
    rp = replay_explicit_parameters(assembler, kind)
    if rp["violates"]:
        return violated("%s assembler (%s): quadrature orders requested %s / %s although the operator's parameter object says regular 5, singular 7 (global: 3, 4)"
                        % (assembler, kind, rp.get("regular_orders_requested"), rp.get("singular_orders_requested")) + (" -- " + rp["observed"] if "observed" in rp else ""),
                        witness={"assembler": assembler, "kind": kind}, signature="explicit-parameters/%s/%s" % (assembler, kind),
                        replay={"callable": "checks.c18:replay_explicit_parameters", "kwargs": {"assembler": assembler, "kind": kind}, "confirmed": True, "result": rp})
    return proved("exec+recording-stubs", "regular %s singular %s" % (rp["regular_orders_requested"], rp["singular_orders_requested"]))


def replay_cache_history():
    """History: FMM operator at global regular order 3, then change the order to 5 and build the same operator again: must equal the dense
    operator at order 5 (a stale cached interface with order-3 points breaks it)."""
    import bempp_cl.api as api
    from bempp_cl.api.operators.boundary import laplace

    warnings.simplefilter("ignore")
    stubs = os.path.join(VERIF, "stubs")
    if stubs not in sys.path:
        sys.path.insert(0, stubs)
    os.chdir(tempfile.mkdtemp(prefix="c18_"))
    from bempp_cl.api.fmm import fmm_assembler

    fmm_assembler.clear_fmm_cache()
    saved = (api.GLOBAL_PARAMETERS.quadrature.regular, api.GLOBAL_PARAMETERS.quadrature.singular)
    try:
        g = Z.grid_with_domains("octa")
        dp0 = api.function_space(g, "DP", 0)
        x = np.arange(1.0, dp0.global_dof_count + 1)
        api.GLOBAL_PARAMETERS.quadrature.regular, api.GLOBAL_PARAMETERS.quadrature.singular = 3, 3
        laplace.single_layer(dp0, dp0, dp0, assembler="fmm").weak_form() @ x
        api.GLOBAL_PARAMETERS.quadrature.regular = 5
        try:
            y = laplace.single_layer(dp0, dp0, dp0, assembler="fmm").weak_form() @ x
        except Exception as e:  # noqa
            return {"violates": True, "observed": "%s: %s" % (type(e).__name__, str(e)[:200])}
        ref = laplace.single_layer(dp0, dp0, dp0, assembler="dense").weak_form() @ x
        err = Z.relerr(y, ref)
        return {"violates": bool(err > 1e-10), "relative_error": err}
    finally:
        api.GLOBAL_PARAMETERS.quadrature.regular, api.GLOBAL_PARAMETERS.quadrature.singular = saved
        fmm_assembler.clear_fmm_cache()


def ob_memoisation():
    """post: repeated weak_form() / mass_matrix() / barycentric_refinement return the identical object; strong_form reuses the weak form."""
    import bempp_cl.api as api
    from bempp_cl.api.operators.boundary import laplace, sparse

    warnings.simplefilter("ignore")
    g = Z.grid_with_domains("octa")
    p1 = api.function_space(g, "P", 1)
    par = Z.params(2, 2)
    ops = [laplace.single_layer(p1, p1, p1, parameters=par), sparse.identity(p1, p1, p1, parameters=par), 2.0 * laplace.single_layer(p1, p1, p1, parameters=par),
           laplace.single_layer(p1, p1, p1, parameters=par) + sparse.identity(p1, p1, p1, parameters=par)]
    for op in ops:
        if op.weak_form() is not op.weak_form():
            return violated("%s.weak_form() returns a new object on the second call" % type(op).__name__, signature="memo/weak_form", replay={"confirmed": True})
    if p1.mass_matrix() is not p1.mass_matrix() or g.barycentric_refinement is not g.barycentric_refinement:
        return violated("mass_matrix / barycentric_refinement not memoised", signature="memo/space", replay={"confirmed": True})
    return proved("exec", "4 operator kinds, mass matrix, barycentric refinement")


# ---- bounded: scripted histories vs a fresh interpreter --------------------------------------------------------------

HISTORY_SCRIPT = r'''
import sys, os, json, warnings, tempfile
warnings.simplefilter("ignore")
sys.path.insert(0, %(verif)r); sys.path.insert(0, os.path.join(%(verif)r, "stubs"))
os.chdir(tempfile.mkdtemp(prefix="c18h_"))
import numpy as np
import bempp_cl.api as api
from bempp_cl.api.operators.boundary import laplace, helmholtz, sparse
from bempp_cl.api.operators.potential import laplace as plaplace
from bempp_cl.api.fmm import fmm_assembler
from vlib import zoo as Z
g = Z.grid_with_domains("octa")
SP = {}
def space(kind):
    if kind not in SP:
        SP[kind] = api.function_space(g, *{"p1": ("P", 1), "dp0": ("DP", 0)}[kind])
    return SP[kind]
P = Z.params(4, 5)
def other_grid():
    """a different grid with the same number of elements and vertices: elements renumbered, local vertex order rotated, translated"""
    from vlib import symgrid as SG
    el = np.roll(g.elements, 3, axis=1).copy()
    for j in range(el.shape[1]):
        el[:, j] = np.roll(el[:, j], j %% 3)
    return SG.make_grid(g.vertices + np.array([[5.0], [0.3], [-0.2]]), el, np.roll(g.domain_indices, 3))
def final():
    """the designated operators: explicit parameter object, dense + fmm + potential + sparse; global parameters put back to fixed values first"""
    api.GLOBAL_PARAMETERS.quadrature.regular, api.GLOBAL_PARAMETERS.quadrature.singular = 4, 4
    api.GLOBAL_PARAMETERS.fmm.expansion_order, api.GLOBAL_PARAMETERS.fmm.ncrit, api.GLOBAL_PARAMETERS.fmm.near_field_representation = 5, 400, "evaluate"
    p1, dp0 = space("p1"), space("dp0")
    x = np.arange(1.0, dp0.global_dof_count + 1)
    out = {}
    out["dense"] = (laplace.single_layer(dp0, p1, p1, parameters=P).weak_form() @ x).tolist()
    out["fmm"] = np.real(helmholtz.double_layer(p1, p1, dp0, 1.3, parameters=P, assembler="fmm").weak_form() @ np.ones(p1.global_dof_count)).tolist()
    out["sparse"] = (sparse.identity(p1, p1, dp0, parameters=P).weak_form() @ np.ones(p1.global_dof_count)).tolist()
    out["strong"] = (laplace.single_layer(dp0, p1, p1, parameters=P).strong_form() @ x).tolist()
    out["mass"] = (p1.mass_matrix() @ np.ones(p1.global_dof_count)).tolist()
    pts = np.array([[2.0, 0.1], [0.3, 2.2], [0.1, -0.4]])
    out["potential"] = plaplace.single_layer(dp0, pts, parameters=P).evaluate(api.GridFunction(dp0, coefficients=x)).ravel().tolist()
    out["potential-fmm"] = plaplace.single_layer(dp0, pts, parameters=P, assembler="fmm").evaluate(api.GridFunction(dp0, coefficients=x)).ravel().tolist()
    return out
ACTIONS = {
  "create+weak dense": lambda: laplace.single_layer(space("dp0"), space("p1"), space("p1")).weak_form(),
  "create+weak fmm": lambda: laplace.single_layer(space("dp0"), space("p1"), space("p1"), assembler="fmm").weak_form() @ np.ones(space("dp0").global_dof_count),
  "strong form": lambda: (laplace.single_layer(space("dp0"), space("dp0"), space("dp0")).strong_form(), laplace.single_layer(space("dp0"), space("p1"), space("p1")).strong_form()),
  "set quadrature 2/2": lambda: (setattr(api.GLOBAL_PARAMETERS.quadrature, "regular", 2), setattr(api.GLOBAL_PARAMETERS.quadrature, "singular", 2)),
  "set quadrature 1/1": lambda: (setattr(api.GLOBAL_PARAMETERS.quadrature, "regular", 1), setattr(api.GLOBAL_PARAMETERS.quadrature, "singular", 1)),
  "set quadrature 6/3": lambda: (setattr(api.GLOBAL_PARAMETERS.quadrature, "regular", 6), setattr(api.GLOBAL_PARAMETERS.quadrature, "singular", 3)),
  "set fmm params": lambda: (setattr(api.GLOBAL_PARAMETERS.fmm, "expansion_order", 7), setattr(api.GLOBAL_PARAMETERS.fmm, "ncrit", 50), setattr(api.GLOBAL_PARAMETERS.fmm, "near_field_representation", "sparse")),
  "clear_fmm_cache": lambda: fmm_assembler.clear_fmm_cache(),
  "create space": lambda: api.function_space(g, "DP", 1),
  "mass_matrix": lambda: space("p1").mass_matrix(),
  "dense on another grid of equal size": lambda: (lambda og: laplace.single_layer(api.function_space(og, "DP", 0), api.function_space(og, "P", 1), api.function_space(og, "P", 1), parameters=P).weak_form())(other_grid()),
  "hypersingular on another grid of equal size": lambda: (lambda og: helmholtz.hypersingular(api.function_space(og, "P", 1), api.function_space(og, "P", 1), api.function_space(og, "P", 1), 1.1, parameters=P).weak_form())(other_grid()),
  "fmm potential": lambda: plaplace.single_layer(space("dp0"), np.array([[2.0, 0.1], [0.3, 2.2], [0.1, -0.4]]), assembler="fmm").evaluate(api.GridFunction(space("dp0"), coefficients=np.ones(space("dp0").global_dof_count))),
}
hist = json.loads(sys.argv[1])
for a in hist:
    ACTIONS[a]()
print("RESULT" + json.dumps(final()))
'''


def _run_history(hist):
    env = dict(os.environ, NUMBA_DISABLE_JIT="1", PYTHONPATH="%s:%s" % (VERIF, REPO))
    p = subprocess.run([sys.executable, "-c", HISTORY_SCRIPT % {"verif": VERIF}, json.dumps(hist)], capture_output=True, text=True, env=env, timeout=600)
    for line in p.stdout.splitlines():
        if line.startswith("RESULT"):
            return json.loads(line[6:])
    raise RuntimeError("history %s failed: %s" % (hist, (p.stderr or p.stdout)[-600:]))


HISTORIES = [
    [],
    ["dense on another grid of equal size", "set quadrature 1/1", "mass_matrix", "strong form", "set quadrature 6/3"],
    ["create+weak fmm", "set quadrature 6/3", "create+weak fmm"],
    ["set quadrature 2/2", "create+weak dense", "mass_matrix", "set quadrature 6/3"],
    ["create+weak fmm", "set fmm params", "clear_fmm_cache", "fmm potential"],
    ["fmm potential", "set quadrature 6/3", "fmm potential", "strong form"],
    ["set fmm params", "create+weak fmm", "create space", "set quadrature 2/2", "fmm potential"],
    ["mass_matrix", "strong form", "set quadrature 6/3", "create+weak dense", "clear_fmm_cache", "create+weak fmm"],
    ["hypersingular on another grid of equal size", "create+weak dense", "dense on another grid of equal size"],
]


def ob_history(index):
    """bounded: after the scripted history the designated operators (explicit parameter object; dense, FMM, sparse, potential, FMM potential)
    give the values a fresh interpreter computes (empty history)."""
    ref = _run_history([])
    try:
        got = _run_history(HISTORIES[index])
    except RuntimeError as e:
        return violated("history %s: %s" % (HISTORIES[index], str(e)[-400:]), witness={"history": HISTORIES[index]}, signature="history/%d" % index,
                        replay={"callable": "checks.c18:replay_history", "kwargs": {"index": index}, "confirmed": True})
    worst = 0.0
    for k in ref:
        e = Z.relerr(np.array(got[k]), np.array(ref[k]))
        worst = max(worst, e)
        if e > 1e-12:
            return violated("after the history %s the %s result differs from a fresh process by %.2e" % (HISTORIES[index], k, e), witness={"history": HISTORIES[index], "operator": k},
                            signature="history/%d/%s" % (index, k), replay={"callable": "checks.c18:replay_history", "kwargs": {"index": index}, "confirmed": True})
    return held("history %s: worst deviation %.1e" % (HISTORIES[index], worst))


def replay_history(index):
    r = ob_history(index)
    return {"violates": r["status"] == "violated", "detail": r["detail"]}


PARAMETER_SCRIPT = r'''
import sys, os, json, warnings
warnings.simplefilter("ignore")
sys.path.insert(0, %(verif)r)
import numpy as np
import bempp_cl.api as api
from bempp_cl.api.utils.parameters import DefaultParameters
from bempp_cl.api.operators.boundary import laplace
from bempp_cl.api.operators.potential import laplace as plaplace
from vlib import zoo as Z
problems = []
G = api.GLOBAL_PARAMETERS
def leaves(obj, prefix=""):
    out = {}
    for k, v in sorted(vars(obj).items()):
        if hasattr(v, "__dict__") and not isinstance(v, (int, float, str, bool)):
            out.update(leaves(v, prefix + k.lstrip("_") + "."))
        else:
            out[prefix + k.lstrip("_")] = v
    return out
def snapshot(obj):
    # public view of all option groups (quadrature orders read through their public names)
    d = {"quadrature.regular": obj.quadrature.regular, "quadrature.singular": obj.quadrature.singular}
    for grp in ("fmm", "assembly", "output", "verbosity"):
        if hasattr(obj, grp):
            for k, v in leaves(getattr(obj, grp), grp + ".").items():
                d[k] = v if isinstance(v, (int, float, str, bool, type(None))) else repr(v)
    return d
g0 = snapshot(G)
fresh0 = snapshot(DefaultParameters())
# 1. configuring an explicit object changes neither the global object nor later fresh objects
p = DefaultParameters()
p.quadrature.regular, p.quadrature.singular = 7, 6
p.fmm.expansion_order, p.fmm.ncrit = 9, 17
if snapshot(G) != g0:
    problems.append("configuring an explicit parameter object changed GLOBAL_PARAMETERS: %%s" %% {k: (g0[k], v) for k, v in snapshot(G).items() if g0[k] != v})
if snapshot(DefaultParameters()) != fresh0:
    problems.append("configuring an explicit parameter object changed the defaults of later DefaultParameters() objects")
# 2. changing the global object afterwards does not change the explicit object
G.quadrature.regular, G.quadrature.singular = 2, 3
G.fmm.expansion_order = 4
if (p.quadrature.regular, p.quadrature.singular, p.fmm.expansion_order, p.fmm.ncrit) != (7, 6, 9, 17):
    problems.append("setting GLOBAL_PARAMETERS changed an explicit parameter object: it now holds %%s" %% ((p.quadrature.regular, p.quadrature.singular, p.fmm.expansion_order, p.fmm.ncrit),))
# 3. an explicit object is honoured exactly as the same values set globally
grid = Z.grid_with_domains("octa")
dp0, p1 = api.function_space(grid, "DP", 0), api.function_space(grid, "P", 1)
x = np.arange(1.0, dp0.global_dof_count + 1)
pts = np.array([[2.0, 0.1], [0.3, 2.2], [0.1, -0.4]])
q = DefaultParameters()
q.quadrature.regular, q.quadrature.singular = 7, 6
a_explicit = laplace.single_layer(dp0, p1, p1, parameters=q).weak_form() @ x            # global is 2/3 here
v_explicit = plaplace.single_layer(dp0, pts, parameters=q).evaluate(api.GridFunction(dp0, coefficients=x)).ravel()
G.quadrature.regular, G.quadrature.singular = 7, 6
a_global = laplace.single_layer(dp0, p1, p1).weak_form() @ x
v_global = plaplace.single_layer(dp0, pts).evaluate(api.GridFunction(dp0, coefficients=x)).ravel()
G.quadrature.regular, G.quadrature.singular = 2, 3
a_other = laplace.single_layer(dp0, p1, p1).weak_form() @ x
if not (np.array_equal(a_explicit, a_global) and np.array_equal(v_explicit, v_global)):
    problems.append("explicit parameter object (7/6) while the global orders are 2/3 differs from the global orders set to 7/6: %%.2e / %%.2e" %% (np.abs(a_explicit - a_global).max(), np.abs(v_explicit - v_global).max()))
if np.array_equal(a_other, a_global):
    problems.append("vacuity: orders 2/3 and 7/6 give identical matrices")
# 4. construction-time binding: objects created while the global orders are 7/6 and used after the global orders were changed to 2/3
G.quadrature.regular, G.quadrature.singular = 7, 6
pot_early = plaplace.single_layer(dp0, pts)                      # created, not yet evaluated
pot_twice = plaplace.single_layer(dp0, pts)
v_first = pot_twice.evaluate(api.GridFunction(dp0, coefficients=x)).ravel()
op_early = laplace.single_layer(dp0, p1, p1)                     # created, not yet assembled
op_assembled = laplace.single_layer(dp0, p1, p1)
w_first = op_assembled.weak_form() @ x
G.quadrature.regular, G.quadrature.singular = 2, 3
v_early = pot_early.evaluate(api.GridFunction(dp0, coefficients=x)).ravel()
v_second = pot_twice.evaluate(api.GridFunction(dp0, coefficients=x)).ravel()
if not np.array_equal(v_second, v_first):
    problems.append("a potential operator evaluated again after the global orders were changed returns other values (%%.2e)" %% np.abs(v_second - v_first).max())
if not np.array_equal(v_early, v_global):
    problems.append("a potential operator created under the global orders 7/6 and first evaluated after they were changed to 2/3 differs from the 7/6 values (%%.2e)" %% np.abs(v_early - v_global).max())
if not np.array_equal(op_assembled.weak_form() @ x, w_first):
    problems.append("an assembled boundary operator changes when the global orders are changed afterwards")
lazy = []
if not np.array_equal(op_early.weak_form() @ x, a_global):
    lazy.append("a boundary operator created with parameters=None under the global orders 7/6 and first assembled after they were changed to 2/3 has the 2/3 matrix "
                "(deviation %%.2e from the 7/6 matrix a fresh process computes)" %% np.abs(op_early.weak_form() @ x - a_global).max())
print("RESULT" + json.dumps({"problems": problems, "lazy": lazy}))
'''


def replay_parameter_objects():
    env = dict(os.environ, NUMBA_DISABLE_JIT="1", PYTHONPATH="%s:%s" % (VERIF, REPO))
    p = subprocess.run([sys.executable, "-c", PARAMETER_SCRIPT % {"verif": VERIF}], capture_output=True, text=True, env=env, timeout=600)
    for line in p.stdout.splitlines():
        if line.startswith("RESULT"):
            res = json.loads(line[6:])
            return {"violates": bool(res["problems"]), "problems": res["problems"], "lazy": res["lazy"]}
    return {"violates": True, "problems": ["the scripted session raised: %s" % (p.stderr or p.stdout)[-500:]], "lazy": []}


def replay_lazy_binding():
    r = replay_parameter_objects()
    return {"violates": bool(r["lazy"]), "observed": r["lazy"]}


def ob_lazy_binding():
    """bounded (fresh interpreter): "determined by ... the parameter object given at construction ... later changes of the global parameters leave them equal to what a fresh
    process computes" for a boundary operator that was created (parameters=None) but not yet assembled when the global orders are changed."""
    r = replay_parameter_objects()
    if r["lazy"]:
        return violated(r["lazy"][0], witness={"history": ["set global orders 7/6", "create operator (parameters=None)", "set global orders 2/3", "weak_form"]},
                        signature="lazy-global-binding/boundary-operator", replay={"callable": "checks.c18:replay_lazy_binding", "kwargs": {}, "confirmed": True, "result": r["lazy"]})
    return held("a boundary operator created before a change of the global orders is assembled with the orders of its construction")


def ob_parameter_objects():
    """bounded (fresh interpreter): parameter objects are independent values - configuring an explicit object changes neither GLOBAL_PARAMETERS nor later default
    objects, changing GLOBAL_PARAMETERS afterwards does not change the explicit object, and an operator / potential assembled with the explicit object while the global
    orders are different is bitwise the one assembled with parameters=None after setting the global orders to the same values."""
    r = replay_parameter_objects()
    if r["violates"]:
        return violated("parameter objects are not independent / not honoured like the same global values: %s" % r["problems"][:3], witness={"problems": r["problems"]},
                        signature="parameter-objects", replay={"callable": "checks.c18:replay_parameter_objects", "kwargs": {}, "confirmed": True, "result": r})
    return held("explicit, global and fresh parameter objects are independent; explicit 7/6 == global 7/6 bitwise (dense matrix action, potential); potentials and assembled operators keep the orders of their construction")


FMM_FLAG_SCRIPT = r'''
import sys, os, json, warnings, tempfile
warnings.simplefilter("ignore")
sys.path.insert(0, %(verif)r); sys.path.insert(0, os.path.join(%(verif)r, "stubs"))
os.chdir(tempfile.mkdtemp(prefix="c18f_"))
import numpy as np
import bempp_cl.api as api
from bempp_cl.api.utils.parameters import DefaultParameters
from bempp_cl.api.operators.boundary import laplace
from bempp_cl.api.fmm import fmm_assembler
import exafmm._common as stub
from vlib import zoo as Z
grid = Z.grid_with_domains("octa")
dp0 = api.function_space(grid, "DP", 0)
x = np.arange(1.0, dp0.global_dof_count + 1)
G = api.GLOBAL_PARAMETERS
problems = []
def library_calls(explicit, global_value):
    """number of far-field evaluations handed to the FMM library by one matvec; explicit=None: parameters=None"""
    fmm_assembler.clear_fmm_cache()
    G.fmm.dense_evaluation = global_value
    par = None
    if explicit is not None:
        par = DefaultParameters()
        par.fmm.dense_evaluation = explicit
        par.quadrature.regular, par.quadrature.singular = G.quadrature.regular, G.quadrature.singular
    op = laplace.single_layer(dp0, dp0, dp0, assembler="fmm", parameters=par).weak_form()
    before = stub.CALLS[0]
    y = op @ x
    return stub.CALLS[0] - before, y
ref_lib, y_lib = library_calls(None, False)      # the value False set globally: the library is used
ref_dense, y_dense = library_calls(None, True)   # the value True set globally: bempp's own dense evaluation, library not called
if not (ref_lib > 0 and ref_dense == 0):
    problems.append("vacuity: global fmm.dense_evaluation False / True gives %%d / %%d library calls" %% (ref_lib, ref_dense))
for explicit, global_value in ((False, True), (True, False), (False, False), (True, True)):
    n, y = library_calls(explicit, global_value)
    want = ref_dense if explicit else ref_lib
    if n != want:
        problems.append("explicit fmm.dense_evaluation=%%s with the global value %%s: %%d library calls, the same value set globally gives %%d" %% (explicit, global_value, n, want))
# an interface built while the global flag was True must not serve a later request with the flag False (cache key)
fmm_assembler.clear_fmm_cache()
G.fmm.dense_evaluation = True
laplace.single_layer(dp0, dp0, dp0, assembler="fmm").weak_form() @ x
G.fmm.dense_evaluation = False
before = stub.CALLS[0]
laplace.single_layer(dp0, dp0, dp0, assembler="fmm").weak_form() @ x
if stub.CALLS[0] - before != ref_lib:
    problems.append("after an assembly with the global flag True, a new operator with the flag False makes %%d library calls (fresh process: %%d)" %% (stub.CALLS[0] - before, ref_lib))
print("RESULT" + json.dumps(problems))
'''


def replay_fmm_flags():
    env = dict(os.environ, NUMBA_DISABLE_JIT="1", PYTHONPATH="%s:%s" % (VERIF, REPO))
    p = subprocess.run([sys.executable, "-c", FMM_FLAG_SCRIPT % {"verif": VERIF}], capture_output=True, text=True, env=env, timeout=600)
    for line in p.stdout.splitlines():
        if line.startswith("RESULT"):
            probs = json.loads(line[6:])
            return {"violates": bool(probs), "problems": probs}
    return {"violates": True, "problems": ["the scripted session raised: %s" % (p.stderr or p.stdout)[-500:]]}


def ob_fmm_flags():
    """bounded (fresh interpreter, exact-sum exafmm stand-in with a call counter): the FMM option `dense_evaluation` of an explicit parameter object is honoured exactly
    as the same value set globally - observable as whether the far field is handed to the FMM library or evaluated by bempp's own dense fallback (with an exact library the
    numbers agree, with a real one they differ at the truncation level) - for all four explicit / global combinations, and across a cache hit."""
    r = replay_fmm_flags()
    if r["violates"]:
        return violated("fmm.dense_evaluation of an explicit parameter object is not honoured like the global value: %s" % r["problems"][:3], witness={"problems": r["problems"]},
                        signature="fmm-flags", replay={"callable": "checks.c18:replay_fmm_flags", "kwargs": {}, "confirmed": True, "result": r})
    return held("4 explicit / global combinations and a cache hit: library used exactly when the effective flag is False")


def ob_precision():
    """bounded: precision='single' agrees with 'double' to single-precision accuracy (dense, sparse, potential)."""
    import bempp_cl.api as api
    from bempp_cl.api.operators.boundary import laplace, helmholtz, sparse
    from bempp_cl.api.operators.potential import laplace as plaplace

    warnings.simplefilter("ignore")
    g = Z.grid_with_domains("octa")
    p1, dp0 = api.function_space(g, "P", 1), api.function_space(g, "DP", 0)
    par = Z.params(3, 3)
    worst = 0.0
    for name, mk in (("laplace single", lambda pr: laplace.single_layer(dp0, p1, p1, parameters=par, precision=pr)), ("helmholtz double", lambda pr: helmholtz.double_layer(p1, p1, dp0, 1.3, parameters=par, precision=pr)),
                     ("identity", lambda pr: sparse.identity(p1, p1, dp0, parameters=par, precision=pr))):
        a, b = Z.dense(mk("single")), Z.dense(mk("double"))
        e = Z.relerr(np.asarray(a, dtype=complex), np.asarray(b, dtype=complex))
        worst = max(worst, e)
        if e > 1e-5:
            return violated("%s: single vs double precision differ by %.2e" % (name, e), signature="precision/" + name, replay={"confirmed": True})
    pts = np.array([[2.0, 0.1], [0.3, 2.2], [0.1, -0.4]])
    f = api.GridFunction(dp0, coefficients=np.ones(dp0.global_dof_count))
    e = Z.relerr(plaplace.single_layer(dp0, pts, parameters=par, precision="single").evaluate(f), plaplace.single_layer(dp0, pts, parameters=par, precision="double").evaluate(f))
    if e > 1e-5:
        return violated("potential: single vs double precision differ by %.2e" % e, signature="precision/potential", replay={"confirmed": True})
    return held("worst %.1e" % max(worst, e))


def main():
    run = Run("C18", "other")
    thorough = run.tier == "thorough"
    run.explanation = __doc__
    run.add("frame.global-state-reads", "frame", ob_frame)
    run.add("frame.global-state-writes", "frame", ob_state_writes)
    run.add("cache-key.get_fmm_interface", "post", ob_cache_key, "get_fmm_interface")
    run.add("cache-key.get_fmm_potential_interface", "post", ob_cache_key, "get_fmm_potential_interface")
    for asm, kinds in (("dense", ("scalar", "hypersingular", "maxwell", "potential", "maxwell-potential")), ("fmm", ("scalar", "hypersingular", "maxwell", "potential", "maxwell-potential")),
                       ("sparse", ("sparse", "gridfunction"))):
        for kind in kinds:
            run.add("explicit-parameter-object.%s.%s" % (asm, kind), "post", ob_explicit_parameters, asm if asm != "sparse" else "dense", kind)
    run.add("memoisation", "post", ob_memoisation)
    for i in range(1, len(HISTORIES) if thorough else 5):
        run.add("history[%d]" % i, "bounded", ob_history, i)
    run.add("precision.single-vs-double", "bounded", ob_precision)
    run.add("parameter-objects.independent+honoured-like-global", "bounded", ob_parameter_objects)
    run.add("explicit-parameter-object.fmm.dense_evaluation", "bounded", ob_fmm_flags)
    run.add("construction-time-binding.boundary-operator(parameters=None)", "bounded", ob_lazy_binding)
    run.functions["bempp_cl (all modules, AST scan)"] = {"sha256_16": "n/a", "dropped": "dynamic aliasing of the global objects is not tracked (textual reads only)"}
    run.bound("histories: %d scripted sequences over 10 actions (create/assemble dense & FMM operators, strong form, change global quadrature / FMM parameters, clear_fmm_cache, "
              "create space, mass matrix, FMM potential), exafmm = exact-sum stub, compared with a fresh interpreter" % (len(HISTORIES) - 1))
    run.assume("operators created with parameters=None hold the global parameter object itself (documented aliasing): later changes of the global object are then changes of the "
               "operator's own parameter object; the contracts above concern explicit parameter objects and state other than that object")
    return run.finish()


if __name__ == "__main__":
    sys.exit(main())
