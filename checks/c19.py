"""C19 grid and grid-function export / import round trip (DESIGN 3, C19).

meshio is an assumed contract: read(write(points, cells, point_data, cell_data)) returns the same arrays (gmsh22 ascii/binary incl. the
gmsh:physical / gmsh:geometrical cell data; vtu and ply for points and connectivity).  The real `export` and `import_grid` are executed on
every path of their option space with meshio replaced by a recording stub / an in-memory mesh, and the round trip is the composition.
"""

import itertools
import os
import shutil
import sys
import tempfile
import warnings

import numpy as np

from vlib import symgrid as SG
from vlib import zoo as Z
from vlib.framework import Run, proved, violated, undecided, held, VERIF


class Rec:
    def __init__(self):
        self.calls = []

    def __call__(self, *a, **k):
        self.calls.append((a, k))


INDEX_PATTERNS = {
    "noncontiguous": lambda n: np.array([7, 7, 3, 1000, 3, 12, 7, 65535][:n] + [5] * max(0, n - 8), dtype="uint32"),
    "all-zero": lambda n: np.zeros(n, dtype="uint32"),
    "single-nonzero": lambda n: np.full(n, 4, dtype="uint32"),
    "zero-and-nonzero": lambda n: np.array(([0, 2] * n)[:n], dtype="uint32"),
    "contiguous": lambda n: np.array(([1, 2, 3] * n)[:n], dtype="uint32"),
}


def _grid(name, pattern):
    def _octa_upper_with_spare_vertices():
        # "for every grid": the four upper faces of the octahedron on the full vertex array, re-ordered so that the unreferenced vertex is not the last one
        v, e = SG.octa()
        order = [5, 0, 1, 2, 3, 4]                     # old vertex 5 (unused by the upper faces) becomes vertex 0
        new_index = {old: new for new, old in enumerate(order)}
        return v[:, order], np.vectorize(new_index.get)(e[:, :4])

    v, e = {"octa": SG.octa, "screen2": lambda: SG.screen(2), "fan3": SG.fan3, "octa_upper_spare": _octa_upper_with_spare_vertices}[name]()
    return SG.make_grid(v, e, INDEX_PATTERNS[pattern](e.shape[1]))


def run_export(grid=None, grid_function=None, filename="x.msh", **kw):
    from bempp_cl.api.grid import io

    rec = Rec()
    saved = io._meshio.write_points_cells
    io._meshio.write_points_cells = rec
    try:
        io.export(filename, grid=grid, grid_function=grid_function, **kw)
    finally:
        io._meshio.write_points_cells = saved
    assert len(rec.calls) == 1
    (a, k) = rec.calls[0]
    return {"filename": a[0], "points": a[1], "cells": a[2], "point_data": k.get("point_data"), "cell_data": k.get("cell_data"), "file_format": k.get("file_format"),
            "binary": k.get("binary")}


class FakeMesh:
    """What meshio.read returns for a file written from (points, cells, cell_data) -- the assumed identity contract."""

    def __init__(self, w, drop=()):
        self.points = np.array(w["points"])
        self.cells_dict = {w["cells"][0][0]: np.array(w["cells"][0][1])}
        self.cell_data_dict = {}
        for key, val in (w["cell_data"] or {}).items():
            if key in drop:
                continue
            self.cell_data_dict[key] = {"triangle": np.asarray(val)[0]}


def run_import(mesh):
    from bempp_cl.api.grid import io

    saved = io._meshio.read
    io._meshio.read = lambda filename: mesh
    try:
        return io.import_grid("x.msh")
    finally:
        io._meshio.read = saved


def ob_export_grid(gridname, pattern, binary):
    """post: export(file.msh, grid=g) writes points == g.vertices.T, cells == [('triangle', g.elements.T)], cell_data['gmsh:physical'] == g.domain_indices
    (one block), cell_data['gmsh:geometrical'] = a renumbering 1..k that is a bijection of the distinct domain indices, file_format gmsh22, binary flag
    forwarded; for other extensions 'domain_index' carries the indices."""
    g = _grid(gridname, pattern)
    w = run_export(grid=g, filename="x.msh", write_binary=binary)
    phys = np.asarray(w["cell_data"]["gmsh:physical"])
    geom = np.asarray(w["cell_data"]["gmsh:geometrical"])
    problems = []
    if not np.array_equal(w["points"], g.vertices.T):
        problems.append("points")
    if not (len(w["cells"]) == 1 and w["cells"][0][0] == "triangle" and np.array_equal(w["cells"][0][1], g.elements.T)):
        problems.append("cells")
    if phys.shape != (1, g.number_of_elements) or not np.array_equal(phys[0].astype("int64"), g.domain_indices.astype("int64")):
        problems.append("gmsh:physical != domain_indices (as written: %s)" % phys.tolist())
    pairs = set(zip(g.domain_indices.tolist(), geom[0].tolist()))
    if geom.shape != (1, g.number_of_elements) or len(pairs) != len(set(g.domain_indices.tolist())) or len({b for a, b in pairs}) != len(pairs) \
            or sorted(b for a, b in pairs) != list(range(1, len(pairs) + 1)):
        problems.append("gmsh:geometrical is not a bijective renumbering 1..k")
    if w["file_format"] != "gmsh22" or w["binary"] is not binary:
        problems.append("file_format/binary: %s %s" % (w["file_format"], w["binary"]))
    w2 = run_export(grid=g, filename="x.vtu", write_binary=binary)
    if not np.array_equal(np.asarray(w2["cell_data"]["domain_index"])[0], g.domain_indices) or w2["file_format"] is not None or not np.array_equal(w2["points"], g.vertices.T):
        problems.append("non-gmsh export")
    if problems:
        return violated("export of %s grid (%s indices): %s" % (gridname, pattern, "; ".join(problems)), witness={"grid": gridname, "pattern": pattern},
                        signature="export-grid/%s" % pattern, replay={"confirmed": True})
    return proved("exec+recording-stub", "points, cells, physical, geometrical, format")


def ob_roundtrip(gridname, pattern):
    """lemma (composition under meshio's identity contract): import_grid(export(g)) has identical vertices, elements and domain indices;
    also when the file carries no physical tags the geometrical tags are used, and with neither the default (zeros)."""
    g = _grid(gridname, pattern)
    w = run_export(grid=g, filename="x.msh")
    g2 = run_import(FakeMesh(w))
    ok = np.array_equal(g2.vertices, g.vertices) and np.array_equal(g2.elements, g.elements)
    if not ok:
        return violated("round trip changes vertices or elements", signature="roundtrip/geometry", replay={"confirmed": True})
    if not np.array_equal(g2.domain_indices, g.domain_indices):
        rp = replay_roundtrip(gridname, pattern)
        return violated("Gmsh round trip of a %s grid with %s domain indices %s returns %s" % (gridname, pattern, g.domain_indices.tolist(), g2.domain_indices.tolist()),
                        witness={"grid": gridname, "pattern": pattern, "domain_indices": g.domain_indices.tolist()}, signature="roundtrip/domain-indices/%s" % pattern,
                        replay={"callable": "checks.c19:replay_roundtrip", "kwargs": {"gridname": gridname, "pattern": pattern}, "confirmed": rp["violates"], "result": rp})
    g3 = run_import(FakeMesh(w, drop=("gmsh:physical",)))
    geom = np.asarray(w["cell_data"]["gmsh:geometrical"])[0]
    g4 = run_import(FakeMesh(w, drop=("gmsh:physical", "gmsh:geometrical")))
    if not np.array_equal(g3.domain_indices, geom) or not np.all(g4.domain_indices == 0):
        return violated("import fallback order physical -> geometrical -> zeros not respected", signature="roundtrip/fallback", replay={"confirmed": True})
    return proved("exec+in-memory-mesh", "vertices, elements, domain indices identical; fallbacks as documented")


def replay_roundtrip(gridname, pattern):
    """Native: real meshio write + read through a temporary file."""
    import bempp_cl.api as api

    g = _grid(gridname, pattern)
    d = tempfile.mkdtemp(prefix="c19_", dir=os.path.join(VERIF, "scratch") if os.path.isdir(os.path.join(VERIF, "scratch")) else None)
    try:
        out = {}
        for binary in (True, False):
            fn = os.path.join(d, "g_%s.msh" % binary)
            api.export(fn, grid=g, write_binary=binary)
            g2 = api.import_grid(fn)
            out["binary" if binary else "ascii"] = {"vertices": bool(np.array_equal(g2.vertices, g.vertices)), "elements": bool(np.array_equal(g2.elements, g.elements)),
                                                    "domain_indices": bool(np.array_equal(g2.domain_indices, g.domain_indices)), "got": g2.domain_indices.tolist()[:8]}
        bad = any(not all(v[k] for k in ("vertices", "elements", "domain_indices")) for v in out.values())
        return {"violates": bad, "result": out, "written_indices": g.domain_indices.tolist()[:8]}
    finally:
        shutil.rmtree(d, ignore_errors=True)


def _functions(g, cplx):
    import bempp_cl.api as api

    rng = np.random.RandomState(3)
    out = {}
    for key, (kind, deg) in {"P1": ("P", 1), "DP0": ("DP", 0), "DP1": ("DP", 1), "RWG": ("RWG", 0)}.items():
        sp = api.function_space(g, kind, deg)
        c = rng.randn(sp.global_dof_count) + (1j * rng.randn(sp.global_dof_count) if cplx else 0)
        out[key] = api.GridFunction(sp, coefficients=c)
    return out


TRANSFORMS = {None: lambda a: a, "real": np.real, "imag": np.imag, "abs": lambda a: np.sqrt(np.sum(np.abs(a) ** 2, axis=0, keepdims=True)),
              "abs_squared": lambda a: np.sum(np.abs(a) ** 2, axis=0, keepdims=True), "log_abs": lambda a: np.log(np.sqrt(np.sum(np.abs(a) ** 2, axis=0, keepdims=True)))}


def ob_export_function(cplx):
    """post: export(grid_function=f, data_type, transformation) writes exactly transformation(f.evaluate_on_vertices()).T as point data resp.
    transformation(f.evaluate_on_element_centers()).T as cell data (one block), split into 'real' and 'imag' arrays for complex data, 'data'
    otherwise; default data_type is 'node' for P1 and 'element' otherwise; the grid arrays are those of f.space.grid; invalid data_type or both
    grid and grid_function -> ValueError."""
    warnings.simplefilter("ignore")
    g = _grid("octa", "noncontiguous")
    n = 0
    for name, f in _functions(g, cplx).items():
        for data_type in (None, "node", "element"):
            for tname, tf in TRANSFORMS.items():
                if name == "RWG" and tname in ("real", "imag") and False:
                    continue
                w = run_export(grid_function=f, data_type=data_type, transformation=tname, filename="f.msh")
                eff = data_type or ("node" if f.space.identifier == "p1" else "element")
                vals = f.evaluate_on_vertices() if eff == "node" else f.evaluate_on_element_centers()
                want = tf(vals).T
                got = w["point_data"] if eff == "node" else {k: v for k, v in w["cell_data"].items() if not k.startswith("gmsh")}
                lab = "%s %s data_type=%s transformation=%s" % ("complex" if cplx else "real", name, data_type, tname)
                if got is None:
                    return violated("%s: no data written" % lab, signature="export-function/none", replay={"confirmed": True})
                if np.iscomplexobj(want):
                    parts = {"real": np.real(want), "imag": np.imag(want)}
                else:
                    parts = {"data": want}
                if set(got) != set(parts):
                    return violated("%s: data arrays %s, expected %s" % (lab, sorted(got), sorted(parts)), signature="export-function/keys", replay={"confirmed": True})
                for k, arr in parts.items():
                    garr = np.asarray(got[k])
                    if eff == "element":
                        if garr.ndim != arr.ndim + 1 or garr.shape[0] != 1:
                            rp = replay_function_file(name, cplx, "element")
                            return violated("%s: cell data '%s' has shape %s; meshio needs one array per cell block, i.e. (1, %d, %d)" % (lab, k, garr.shape, arr.shape[0], arr.shape[1]),
                                            witness={"function": name, "complex": cplx, "data_type": data_type}, signature="export-function/cell-block/%s" % k,
                                            replay={"callable": "checks.c19:replay_function_file", "kwargs": {"name": name, "cplx": cplx, "data_type": "element"},
                                                    "confirmed": rp["violates"], "result": rp})
                        garr = garr[0]
                    if garr.shape != arr.shape or not np.array_equal(garr, arr):
                        return violated("%s: written '%s' differs from the transformed %s values" % (lab, k, "vertex" if eff == "node" else "element-centre"),
                                        signature="export-function/values", replay={"confirmed": True})
                if not np.array_equal(w["points"], g.vertices.T) or not np.array_equal(np.asarray(w["cell_data"]["gmsh:physical"])[0], g.domain_indices):
                    return violated("%s: grid arrays are not those of the function's grid" % lab, signature="export-function/grid", replay={"confirmed": True})
                n += 1
    f = _functions(g, False)["P1"]
    for lab, thunk in (("data_type='edge'", lambda: run_export(grid_function=f, data_type="edge")), ("grid and grid_function", lambda: run_export(grid=g, grid_function=f))):
        try:
            thunk()
        except ValueError:
            continue
        except AssertionError:
            pass
        return violated("export with %s is accepted" % lab, signature="export-function/reject", replay={"confirmed": True})
    return proved("exec+recording-stub", "%d (function, data_type, transformation) combinations" % n)


def replay_function_file(name, cplx, data_type):
    """Native: write the function with real meshio and read the data back."""
    import bempp_cl.api as api
    import meshio

    warnings.simplefilter("ignore")
    g = _grid("octa", "noncontiguous")
    f = _functions(g, cplx)[name]
    d = tempfile.mkdtemp(prefix="c19_")
    try:
        fn = os.path.join(d, "f.msh")
        try:
            api.export(fn, grid_function=f, data_type=data_type)
            m = meshio.read(fn)
        except Exception as e:  # noqa
            return {"violates": True, "observed": "%s: %s" % (type(e).__name__, str(e)[:200])}
        want = (f.evaluate_on_vertices() if data_type == "node" else f.evaluate_on_element_centers()).T
        store = m.point_data if data_type == "node" else {k: v[0] for k, v in m.cell_data.items()}
        if cplx:
            got = np.asarray(store["real"]) + 1j * np.asarray(store["imag"])
        else:
            got = np.asarray(store["data"])
        got = got.reshape(want.shape)
        return {"violates": bool(not np.allclose(got, want, rtol=1e-14, atol=0)), "max_abs_diff": float(np.max(np.abs(got - want)))}
    finally:
        shutil.rmtree(d, ignore_errors=True)


def ob_transform_array():
    """post: _transform_array(a, mode) for 2-d arrays: None -> a; 'real','imag' parts; 'abs' = Euclidean norm over components (keepdims),
    'abs_squared', 'log_abs' = log of it; callable applied."""
    from bempp_cl.api.grid.io import _transform_array

    rng = np.random.RandomState(0)
    for shape in ((1, 5), (3, 4)):
        a = rng.randn(*shape) + 1j * rng.randn(*shape)
        for tname, tf in TRANSFORMS.items():
            got = _transform_array(a, tname)
            if not np.array_equal(got, tf(a)):
                return violated("_transform_array(%s) differs from its definition" % tname, signature="transform/%s" % tname, replay={"confirmed": True})
        if not np.array_equal(_transform_array(a, lambda x: 2 * x), 2 * a):
            return violated("callable transformation not applied", signature="transform/callable", replay={"confirmed": True})
    return proved("exec", "6 modes + callable on 1- and 3-component data")


def ob_files(fmt):
    """bounded: real meshio files: .msh (ascii and binary) round trip of vertices, elements, domain indices; .vtu / .ply preserve vertices and
    connectivity; function data read back equals evaluate_on_vertices / evaluate_on_element_centers (real and complex)."""
    import bempp_cl.api as api
    import meshio

    warnings.simplefilter("ignore")
    d = tempfile.mkdtemp(prefix="c19_")
    n = 0
    try:
        for gridname in ("octa", "screen2", "octa_upper_spare"):
            for pattern in ("noncontiguous", "single-nonzero", "contiguous", "zero-and-nonzero"):
                g = _grid(gridname, pattern)
                for binary in (True, False):
                    fn = os.path.join(d, "g.%s" % fmt)
                    api.export(fn, grid=g, write_binary=binary)
                    if fmt == "msh":
                        g2 = api.import_grid(fn)
                        if not (np.array_equal(g2.vertices, g.vertices) and np.array_equal(g2.elements, g.elements) and np.array_equal(g2.domain_indices, g.domain_indices)):
                            return violated("real .msh round trip (%s, %s, binary=%s) changes the grid: indices %s -> %s" % (gridname, pattern, binary, g.domain_indices.tolist(), g2.domain_indices.tolist()),
                                            witness={"grid": gridname, "pattern": pattern, "binary": binary}, signature="files/msh/%s" % pattern,
                                            replay={"callable": "checks.c19:replay_roundtrip", "kwargs": {"gridname": gridname, "pattern": pattern}, "confirmed": True})
                    else:
                        m = meshio.read(fn)
                        if not (np.allclose(m.points, g.vertices.T, rtol=1e-15, atol=0) and np.array_equal(m.cells_dict["triangle"], g.elements.T)):
                            return violated(".%s export does not preserve vertices / connectivity" % fmt, signature="files/" + fmt, replay={"confirmed": True})
                    n += 1
        if fmt == "msh":
            for cplx in (False, True):
                for name in ("P1", "DP0", "DP1", "RWG"):
                    for dt in ("node", "element"):
                        r = replay_function_file(name, cplx, dt)
                        n += 1
                        if r["violates"]:
                            return violated("function export (%s, complex=%s, %s) cannot be read back: %s" % (name, cplx, dt, r), witness={"function": name, "complex": cplx, "data_type": dt},
                                            signature="files/function/%s/%s" % (cplx, dt),
                                            replay={"callable": "checks.c19:replay_function_file", "kwargs": {"name": name, "cplx": cplx, "data_type": dt}, "confirmed": True})
    finally:
        shutil.rmtree(d, ignore_errors=True)
    return held("%d files" % n)


def main():
    run = Run("C19", "other")
    run.explanation = __doc__
    from bempp_cl.api.grid import io

    for f in (io.export, io.import_grid, io._transform_array):
        run.under_contract(f)
    run.assumed_contract("meshio.write_points_cells / meshio.read", "read(write(points, cells, point_data, cell_data, file_format='gmsh22')) returns the same points, cells and data; "
                         "cell data values are lists with one array per cell block")
    for gridname in ("octa", "fan3", "octa_upper_spare"):
        for pattern in INDEX_PATTERNS:
            for binary in (True, False):
                run.add("io.export[grid %s, %s indices, binary=%s]" % (gridname, pattern, binary), "post", ob_export_grid, gridname, pattern, binary)
            run.add("lemma.import(export(g))==g[%s, %s indices]" % (gridname, pattern), "lemma", ob_roundtrip, gridname, pattern)
    run.add("io.export[real grid functions]", "post", ob_export_function, False)
    run.add("io.export[complex grid functions]", "post", ob_export_function, True)
    run.add("io._transform_array", "post", ob_transform_array)
    for fmt in ("msh", "vtu", "ply"):
        run.add("files.%s" % fmt, "bounded", ob_files, fmt)
    run.bound("all option paths of export/import (extension, grid vs function, data_type, 6 transformations, real/complex, binary flag, tag fallbacks) on 3 grids x 5 index patterns; "
              "the data arrays pass through without data-dependent control flow other than `all indices == 0` and `iscomplexobj`")
    run.bound("real files: octahedron and 2x2 screen, 4 index patterns, ascii and binary; 4 space kinds x node/element x real/complex")
    # node / element data written by export() are evaluate_on_vertices / evaluate_on_element_centers of the grid function: their values on whole-grid and segment
    # spaces (area-weighted average over the SUPPORT elements at a vertex) are checked natively against space.evaluate
    from checks import c13 as _c13

    run.add("export-values.gridfunction-helpers[octa, whole grid + segments, real + complex]", "bounded", _c13.ob_gridfunction_numeric, "octa")
    # vector spaces whose basis depends on the normal the space was built with (SNC = nu x RWG, nu the possibly swapped normal): the exported values are
    # those of the represented function, spec built from the dof map, multipliers, vertices and reference shape functions only (not the space's evaluator)
    snc_sw = ("SNC", 0, {"include_boundary_dofs": True, "swapped_normals": [2]})
    for what in ("centers", "vertices"):
        run.add("export-values.GridFunction.%s[tetra SNC0 swapped_normals=[2]]" % what, "post", _c13.ob_gridfunction, "tetra", snc_sw, what)
        run.add("export-values.GridFunction.%s[tetra SNC0]" % what, "post", _c13.ob_gridfunction, "tetra", _c13.SNCB, what)
    return run.finish()


if __name__ == "__main__":
    sys.exit(main())
