"""C20 OpenCL kernels / shapesets == Numba kernels / shapesets of the same name (DESIGN 3, C20)."""

import ast
import os
import re
import sys

import numpy as np

from vlib import sym as S
from vlib import cfront as C
from vlib import kernelrun as KR
from vlib.framework import Run, proved, violated, undecided, REPO
from specs import kernels as KS

INC = os.path.join(REPO, "bempp_cl/core/sources/include")
VARIANTS = ["novec", "vec4", "vec8", "vec16"]


def cl_kernel_names():
    """The `kernels` dict literal of opencl_kernels.select_cl_kernel (pyopencl is absent, so the file is parsed, not imported)."""
    tree = ast.parse(open(os.path.join(REPO, "bempp_cl/core/opencl_kernels.py")).read())
    for node in ast.walk(tree):
        if isinstance(node, ast.FunctionDef) and node.name == "select_cl_kernel":
            for sub in ast.walk(node):
                if (isinstance(sub, ast.Assign) and isinstance(sub.targets[0], ast.Name) and sub.targets[0].id == "kernels"
                        and isinstance(sub.value, ast.Dict)):
                    return {k.value: v.value for k, v in zip(sub.value.keys, sub.value.values)}
    raise RuntimeError("kernels dict not found")


_HEADER_CACHE = {}


def header(name, defines=()):
    key = (name, tuple(defines))
    if key not in _HEADER_CACHE:
        _HEADER_CACHE[key] = C.parse_header(os.path.join(INC, name), defines)
    return _HEADER_CACHE[key]


def consts():
    return {"M_INV_4PI": S.Sym.const(S.INV4PI), "M_ONE": S.Sym.const(1), "M_ZERO": S.Sym.const(0), "M_TWO": S.Sym.const(2),
            "M_4PI": 1 / S.Sym.const(S.INV4PI)}


def run_c_kernel(cname, variant, x, y, nx, ny, par):
    """Evaluate the header function on generic inputs; returns dict index->Sym of the result array."""
    funcs = header("kernels.h", ("REALTYPEVEC",))
    ev = C.Evaluator(funcs, consts())
    fname = "%s_%s" % (cname, variant)
    if fname not in funcs:
        raise C.Unsupported("function %s not found in kernels.h" % fname)
    if variant == "novec":
        ty, tn = C.Vec(list(y)), C.Vec(list(ny))
    else:
        ty, tn = C.array_cell(list(y)), C.array_cell(list(ny))
    res = C.Cell()
    ev.call(fname, [C.Vec(list(x)), ty, C.Vec(list(nx)), tn, C.array_cell(par), res])
    return res.v


def numeric_c_kernel(cname, variant, env, case, key):
    """Replay helper: evaluate the C term numerically and the real Numba kernel on floats."""
    S.reset()
    X, Y, NX, NY = KR.inputs("regular", 1)
    par = [c for c in KR.param_cases(key) if c[0] == case][0][1]
    cres = run_c_kernel(cname, variant, X, Y[:, 0], NX, NY[:, 0], par)
    cval = complex(S.evaluate(cres[(0,)], env)) + (1j * complex(S.evaluate(cres[(1,)], env)) if (1,) in cres else 0)
    Xn, Yn, NXn, NYn = KR.numeric_inputs("regular", env, 1)
    n = KS.NPARAMS[key]
    parn = [] if n == 0 else [env.get("w", 0.9)] if n == 1 else [env.get("kr", 1.1), 0.0 if case == "ki==0" else env.get("ki", 0.4)]
    f = KR.pyfunc(KR.kernel_function(key, "regular"))
    nval = complex(f(Xn, Yn, NXn, NYn, np.array(parn, dtype=float))[0])
    return cval, nval


def replay_c_vs_numba(cname, variant, key, case, env):
    cval, nval = numeric_c_kernel(cname, variant, env, case, key)
    err = abs(cval - nval) / max(1e-300, abs(nval))
    return {"violates": bool(err > 1e-9), "opencl_term_value": [cval.real, cval.imag], "numba_value": [nval.real, nval.imag], "relative_error": err}


def ob_kernel(key, cname, variant):
    """post: <cname>_<variant>(x, y, nx, ny, par) == numba kernel_functions_regular[key](x, [y], nx, [ny], par) (real and imaginary parts)."""
    out = []
    for case_name in [c[0] for c in KR.param_cases(key)]:
        S.reset()
        par = [c for c in KR.param_cases(key) if c[0] == case_name][0][1]
        X, Y, NX, NY = KR.inputs("regular", 1)
        nb = KR.run_real(key, "regular", X, Y, NX, NY, par)[0]
        nb = S.Sym._coerce(nb)
        try:
            cres = run_c_kernel(cname, variant, X, Y[:, 0], NX, NY[:, 0], [S.Sym._coerce(p) for p in par])
        except C.Unsupported as e:
            out.append((case_name, undecided("C front end: %s" % e)))
            continue
        if (1,) in cres:
            pairs = [("re", cres[(0,)], nb.real), ("im", cres[(1,)], nb.imag)]
        else:
            pairs = [("re", cres[(0,)], nb)]
        bad = None
        for part, cv, nv in pairs:
            d = cv - nv
            if not S.is_zero(d):
                bad = (part, d)
                break
        if bad is None:
            out.append((case_name, proved("cfront+sym-normal-form", "OpenCL term == Numba term (%s)" % ",".join(p[0] for p in pairs))))
            continue
        w = S.find_witness(bad[1], seed=3)
        if w is None:
            out.append((case_name, undecided("normal form of the %s-part difference is non-zero, no numeric witness" % bad[0])))
            continue
        env, val = w
        rp = replay_c_vs_numba(cname, variant, key, case_name, env)
        out.append((case_name, violated(
            "%s_%s differs from Numba kernel %s (%s part): %s at the witness" % (cname, variant, key, bad[0], val), witness=env,
            replay={"callable": "checks.c20:replay_c_vs_numba", "kwargs": {"cname": cname, "variant": variant, "key": key, "case": case_name, "env": env},
                    "confirmed": rp["violates"], "result": rp,
                    "note": "the OpenCL side is evaluated from the extracted term (no OpenCL runtime in the sandbox); the Numba side is the real function"},
            signature="%s_%s" % (cname, variant))))
    return out


def ob_gradient(variant):
    """post: helmholtz_gradient_<variant>[i][re/im] == components 1..3 of fmm.helpers.helmholtz_kernel (gradient w.r.t. the test point), for every
    (target, source) pair of ONE call of the Numba kernel with two targets and two sources (slot 4 * (target * nsources + source) + 1 + i), and the OpenCL
    helmholtz_single_layer value == component 0."""
    from bempp_cl.api.fmm import helpers as FH

    out = []
    for case_name in ("ki!=0", "ki==0"):
        S.reset()
        par = [c for c in KR.param_cases("helmholtz_single_layer") if c[0] == case_name][0][1]
        X, Y, NX, NY = KR.inputs("regular", 2)
        T = S.symarray("t", (3, 2))
        nb = KR.pyfunc(FH.helmholtz_kernel)(T, Y, KR.objarr(par), np.dtype(object), np.dtype(object))
        funcs = header("kernels.h", ("REALTYPEVEC",))
        ev = C.Evaluator(funcs, consts())
        bad = None
        try:
            for ti in range(2):
                for j in range(2):
                    res = C.Cell()
                    if variant == "novec":
                        ty, tn = C.Vec(list(Y[:, j])), C.Vec(list(NY[:, j]))
                    else:
                        ty, tn = C.array_cell(list(Y[:, j])), C.array_cell(list(NY[:, j]))
                    ev.call("helmholtz_gradient_" + variant, [C.Vec(list(T[:, ti])), ty, C.Vec(list(NX)), tn, C.array_cell([S.Sym._coerce(p) for p in par]), res])
                    base = 4 * (ti * 2 + j)
                    for i in range(3):
                        n = S.Sym._coerce(nb[base + 1 + i])
                        for part, idx, nv in (("re", (i, 0), n.real), ("im", (i, 1), n.imag)):
                            if idx not in res.v:
                                bad = ("missing", (ti, j) + idx, None)
                                break
                            d = res.v[idx] - nv
                            if not S.is_zero(d):
                                bad = (part, (ti, j) + idx, d)
                                break
                        if bad:
                            break
                    if bad:
                        break
                if bad:
                    break
        except C.Unsupported as e:
            out.append((case_name, undecided("C front end: %s" % e)))
            continue
        if bad is None:
            out.append((case_name, proved("cfront+sym-normal-form", "6 components x 2 targets x 2 sources of one kernel call equal")))
        elif bad[2] is None:
            out.append((case_name, violated("result%s never written" % (list(bad[1]),), signature="helmholtz_gradient_" + variant)))
        else:
            w = S.find_witness(bad[2], seed=4)
            if w is None:
                out.append((case_name, undecided("difference in component %s not identically zero, no witness" % (bad[1],))))
            else:
                out.append((case_name, violated("helmholtz_gradient_%s (target, source, component, re/im) = %s differs from fmm.helpers.helmholtz_kernel called with 2 targets x 2 sources: %s"
                                                 % (variant, bad[1], w[1]), witness=w[0], signature="helmholtz_gradient_" + variant)))
    return out


SHAPESETS = {"p0_discontinuous": 1, "p1_discontinuous": 1, "rwg0": 2, "snc0": 2}


def ob_shapeset(ident):
    """post: <ident>_evaluate(localPoint)[dim*f + c] == shapesets._SHAPESETS[ident]['evaluate'](p)[c, f, 0] for a generic local point."""
    from bempp_cl.api.space import shapesets as SH

    S.reset()
    funcs = header(ident + "_shapeset.h")
    ev = C.Evaluator(funcs, consts())
    px, py = S.var("px"), S.var("py")
    lp = C.Cell()
    lp.v[(0,)] = C.Vec([px, py])
    res = C.Cell()
    ev.call(ident + "_evaluate", [lp, res])
    pts = np.empty((2, 1), dtype=object)
    pts[0, 0], pts[1, 0] = px, py
    f = KR.pyfunc(SH._SHAPESETS[ident]["evaluate"])
    nb = f(pts)
    dim = SHAPESETS[ident]
    nshape = SH._SHAPESETS[ident]["number_of_shape_functions"]
    if nb.shape != (dim, nshape, 1):
        return violated("numba shapeset returns shape %s, expected %s" % (nb.shape, (dim, nshape, 1)), signature=ident)
    if set(res.v) != {(dim * fi + c,) for fi in range(nshape) for c in range(dim)}:
        return violated("OpenCL %s_evaluate writes slots %s" % (ident, sorted(res.v)), signature=ident)
    for fi in range(nshape):
        for c in range(dim):
            d = res.v[(dim * fi + c,)] - S.Sym._coerce(nb[c, fi, 0])
            if not S.is_zero(d):
                return violated("shape function %d component %d differs: OpenCL %s vs Numba %s" % (fi, c, res.v[(dim * fi + c,)], nb[c, fi, 0]),
                                witness={"px": 0.25, "py": 0.5}, signature=ident)
    return proved("cfront+sym-normal-form", "%d values equal at a generic point" % (dim * nshape))


def ob_constants():
    """table: literal constants of bempp_base_types.h equal the exact values to 1 ulp of the type (both PRECISION blocks)."""
    import mpmath

    mpmath.mp.dps = 50
    text = open(os.path.join(INC, "bempp_base_types.h")).read()
    exact = {"M_ZERO": mpmath.mpf(0), "M_ONE": mpmath.mpf(1), "M_TWO": mpmath.mpf(2), "M_4PI": 4 * mpmath.pi, "M_INV_4PI": 1 / (4 * mpmath.pi)}
    res = []
    blocks = re.split(r"#if PRECISION == ", text)[1:]
    if len(blocks) != 2:
        return [("layout", undecided("expected two PRECISION blocks"))]
    for blk in blocks:
        prec = int(blk[0])
        ulp = mpmath.mpf(2) ** (-23 if prec == 0 else -52)
        for name, ex in exact.items():
            m = re.search(r"#define\s+%s\s+([0-9.eE+-]+)(f?)\s" % name, blk)
            if not m:
                res.append(("%s/PRECISION=%d" % (name, prec), undecided("constant not found")))
                continue
            val = mpmath.mpf(m.group(1))
            if (prec == 0) != (m.group(2) == "f"):
                res.append(("%s/PRECISION=%d" % (name, prec), violated("literal suffix does not match the precision block", signature=name)))
                continue
            ok = (val == ex) if ex in (0, 1, 2) else abs(val - ex) <= ulp * abs(ex)
            if ok:
                res.append(("%s/PRECISION=%d" % (name, prec), proved("mpmath-50-digits", "%s = %s" % (name, m.group(1)))))
            else:
                res.append(("%s/PRECISION=%d" % (name, prec), violated("%s = %s is not within 1 ulp of %s" % (name, m.group(1), mpmath.nstr(ex, 20)),
                                                                        witness={"literal": m.group(1)}, signature=name,
                                                                        replay={"confirmed": True, "result": "literal read from the header"})))
    # numba constant
    from bempp_cl.core import numba_kernels as NK

    ok = abs(mpmath.mpf(NK.M_INV_4PI) - exact["M_INV_4PI"]) <= mpmath.mpf(2) ** -52 * exact["M_INV_4PI"]
    res.append(("numba_kernels.M_INV_4PI", proved("mpmath-50-digits") if ok else violated("numba M_INV_4PI = %r" % NK.M_INV_4PI, signature="numba M_INV_4PI",
                                                                                         replay={"confirmed": True})))
    return res


def ob_no_lane_mixing():
    """frame: kernels.h contains no construct outside the element-wise subset (swizzles, VEC_ELEMENT, casts, loops) -- checked by the
    parser accepting every function; and every function of the file is paired or a listed helper."""
    funcs = header("kernels.h", ("REALTYPEVEC",))
    names = cl_kernel_names()
    expected = {"%s_%s" % (c, v) for c in names.values() for v in VARIANTS} | {"helmholtz_gradient_" + v for v in VARIANTS}
    helpers = {"diff_vec", "diff_vec4", "diff_vec8", "diff_vec16"}
    extra = set(funcs) - expected - helpers
    missing = expected - set(funcs)
    if missing:
        return violated("kernel functions selected by opencl_kernels.py but absent from kernels.h: %s" % sorted(missing), signature="pairing",
                        replay={"confirmed": True})
    if extra:
        return undecided("functions in kernels.h without a Numba counterpart under contract: %s" % sorted(extra))
    return proved("cfront-parse", "%d functions parsed in the element-wise subset; all paired" % len(funcs))


def ob_missing_pair(key):
    return violated("opencl_kernels.py selects kernel key %s which has no Numba kernel in select_numba_kernels" % key, signature="pairing/" + key,
                    replay={"confirmed": True})


def main():
    run = Run("C20", "proof")
    run.explanation = ("kernels.h and the four shapeset headers are tokenised and parsed on every run (vlib/cfront.py; comments, preprocessor "
                       "lines and qualifiers dropped, one generic vector lane) and evaluated into the same term language as the real Numba "
                       "functions (executed with JIT off on symbolic proxies). Equality of real and imaginary parts is decided as an "
                       "exponential-polynomial identity for generic x, y, normals and all real (k_r, k_i) / omega.")
    names = cl_kernel_names()
    nb_keys = set(KR.kernel_tables()["kernel_functions_regular"])
    run.add("kernels.h::subset+pairing", "frame", ob_no_lane_mixing)
    for key, cname in names.items():
        if key not in nb_keys:
            run.add("pairing.%s" % key, "post", ob_missing_pair, key)
            continue
        run.under_contract(KR.kernel_function(key, "regular"))
        for v in VARIANTS:
            run.add("kernels.h.%s_%s==numba.%s" % (cname, v, KR.pyfunc(KR.kernel_function(key, "regular")).__name__), "post", ob_kernel, key, cname, v)
    for v in VARIANTS:
        run.add("kernels.h.helmholtz_gradient_%s==fmm.helpers.helmholtz_kernel[1:4]" % v, "post", ob_gradient, v)
    for ident in SHAPESETS:
        run.add("%s_shapeset.h==shapesets.py" % ident, "post", ob_shapeset, ident)
    run.add("bempp_base_types.h::constants", "table", ob_constants)
    # "to the precision of the type": the identities above are real-arithmetic; the Numba reference kernels themselves are compared natively with the closed forms at
    # extreme scales (cancellation, clamps), in double precision
    from checks import c03 as _c03
    from specs import kernels as _KS

    for key in sorted(nb_keys):
        if key in _KS.SPEC:
            run.add("numba.%s::float-level(extreme scales)" % key, "bounded", _c03.ob_extreme_scales, key, "regular")
    if run.tier == "thorough":
        # trusted-base reduction shared by every kernel property (C01-C08, C20): the compiled Numba functions agree with the source the proofs are about
        from vlib import jitdiff

        run.add("numba-compiled-kernels==their-python-source", "bounded", jitdiff.ob_jit_vs_source)
        run.add("numba-compiled-assembly==interpreted-assembly", "bounded", jitdiff.ob_assemblers_jit_vs_source)
        run.bound("JIT differential: every function of the regular / singular kernel tables, 5 random columns, real / complex / purely imaginary parameters, 1e-12")
    run.functions["bempp_cl/core/sources/include/kernels.h"] = {"sha256_16": __import__("vlib.framework", fromlist=["src_hash"]).src_hash(os.path.join(INC, "kernels.h")),
                                                                  "dropped": "comments, preprocessor lines, qualifiers; vector types evaluated on one generic lane"}
    run.assume("OpenCL builtins sqrt rsqrt cos sin exp dot length distance compute the real functions; vector operators are element-wise")
    run.assume("'to the precision of the type' is decided only for the literal constants (1 ulp); rounding of the arithmetic is not modelled")
    run.assume("x != y (dist > 0)")
    return run.finish()


if __name__ == "__main__":
    sys.exit(main())
