"""Block contracts (per iteration of the final loops) of the DOF-map functions: the properties of one element's rows that C16 (slot cover) and C09
(non-zero multiplier <=> the slot carries a real dof) rely on.  The blocks are extracted mechanically (vlib/vblock.py) from the real functions on
every run.  `requires` describe the state the earlier part of the function leaves for the rows of an element that has not been processed yet; they
are checked on real runs by the bounded DOF-map contracts of C09 / C16 (listed there as the link between the two)."""


# contract of the nested helper `find_index` of _compute_p1_dof_map (verified on its own as a function, see contracts/p1_helpers.py; used here at the call site)
FIND_INDEX = {
    "args": {"array": ("arr1",), "value": ("int",)},
    "requires": [],
    "result": ("int",),
    "ensures": ["result == -1 or (0 <= result and result < len(array) and array[result] == value)",
                "forall(0, len(array), lambda i: implies(result == -1 or i < result, array[i] != value))"],
}

BLOCKS = {
    "_process_segments_block": {
        # space._process_segments (every function space is built on its result): which elements form the support and which normals are swapped.
        # Program slice: everything but the ValueError for "both support_elements and segments given" (-> requires) and `if swapped_normals is None:
        # swapped_normals = {}` (-> the contract is stated for a given collection; None means the empty one).  `segments` / `swapped_normals` are abstracted to
        # the SET of their entries: order and multiplicity of the user-supplied list must not matter.
        "function": ("bempp_cl.api.space.space", "_process_segments"),
        "slice_targets": ["number_of_elements", "normal_multipliers", "support"],
        "records": ["grid"],
        "loop": None,
        "params": ["grid_domain_indices", "grid_number_of_elements", "support_elements", "segments", "swapped_normals"],
        "returns": ["support", "normal_multipliers"],
        "contract": {
            "args": {"grid_domain_indices": ("arr1",), "grid_number_of_elements": ("int",), "support_elements": ("opt", ("arr1",)), "segments": ("opt", ("intlist",)),
                     "swapped_normals": ("intlist",)},
            "requires": ["len(grid_domain_indices) == grid_number_of_elements",
                         "(support_elements is None) or (segments is None)",
                         "(support_elements is None) or forall(0, len(support_elements), lambda i: 0 <= support_elements[i] and support_elements[i] < grid_number_of_elements)"],
            "loops": {
                1: {"invariant": ["len(normal_multipliers) == grid_number_of_elements",
                                  "forall(0, _k, lambda e: (normal_multipliers[e] == -1) == (grid_domain_indices[e] in swapped_normals))",
                                  "forall(0, _k, lambda e: normal_multipliers[e] == -1 or normal_multipliers[e] == 1)"]},
                2: {"invariant": ["len(support) == grid_number_of_elements",
                                  "forall(0, _k, lambda e: (support[e] != 0) == (grid_domain_indices[e] in segments))",
                                  "forall(_k, grid_number_of_elements, lambda e: support[e] == 0)"]},
            },
            "result": ("tuple", 2),
            "ensures": [
                "len(result_0) == grid_number_of_elements and len(result_1) == grid_number_of_elements",
                "forall(0, grid_number_of_elements, lambda e: (result_1[e] == -1) == (grid_domain_indices[e] in swapped_normals))",
                "forall(0, grid_number_of_elements, lambda e: result_1[e] == -1 or result_1[e] == 1)",
                "(segments is None) or forall(0, grid_number_of_elements, lambda e: (result_0[e] != 0) == (grid_domain_indices[e] in segments))",
                "(support_elements is None) or forall(0, grid_number_of_elements, lambda e: (result_0[e] != 0) == exists(0, len(support_elements), lambda i: support_elements[i] == e))",
                "(segments is not None) or (support_elements is not None) or forall(0, grid_number_of_elements, lambda e: result_0[e] != 0)",
            ],
        },
    },
    "_boundary_vertices": {
        # Grid._compute_boundary_information, vertex part (program slice: the flag array and the loop over the boundary edges): a vertex is flagged exactly if it is an
        # end point of an edge flagged as boundary edge.  (That the edge flags mark the edges with one adjacent element comes from a scipy product and stays under the
        # bounded sweep of C11.)  Used by C09 / C10: the P1 dof selection reads these flags.
        "function": ("bempp_cl.api.grid.grid", "Grid._compute_boundary_information"),
        "slice_targets": ["arr0"],
        "loop": None,
        "params": ["edges", "arr1", "number_of_vertices"],
        "returns": ["arr0"],
        "contract": {
            "opaque_ok": True,
            "args": {"edges": ("arr2", (2, "NE")), "arr1": ("arr1",), "number_of_vertices": ("int",)},
            "requires": ["len(arr1) == NE and number_of_vertices >= 0",
                         "forall(0, NE, lambda x: 0 <= edges[0, x] and edges[0, x] < number_of_vertices and 0 <= edges[1, x] and edges[1, x] < number_of_vertices)"],
            "loops": {1: {"invariant": [
                "len(arr0) == number_of_vertices",
                "forall(0, number_of_vertices, lambda v: (arr0[v] != 0) == exists(0, _k, lambda t: edges[0, _iter[t]] == v or edges[1, _iter[t]] == v))"]}},
            "result": ("arr1",),
            "ensures": [
                "len(result) == number_of_vertices",
                "forall(0, number_of_vertices, lambda v: (result[v] != 0) == exists(0, NE, lambda x: arr1[x] != 0 and (edges[0, x] == v or edges[1, x] == v)))"],
        },
    },
    "_p1_numbering": {
        # the straight-line part of _compute_p1_dof_map between its loops that turns the marked vertices into dof numbers: dofs[v] == -1 off the marked vertices and
        # an increasing bijection of the marked vertices onto 0 .. global_dof_count - 1 (this is the `requires` of _p1_final_block about `dofs`)
        "function": ("bempp_cl.api.space.scalar_spaces", "_compute_p1_dof_map"),
        "slice_targets": ["dofs", "used_dofs", "global_dof_count"],
        "loop": None,
        "params": ["vertex_is_dof", "number_of_vertices"],
        "returns": ["dofs", "global_dof_count"],
        "contract": {
            "opaque_ok": True,
            "args": {"vertex_is_dof": ("arr1",), "number_of_vertices": ("int",)},
            "requires": ["len(vertex_is_dof) == number_of_vertices"],
            "result": ("tuple", 2),
            "ensures": [
                "len(result_0) == number_of_vertices and result_1 >= 0",
                "forall(0, number_of_vertices, lambda v: (result_0[v] != -1) == (vertex_is_dof[v] != 0))",
                "forall(0, number_of_vertices, lambda v: vertex_is_dof[v] == 0 or (0 <= result_0[v] and result_0[v] < result_1))",
                "forall(0, number_of_vertices, lambda v: forall(0, v, lambda u: vertex_is_dof[v] == 0 or vertex_is_dof[u] == 0 or result_0[u] < result_0[v]))",
                "forall(0, result_1, lambda d: exists(0, number_of_vertices, lambda v: vertex_is_dof[v] != 0 and result_0[v] == d))",
            ],
        },
    },
    "_p1_final_block": {
        "function": ("bempp_cl.api.space.scalar_spaces", "_compute_p1_dof_map"),
        "loop": ("elements_in_support", 1),
        "params": ["element_index", "local2global", "dofs", "support_final", "local2global_final", "local_multipliers"],
        "returns": ["support_final", "local2global_final", "local_multipliers"],
        "contract": {
            "opaque_ok": True,
            "args": {"element_index": ("int",), "local2global": ("arr2", ("N", 3)), "dofs": ("arr1",), "support_final": ("arr1",),
                     "local2global_final": ("arr2", ("N", 3)), "local_multipliers": ("arr2", ("N", 3))},
            "requires": ["0 <= element_index and element_index < N", "len(support_final) == N",
                         # rows of an element not processed yet are still zero / False (allocated with zeros, each support element occurs once)
                         "forall(0, 3, lambda j: local2global_final[element_index, j] == 0 and local_multipliers[element_index, j] == 0)",
                         "support_final[element_index] == 0",
                         # every vertex marked as dof has a non-negative dof number (dofs[used_dofs] = arange)
                         "forall(0, 3, lambda j: local2global[element_index, j] == -1 or (0 <= local2global[element_index, j] and local2global[element_index, j] < len(dofs) "
                         "and dofs[local2global[element_index, j]] >= 0))"],
            "result": ("tuple", 3),
            "ensures": [
                # C09: a slot has multiplier 1 exactly if it carries a vertex dof, and then maps to that vertex's dof number; all other multipliers are 0
                "forall(0, 3, lambda j: (result_2[element_index, j] == 1) == (local2global[element_index, j] != -1))",
                "forall(0, 3, lambda j: result_2[element_index, j] == 0 or result_2[element_index, j] == 1)",
                "forall(0, 3, lambda j: implies(local2global[element_index, j] != -1, result_1[element_index, j] == dofs[local2global[element_index, j]]))",
                # the element is in the final support exactly if it carries a dof
                "(result_0[element_index] != 0) == exists(0, 3, lambda j: local2global[element_index, j] != -1)",
                # C16 slot cover: the dof number of EVERY slot (also of the artificial zero-multiplier ones) sits in a non-zero slot of the same element
                "implies(result_0[element_index] != 0, forall(0, 3, lambda j: exists(0, 3, lambda i: result_2[element_index, i] != 0 and result_1[element_index, i] == result_1[element_index, j])))",
                # frame: rows of other elements are untouched
                "forall(0, N, lambda e: implies(e != element_index, result_0[e] == old_support_final[e] and forall(0, 3, lambda j: result_1[e, j] == old_local2global_final[e, j] "
                "and result_2[e, j] == old_local_multipliers[e, j])))",
            ],
        },
    },
    "_p1_selection_block": {
        # one (support element, local vertex) step of the first loop of _compute_p1_dof_map: which slots get a vertex dof, and the extension of the
        # support beyond the segment (C09: dof <=> vertex of the segment that is interior or include_boundary_dofs; C10: support extension of P1 / DUAL0)
        "function": ("bempp_cl.api.space.scalar_spaces", "_compute_p1_dof_map"),
        "loop": ("elements_in_support", 0),
        "inner": [("range(3)", 0)],
        "records": ["grid_data"],
        "callees": {"find_index": FIND_INDEX},
        "params": ["element_index", "local_index", "grid_data_elements", "grid_data_vertex_on_boundary", "vertex_neighbors", "index_ptr", "support",
                   "include_boundary_dofs", "truncate_at_segment_edge", "local2global", "vertex_is_dof", "extended_support"],
        "returns": ["local2global", "vertex_is_dof", "extended_support"],
        "contract": {
            "opaque_ok": True,
            "args": {"element_index": ("int",), "local_index": ("int",), "grid_data_elements": ("arr2", (3, "N")), "grid_data_vertex_on_boundary": ("arr1",),
                     "vertex_neighbors": ("arr1",), "index_ptr": ("arr1",), "support": ("arr1",), "include_boundary_dofs": ("int",), "truncate_at_segment_edge": ("int",),
                     "local2global": ("arr2", ("N", 3)), "vertex_is_dof": ("arr1",), "extended_support": ("intlist",)},
            "requires": [
                "0 <= element_index and element_index < N and 0 <= local_index and local_index < 3", "len(support) == N",
                # the loop runs over the elements of the support
                "support[element_index] != 0",
                # grid invariants (C11: vertex-neighbour table): vertices in range, CSR offsets monotone and in range, every listed neighbour is an element containing the vertex
                "len(index_ptr) == len(vertex_is_dof) + 1 and len(grid_data_vertex_on_boundary) == len(vertex_is_dof)",
                "forall(0, N, lambda e: forall(0, 3, lambda j: 0 <= grid_data_elements[j, e] and grid_data_elements[j, e] < len(vertex_is_dof)))",
                "forall(0, len(vertex_is_dof), lambda v: 0 <= index_ptr[v] and index_ptr[v] <= index_ptr[v + 1] and index_ptr[v + 1] <= len(vertex_neighbors))",
                "forall(0, len(vertex_is_dof), lambda v: forall(index_ptr[v], index_ptr[v + 1], lambda i: 0 <= vertex_neighbors[i] and vertex_neighbors[i] < N and "
                "exists(0, 3, lambda j: grid_data_elements[j, vertex_neighbors[i]] == v)))",
            ],
            "loops": {1: {"invariant": [
                # every non-support neighbour met so far carries the vertex in the slot where the vertex sits in that element
                "forall(index_ptr[vertex], _ka, lambda i: support[vertex_neighbors[i]] != 0 or exists(0, 3, lambda j: grid_data_elements[j, vertex_neighbors[i]] == vertex and local2global[vertex_neighbors[i], j] == vertex))",
                # nothing else has changed: entries either keep the value they had when the loop started, or are such slots of non-support elements
                "forall(0, N, lambda e: forall(0, 3, lambda j: (e == element_index and j == local_index and local2global[e, j] == vertex) or local2global[e, j] == old_local2global[e, j] "
                "or (support[e] == 0 and grid_data_elements[j, e] == vertex and local2global[e, j] == vertex)))",
                "local2global[element_index, local_index] == vertex",
                "forall_any(lambda n: (n in extended_support) == ((n in old_extended_support) or exists(index_ptr[vertex], _ka, lambda i: support[vertex_neighbors[i]] == 0 and vertex_neighbors[i] == n)))",
            ]}},
            "result": ("tuple", 3),
            "ensures": [
                # C09: the slot of a support element gets the vertex as (pre-)dof exactly if boundary dofs are included or the vertex is interior to the segment:
                # no non-support element around it and not on the grid boundary; otherwise the slot keeps its value
                "implies(include_boundary_dofs != 0 or (forall(index_ptr[grid_data_elements[local_index, element_index]], index_ptr[grid_data_elements[local_index, element_index] + 1], "
                "lambda i: support[vertex_neighbors[i]] != 0) and grid_data_vertex_on_boundary[grid_data_elements[local_index, element_index]] == 0), "
                "result_0[element_index, local_index] == grid_data_elements[local_index, element_index] and result_1[grid_data_elements[local_index, element_index]] != 0)",
                "implies(not (include_boundary_dofs != 0 or (forall(index_ptr[grid_data_elements[local_index, element_index]], index_ptr[grid_data_elements[local_index, element_index] + 1], "
                "lambda i: support[vertex_neighbors[i]] != 0) and grid_data_vertex_on_boundary[grid_data_elements[local_index, element_index]] == 0)), "
                "result_0[element_index, local_index] == old_local2global[element_index, local_index] and "
                "result_1[grid_data_elements[local_index, element_index]] == old_vertex_is_dof[grid_data_elements[local_index, element_index]])",
                # the marker array changes at this vertex only
                "forall(0, len(vertex_is_dof), lambda v: v == grid_data_elements[local_index, element_index] or result_1[v] == old_vertex_is_dof[v])",
                # C10 (support extension): without truncation and with boundary dofs every element around the vertex outside the segment carries the vertex in the
                # slot where the vertex sits in that element, and is recorded for the extended support
                "implies(truncate_at_segment_edge == 0 and include_boundary_dofs != 0, "
                "forall(index_ptr[grid_data_elements[local_index, element_index]], index_ptr[grid_data_elements[local_index, element_index] + 1], lambda i: "
                "support[vertex_neighbors[i]] != 0 or (vertex_neighbors[i] in result_2 and exists(0, 3, lambda j: grid_data_elements[j, vertex_neighbors[i]] == grid_data_elements[local_index, element_index] "
                "and result_0[vertex_neighbors[i], j] == grid_data_elements[local_index, element_index]))))",
                # with truncation (or without boundary dofs) nothing outside this slot changes
                "implies(truncate_at_segment_edge != 0 or include_boundary_dofs == 0, forall(0, N, lambda e: forall(0, 3, lambda j: (e == element_index and j == local_index) "
                "or result_0[e, j] == old_local2global[e, j])))",
                "implies(truncate_at_segment_edge != 0 or include_boundary_dofs == 0, forall_any(lambda n: (n in result_2) == (n in old_extended_support)))",
                # frame in every case: rows of other SUPPORT elements are untouched; slots of non-support elements change only to this vertex, where the element has it
                "forall(0, N, lambda e: forall(0, 3, lambda j: (e == element_index and j == local_index) or result_0[e, j] == old_local2global[e, j] "
                "or (support[e] == 0 and grid_data_elements[j, e] == grid_data_elements[local_index, element_index] and result_0[e, j] == grid_data_elements[local_index, element_index])))",
            ],
        },
    },
    "_rwg_step_block": {
        # one (support element, local edge) step of the first loop of _compute_rwg0_space_data: which edges get a dof (exactly two supported elements on the edge,
        # or exactly one and boundary dofs included), the dof counter, and the extension of the support across a segment edge (C09 / C10)
        "function": ("bempp_cl.api.space.maxwell_spaces", "_compute_rwg0_space_data"),
        "loop": ("_np.flatnonzero(support)", 0),
        "inner": [("range(3)", 0)],
        "params": ["element", "local_index", "element_edges", "edge_dofs", "edge_neighbors", "edge_neighbors_ptr", "support", "dof_count", "has_dof",
                   "include_boundary_dofs", "truncate_at_segment_edge"],
        "returns": ["support", "edge_dofs", "dof_count", "has_dof"],
        "contract": {
            "opaque_ok": True,
            "args": {"element": ("int",), "local_index": ("int",), "element_edges": ("arr2", (3, "N")), "edge_dofs": ("arr1",), "edge_neighbors": ("arr1",),
                     "edge_neighbors_ptr": ("arr1",), "support": ("arr1",), "dof_count": ("int",), "has_dof": ("int",), "include_boundary_dofs": ("int",),
                     "truncate_at_segment_edge": ("int",)},
            "requires": ["0 <= element and element < N and 0 <= local_index and local_index < 3", "len(support) == N", "dof_count >= 0",
                         "forall(0, 3, lambda j: 0 <= element_edges[j, element] and element_edges[j, element] < len(edge_dofs))",
                         "len(edge_neighbors_ptr) == len(edge_dofs) + 1",
                         "forall(0, len(edge_dofs), lambda x: 0 <= edge_neighbors_ptr[x] and edge_neighbors_ptr[x] <= edge_neighbors_ptr[x + 1] and edge_neighbors_ptr[x + 1] <= len(edge_neighbors))",
                         "forall(0, len(edge_neighbors), lambda i: 0 <= edge_neighbors[i] and edge_neighbors[i] < N)",
                         "forall(0, len(edge_dofs), lambda x: edge_dofs[x] >= -1 and edge_dofs[x] < dof_count)",
                         # loop invariant of the enclosing loops (holds initially: all -1, counter 0; preserved: see the last three ensures): the dof numbers handed out
                         # so far are exactly 0 .. dof_count - 1, each on one edge
                         "forall(0, len(edge_dofs), lambda x: forall(0, x, lambda y: edge_dofs[x] == -1 or edge_dofs[x] != edge_dofs[y]))",
                         "forall(0, dof_count, lambda d: exists(0, len(edge_dofs), lambda x: edge_dofs[x] == d))"],
            "loops": {1: {"invariant": [
                "forall(edge_neighbors_ptr[edge_index], _ka, lambda i: support[edge_neighbors[i]] != 0)",
                "forall(0, N, lambda e: support[e] == old_support[e] or (support[e] != 0 and exists(edge_neighbors_ptr[edge_index], _ka, lambda i: edge_neighbors[i] == e)))",
            ]}},
            "result": ("tuple", 4),
            "ensures": [
                # an edge that already has a dof: nothing changes, the element has a dof
                "implies(old_edge_dofs[element_edges[local_index, element]] != -1, result_1[element_edges[local_index, element]] == old_edge_dofs[element_edges[local_index, element]] and result_2 == old_dof_count and result_3 != 0)",
                # a new dof exactly for an edge with two supported elements, or with one when boundary dofs are included; it gets the next number
                "implies((old_edge_dofs[element_edges[local_index, element]] == -1 and ((exists(edge_neighbors_ptr[element_edges[local_index, element]], edge_neighbors_ptr[element_edges[local_index, element] + 1], lambda a: old_support[edge_neighbors[a]] != 0 and exists(a + 1, edge_neighbors_ptr[element_edges[local_index, element] + 1], lambda b: old_support[edge_neighbors[b]] != 0)) and not exists(edge_neighbors_ptr[element_edges[local_index, element]], edge_neighbors_ptr[element_edges[local_index, element] + 1], lambda a: old_support[edge_neighbors[a]] != 0 and exists(a + 1, edge_neighbors_ptr[element_edges[local_index, element] + 1], lambda b: old_support[edge_neighbors[b]] != 0 and exists(b + 1, edge_neighbors_ptr[element_edges[local_index, element] + 1], lambda c: old_support[edge_neighbors[c]] != 0)))) or ((exists(edge_neighbors_ptr[element_edges[local_index, element]], edge_neighbors_ptr[element_edges[local_index, element] + 1], lambda a: old_support[edge_neighbors[a]] != 0) and not exists(edge_neighbors_ptr[element_edges[local_index, element]], edge_neighbors_ptr[element_edges[local_index, element] + 1], lambda a: old_support[edge_neighbors[a]] != 0 and exists(a + 1, edge_neighbors_ptr[element_edges[local_index, element] + 1], lambda b: old_support[edge_neighbors[b]] != 0))) and include_boundary_dofs != 0))), result_1[element_edges[local_index, element]] == old_dof_count and result_2 == old_dof_count + 1 and result_3 != 0)",
                "implies(old_edge_dofs[element_edges[local_index, element]] == -1 and not (old_edge_dofs[element_edges[local_index, element]] == -1 and ((exists(edge_neighbors_ptr[element_edges[local_index, element]], edge_neighbors_ptr[element_edges[local_index, element] + 1], lambda a: old_support[edge_neighbors[a]] != 0 and exists(a + 1, edge_neighbors_ptr[element_edges[local_index, element] + 1], lambda b: old_support[edge_neighbors[b]] != 0)) and not exists(edge_neighbors_ptr[element_edges[local_index, element]], edge_neighbors_ptr[element_edges[local_index, element] + 1], lambda a: old_support[edge_neighbors[a]] != 0 and exists(a + 1, edge_neighbors_ptr[element_edges[local_index, element] + 1], lambda b: old_support[edge_neighbors[b]] != 0 and exists(b + 1, edge_neighbors_ptr[element_edges[local_index, element] + 1], lambda c: old_support[edge_neighbors[c]] != 0)))) or ((exists(edge_neighbors_ptr[element_edges[local_index, element]], edge_neighbors_ptr[element_edges[local_index, element] + 1], lambda a: old_support[edge_neighbors[a]] != 0) and not exists(edge_neighbors_ptr[element_edges[local_index, element]], edge_neighbors_ptr[element_edges[local_index, element] + 1], lambda a: old_support[edge_neighbors[a]] != 0 and exists(a + 1, edge_neighbors_ptr[element_edges[local_index, element] + 1], lambda b: old_support[edge_neighbors[b]] != 0))) and include_boundary_dofs != 0))), result_1[element_edges[local_index, element]] == -1 and result_2 == old_dof_count and result_3 == old_has_dof)",
                # other edges keep their dof number
                "forall(0, len(edge_dofs), lambda x: x == element_edges[local_index, element] or result_1[x] == old_edge_dofs[x])",
                # support extension across the segment edge: exactly when a new boundary dof is created without truncation; then every element on the edge is in the support
                "implies((old_edge_dofs[element_edges[local_index, element]] == -1 and (exists(edge_neighbors_ptr[element_edges[local_index, element]], edge_neighbors_ptr[element_edges[local_index, element] + 1], lambda a: old_support[edge_neighbors[a]] != 0) and not exists(edge_neighbors_ptr[element_edges[local_index, element]], edge_neighbors_ptr[element_edges[local_index, element] + 1], lambda a: old_support[edge_neighbors[a]] != 0 and exists(a + 1, edge_neighbors_ptr[element_edges[local_index, element] + 1], lambda b: old_support[edge_neighbors[b]] != 0))) and include_boundary_dofs != 0 and truncate_at_segment_edge == 0), forall(edge_neighbors_ptr[element_edges[local_index, element]], edge_neighbors_ptr[element_edges[local_index, element] + 1], lambda i: result_0[edge_neighbors[i]] != 0))",
                "implies((old_edge_dofs[element_edges[local_index, element]] == -1 and (exists(edge_neighbors_ptr[element_edges[local_index, element]], edge_neighbors_ptr[element_edges[local_index, element] + 1], lambda a: old_support[edge_neighbors[a]] != 0) and not exists(edge_neighbors_ptr[element_edges[local_index, element]], edge_neighbors_ptr[element_edges[local_index, element] + 1], lambda a: old_support[edge_neighbors[a]] != 0 and exists(a + 1, edge_neighbors_ptr[element_edges[local_index, element] + 1], lambda b: old_support[edge_neighbors[b]] != 0))) and include_boundary_dofs != 0 and truncate_at_segment_edge == 0), forall(0, N, lambda e: result_0[e] == old_support[e] or (result_0[e] != 0 and exists(edge_neighbors_ptr[element_edges[local_index, element]], edge_neighbors_ptr[element_edges[local_index, element] + 1], lambda i: edge_neighbors[i] == e))))",
                "implies(not (old_edge_dofs[element_edges[local_index, element]] == -1 and (exists(edge_neighbors_ptr[element_edges[local_index, element]], edge_neighbors_ptr[element_edges[local_index, element] + 1], lambda a: old_support[edge_neighbors[a]] != 0) and not exists(edge_neighbors_ptr[element_edges[local_index, element]], edge_neighbors_ptr[element_edges[local_index, element] + 1], lambda a: old_support[edge_neighbors[a]] != 0 and exists(a + 1, edge_neighbors_ptr[element_edges[local_index, element] + 1], lambda b: old_support[edge_neighbors[b]] != 0))) and include_boundary_dofs != 0 and truncate_at_segment_edge == 0), forall(0, N, lambda e: result_0[e] == old_support[e]))",
                # the numbering invariant is preserved: range, one edge per number, no gaps
                "forall(0, len(edge_dofs), lambda x: result_1[x] >= -1 and result_1[x] < result_2)",
                "forall(0, len(edge_dofs), lambda x: forall(0, x, lambda y: result_1[x] == -1 or result_1[x] != result_1[y]))",
                "forall(0, result_2, lambda d: exists(0, len(edge_dofs), lambda x: result_1[x] == d))",
            ],
        },
    },
    "_rwg_final_block": {
        "function": ("bempp_cl.api.space.maxwell_spaces", "_compute_rwg0_space_data"),
        "loop": ("_np.flatnonzero(support)", 1),
        "params": ["element_index", "element_edges", "edge_dofs", "edge_neighbors", "edge_neighbors_ptr", "support", "local_multipliers", "local2global_map"],
        "returns": ["local_multipliers", "local2global_map"],
        "contract": {
            "opaque_ok": True,
            "args": {"element_index": ("int",), "element_edges": ("arr2", (3, "N")), "edge_dofs": ("arr1",), "edge_neighbors": ("arr1",), "edge_neighbors_ptr": ("arr1",),
                     "support": ("arr1",), "local_multipliers": ("arr2", ("N", 3)), "local2global_map": ("arr2", ("N", 3))},
            "requires": ["0 <= element_index and element_index < N",
                         "forall(0, 3, lambda j: 0 <= element_edges[j, element_index] and element_edges[j, element_index] < len(edge_dofs))",
                         # grid invariant (C11: edge-neighbour table in CSR form): offsets monotone and in range
                         "len(edge_neighbors_ptr) == len(edge_dofs) + 1",
                         "forall(0, len(edge_dofs), lambda x: 0 <= edge_neighbors_ptr[x] and edge_neighbors_ptr[x] <= edge_neighbors_ptr[x + 1] and edge_neighbors_ptr[x + 1] <= len(edge_neighbors))",
                         # rows of an element not processed yet are still zero (allocated with zeros, flatnonzero lists every element once)
                         "forall(0, 3, lambda j: local_multipliers[element_index, j] == 0)",
                         # the first loop removed elements without any dof from the support
                         "exists(0, 3, lambda j: edge_dofs[element_edges[j, element_index]] != -1)"],
            "result": ("tuple", 2),
            "ensures": [
                "forall(0, 3, lambda j: (result_0[element_index, j] != 0) == (edge_dofs[element_edges[j, element_index]] != -1))",
                "forall(0, 3, lambda j: result_0[element_index, j] == 0 or result_0[element_index, j] == 1 or result_0[element_index, j] == -1)",
                "forall(0, 3, lambda j: implies(edge_dofs[element_edges[j, element_index]] != -1, result_1[element_index, j] == edge_dofs[element_edges[j, element_index]]))",
                # C16 slot cover
                "forall(0, 3, lambda j: exists(0, 3, lambda i: result_0[element_index, i] != 0 and result_1[element_index, i] == result_1[element_index, j]))",
                "forall(0, N, lambda e: implies(e != element_index, forall(0, 3, lambda j: result_0[e, j] == old_local_multipliers[e, j] and result_1[e, j] == old_local2global_map[e, j])))",
            ],
        },
    },
    "_sort_elements_by_color": {
        # FunctionSpace._sort_elements_by_color as a whole: the launch batches of the coloured assembly (C16 hypothesis COLOURED: batch c holds elements of colour c
        # only, each once; C04: every coloured element is in its batch)
        "function": ("bempp_cl.api.space.space", "FunctionSpace._sort_elements_by_color"),
        "loop": None,
        "method": True,
        "params": ["color_map", "number_of_support_elements"],
        "returns": ["sorted_indices", "indexptr"],
        "contract": {
            "opaque_ok": True,
            # numpy raises if the slice sorted_indices[count : count + len(colors)] leaves the array, i.e. unless the number of elements with a colour >= 0 is at most
            # number_of_support_elements: a cardinality fact (the colour map is -1 exactly off the support) that the first-order encoding cannot derive -- assumed; its
            # failure is a crash of the real code (ValueError), never a wrong batch
            "assume_slice_store_in_range": True,
            "args": {"color_map": ("arr1",), "number_of_support_elements": ("int",)},
            "requires": ["len(color_map) > 0", "number_of_support_elements >= 0", "forall(0, len(color_map), lambda e: color_map[e] >= -1)"],
            "loops": {1: {"invariant": [
                "count == indexptr[_k] and count >= 0 and indexptr[0] == 0 and _k <= ncolors and ncolors >= 0",
                "forall(0, _k + 1, lambda c: indexptr[c] <= count and 0 <= indexptr[c])",
                "forall(0, _k, lambda c: indexptr[c] <= indexptr[c + 1])",
                "forall(0, _k, lambda c: forall(indexptr[c], indexptr[c + 1], lambda i: 0 <= sorted_indices[i] and sorted_indices[i] < len(color_map) and color_map[sorted_indices[i]] == c))",
                "forall(0, _k, lambda c: forall(indexptr[c], indexptr[c + 1], lambda i: forall(indexptr[c], i, lambda j: sorted_indices[j] < sorted_indices[i])))",
                "forall(0, len(color_map), lambda e: implies(0 <= color_map[e] and color_map[e] < _k, exists(indexptr[color_map[e]], indexptr[color_map[e] + 1], lambda i: sorted_indices[i] == e)))",
            ]}},
            "result": ("tuple", 2),
            "ensures": [
                # one batch per colour 0 .. max(color_map)
                "forall(0, len(color_map), lambda e: color_map[e] + 2 <= len(result_1))",
                "result_1[0] == 0 and forall(0, len(result_1) - 1, lambda c: result_1[c] <= result_1[c + 1])",
                # batch c holds elements of colour c only ...
                "forall(0, len(result_1) - 1, lambda c: forall(result_1[c], result_1[c + 1], lambda i: 0 <= result_0[i] and result_0[i] < len(color_map) and color_map[result_0[i]] == c))",
                # ... each at most once (strictly increasing inside a batch) ...
                "forall(0, len(result_1) - 1, lambda c: forall(result_1[c], result_1[c + 1], lambda i: forall(result_1[c], i, lambda j: result_0[j] < result_0[i])))",
                # ... and every coloured element is in the batch of its colour
                "forall(0, len(color_map), lambda e: implies(color_map[e] >= 0, exists(result_1[color_map[e]], result_1[color_map[e] + 1], lambda i: result_0[i] == e)))",
            ],
        },
    },
    "_colour_step_ns1": {
        "function": ("bempp_cl.api.space.space", "FunctionSpace._compute_color_map"),
        "method": True,
        "loop": ("self.support_elements", 0),
        "params": ["element_index", "local2global", "global2local", "color_map", "number_of_support_elements"],
        "returns": ["color_map"],
        "contract": {
            "opaque_ok": True,
            # the generator passed to next() is not exhausted: an element has fewer distinct neighbour colours than there are support elements (pigeonhole);
            # not derivable per iteration without cardinalities -- assumed, listed in the evidence (a StopIteration would be a crash, not a wrong colouring)
            "assume_next_exists": True,
            "args": {"element_index": ("int",), "local2global": ("arr2", ("N", 1)), "global2local": ("rel",), "color_map": ("arr1",), "number_of_support_elements": ("int",)},
            "requires": ["0 <= element_index and element_index < N", "len(color_map) == N",
                         "forall(0, 1, lambda j: 0 <= local2global[element_index, j] and local2global[element_index, j] < len(global2local))",
                         # the element occurs in its own dof lists (it has at least ... not needed) ; set.remove needs membership, which holds by construction
                         ],
            "result": ("arr1",),
            "ensures": [
                # greedy step specification (hypothesis of lemma A): a colour in range, unused by every element listed under one of the element's dofs
                "0 <= result[element_index] and result[element_index] < number_of_support_elements",
                "forall_any(lambda n, i: not (0 <= n and n < N and n != element_index and ((n, i) in global2local[local2global[element_index, 0]])) or result[element_index] != old_color_map[n])",
                # frame
                "forall(0, N, lambda x: x == element_index or result[x] == old_color_map[x])",
            ],
        },
    },
    "_colour_step_ns3": {
        "function": ("bempp_cl.api.space.space", "FunctionSpace._compute_color_map"),
        "method": True,
        "loop": ("self.support_elements", 0),
        "params": ["element_index", "local2global", "global2local", "color_map", "number_of_support_elements"],
        "returns": ["color_map"],
        "contract": {
            "opaque_ok": True,
            # the generator passed to next() is not exhausted: an element has fewer distinct neighbour colours than there are support elements (pigeonhole);
            # not derivable per iteration without cardinalities -- assumed, listed in the evidence (a StopIteration would be a crash, not a wrong colouring)
            "assume_next_exists": True,
            "args": {"element_index": ("int",), "local2global": ("arr2", ("N", 3)), "global2local": ("rel",), "color_map": ("arr1",), "number_of_support_elements": ("int",)},
            "requires": ["0 <= element_index and element_index < N", "len(color_map) == N",
                         "forall(0, 3, lambda j: 0 <= local2global[element_index, j] and local2global[element_index, j] < len(global2local))",
                         # the element occurs in its own dof lists (it has at least ... not needed) ; set.remove needs membership, which holds by construction
                         ],
            "result": ("arr1",),
            "ensures": [
                # greedy step specification (hypothesis of lemma A): a colour in range, unused by every element listed under one of the element's dofs
                "0 <= result[element_index] and result[element_index] < number_of_support_elements",
                "forall_any(lambda n, i: not (0 <= n and n < N and n != element_index and ((n, i) in global2local[local2global[element_index, 0]] or (n, i) in global2local[local2global[element_index, 1]] or (n, i) in global2local[local2global[element_index, 2]])) or result[element_index] != old_color_map[n])",
                # frame
                "forall(0, N, lambda x: x == element_index or result[x] == old_color_map[x])",
            ],
        },
    },
    "_rwg_selection_block": {
        "function": ("bempp_cl.api.space.maxwell_spaces", "_compute_rwg0_space_data"),
        "loop": ("_np.flatnonzero(support)", 0),
        "params": ["element", "element_edges", "edge_dofs", "edge_neighbors", "edge_neighbors_ptr", "support", "dof_count", "include_boundary_dofs", "truncate_at_segment_edge"],
        "returns": ["support", "edge_dofs", "dof_count"],
        "contract": {
            "opaque_ok": True,
            "args": {"element": ("int",), "element_edges": ("arr2", (3, "N")), "edge_dofs": ("arr1",), "edge_neighbors": ("arr1",), "edge_neighbors_ptr": ("arr1",), "support": ("arr1",),
                     "dof_count": ("int",), "include_boundary_dofs": ("int",), "truncate_at_segment_edge": ("int",)},
            "requires": ["0 <= element and element < N", "len(support) == N", "dof_count >= 0",
                         "forall(0, 3, lambda j: 0 <= element_edges[j, element] and element_edges[j, element] < len(edge_dofs))",
                         # grid invariant (C11: edge-neighbour table in CSR form): offsets monotone and in range
                         "len(edge_neighbors_ptr) == len(edge_dofs) + 1",
                         "forall(0, len(edge_dofs), lambda x: 0 <= edge_neighbors_ptr[x] and edge_neighbors_ptr[x] <= edge_neighbors_ptr[x + 1] and edge_neighbors_ptr[x + 1] <= len(edge_neighbors))",
                         "forall(0, len(edge_dofs), lambda x: edge_dofs[x] >= -1 and edge_dofs[x] < dof_count)"],
            "result": ("tuple", 3),
            "ensures": [
                # precondition of the final block: an element that stays in the support has a dof on one of its edges
                "result_0[element] == 0 or exists(0, 3, lambda j: result_1[element_edges[j, element]] != -1)",
                # dof numbers stay in -1 .. dof_count - 1 and the counter only grows
                "result_2 >= dof_count",
                "forall(0, len(edge_dofs), lambda x: result_1[x] >= -1 and result_1[x] < result_2)",
                # edges other than the three edges of this element keep their dof number
                "forall(0, len(edge_dofs), lambda x: x == element_edges[0, element] or x == element_edges[1, element] or x == element_edges[2, element] or result_1[x] == edge_dofs[x])",
            ],
        },
    },
}
