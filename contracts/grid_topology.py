"""Sidecar contracts for the index / topology helpers of bempp_cl/api/grid/grid.py (DESIGN 3 C11, appendix B).

Vocabulary: forall(lo, hi, lambda i: body), exists(...), implies(a, b), iff(a, b), result / result_<k> (tuple components),
old_<arg>, len(array), array[i], array2[i, j]; in loop invariants `_k` is the number of completed iterations and `_n` the trip count.
"""

CONTRACTS = {
    "_sort_values": {
        "args": {"val1": ("int",), "val2": ("int",)},
        "result": ("tuple", 2),
        "ensures": ["result_0 <= result_1",
                    "(result_0 == val1 and result_1 == val2) or (result_0 == val2 and result_1 == val1)"],
    },
    "_vertices_from_edge_index": {
        "args": {"element": ("arr1",), "local_index": ("int",)},
        "requires": ["len(element) == 3", "0 <= local_index and local_index < 3"],
        "result": ("tuple", 2),
        "ensures": ["result_0 <= result_1",
                    "implies(local_index == 0, (result_0 == element[0] and result_1 == element[1]) or (result_0 == element[1] and result_1 == element[0]))",
                    "implies(local_index == 1, (result_0 == element[2] and result_1 == element[0]) or (result_0 == element[0] and result_1 == element[2]))",
                    "implies(local_index == 2, (result_0 == element[1] and result_1 == element[2]) or (result_0 == element[2] and result_1 == element[1]))"],
    },
    "_numba_enumerate_edges": {
        "args": {"elements": ("arr2", (3, "N")), "edge_tuple_to_index": ("pairdict",)},
        "requires": ["forall_any(lambda a, b: not ((a, b) in edge_tuple_to_index))"],
        "result": ("tuple", 2),
        "loops": {1: {"invariant": [
            "number_of_edges == len(edges) and number_of_edges >= 0",
            "forall(0, number_of_edges, lambda k: edges[k][0] <= edges[k][1])",
            "forall_any(lambda a, b: implies((a, b) in edge_tuple_to_index, 0 <= edge_tuple_to_index[a, b] and edge_tuple_to_index[a, b] < number_of_edges and edges[edge_tuple_to_index[a, b]] == (a, b)))",
            "forall(0, number_of_edges, lambda k: edges[k] in edge_tuple_to_index and edge_tuple_to_index[edges[k]] == k)",
            "forall(0, _k, lambda e: 0 <= element_edges[0, e] and element_edges[0, e] < number_of_edges and edges[element_edges[0, e]] == (min(elements[0, e], elements[1, e]), max(elements[0, e], elements[1, e])))",
            "forall(0, _k, lambda e: 0 <= element_edges[1, e] and element_edges[1, e] < number_of_edges and edges[element_edges[1, e]] == (min(elements[2, e], elements[0, e]), max(elements[2, e], elements[0, e])))",
            "forall(0, _k, lambda e: 0 <= element_edges[2, e] and element_edges[2, e] < number_of_edges and edges[element_edges[2, e]] == (min(elements[1, e], elements[2, e]), max(elements[1, e], elements[2, e])))",
            "forall(0, number_of_edges, lambda k: exists(0, _k, lambda e: element_edges[0, e] == k or element_edges[1, e] == k or element_edges[2, e] == k))",
        ]}},
        "ensures": [
            # every column of `edges` is sorted, columns are pairwise distinct (each undirected edge once)
            "forall(0, ncols(result_0), lambda k: result_0[0, k] <= result_0[1, k])",
            "forall(0, ncols(result_0), lambda k: forall(0, k, lambda m: not (result_0[0, k] == result_0[0, m] and result_0[1, k] == result_0[1, m])))",
            # element_edges points at the edge joining the two local vertices [[0,1],[2,0],[1,2]][l]
            "forall(0, N, lambda e: 0 <= result_1[0, e] and result_1[0, e] < ncols(result_0) and result_0[0, result_1[0, e]] == min(elements[0, e], elements[1, e]) and result_0[1, result_1[0, e]] == max(elements[0, e], elements[1, e]))",
            "forall(0, N, lambda e: 0 <= result_1[1, e] and result_1[1, e] < ncols(result_0) and result_0[0, result_1[1, e]] == min(elements[2, e], elements[0, e]) and result_0[1, result_1[1, e]] == max(elements[2, e], elements[0, e]))",
            "forall(0, N, lambda e: 0 <= result_1[2, e] and result_1[2, e] < ncols(result_0) and result_0[0, result_1[2, e]] == min(elements[1, e], elements[2, e]) and result_0[1, result_1[2, e]] == max(elements[1, e], elements[2, e]))",
            # every listed edge is an edge of some element
            "forall(0, ncols(result_0), lambda k: exists(0, N, lambda e: result_1[0, e] == k or result_1[1, e] == k or result_1[2, e] == k))",
        ],
    },
    "_compare_array_to_value": {
        "args": {"array": ("arr1",), "val": ("int",)},
        "result": ("int",),
        "loops": {1: {"invariant": ["forall(0, _k, lambda i: array[i] != val)"]}},
        "ensures": ["result == -1 or (0 <= result and result < len(array))",
                    "implies(result == -1, forall(0, len(array), lambda i: array[i] != val))",
                    "implies(result != -1, array[result] == val and forall(0, result, lambda i: array[i] != val))"],
    },
    "_find_first_common_array_index_pair_from_position": {
        "args": {"array1": ("arr1",), "array2": ("arr1",), "start": ("int",)},
        "defaults": {"start": 0},
        "requires": ["0 <= start", "start <= len(array1)"],
        "result": ("tuple", 2),
        "loops": {1: {"invariant": ["forall(start, start + _k, lambda i: forall(0, len(array2), lambda j: array1[i] != array2[j]))"]}},
        "raises": [("ValueError", "forall(start, len(array1), lambda i: forall(0, len(array2), lambda j: array1[i] != array2[j]))")],
        "ensures": ["start <= result_0 and result_0 < len(array1)", "0 <= result_1 and result_1 < len(array2)",
                    "array1[result_0] == array2[result_1]",
                    "forall(start, result_0, lambda i: forall(0, len(array2), lambda j: array1[i] != array2[j]))",
                    "forall(0, result_1, lambda j: array2[j] != array1[result_0])"],
    },
    "_find_two_common_array_index_pairs": {
        "args": {"array1": ("arr1",), "array2": ("arr1",)},
        "result": ("small", (2, 2)),
        "raises": [("ValueError", "not exists(0, len(array1), lambda a: exists(a + 1, len(array1), lambda b: "
                                  "exists(0, len(array2), lambda c: array1[a] == array2[c]) and exists(0, len(array2), lambda d: array1[b] == array2[d])))")],
        "ensures": ["0 <= result[0, 0] and result[0, 0] < result[0, 1] and result[0, 1] < len(array1)",
                    "0 <= result[1, 0] and result[1, 0] < len(array2) and 0 <= result[1, 1] and result[1, 1] < len(array2)",
                    "array1[result[0, 0]] == array2[result[1, 0]]", "array1[result[0, 1]] == array2[result[1, 1]]"],
    },
    "_get_shared_vertex_information_for_two_elements": {
        "args": {"elements": ("arr2", (3, "N")), "elem0": ("int",), "elem1": ("int",)},
        "requires": ["0 <= elem0 and elem0 < N", "0 <= elem1 and elem1 < N"],
        "result": ("tuple", 2),
        "raises": [("ValueError", "forall(0, 3, lambda i: forall(0, 3, lambda j: elements[i, elem0] != elements[j, elem1]))")],
        "ensures": ["0 <= result_0 and result_0 < 3 and 0 <= result_1 and result_1 < 3",
                    "elements[result_0, elem0] == elements[result_1, elem1]"],
    },
    "_get_shared_edge_information_for_two_elements": {
        "args": {"elements": ("arr2", (3, "N")), "elem0": ("int",), "elem1": ("int",)},
        "requires": ["0 <= elem0 and elem0 < N", "0 <= elem1 and elem1 < N",
                     # grid_valid: the three vertices of an element are pairwise distinct
                     "elements[0, elem0] != elements[1, elem0] and elements[0, elem0] != elements[2, elem0] and elements[1, elem0] != elements[2, elem0]",
                     "elements[0, elem1] != elements[1, elem1] and elements[0, elem1] != elements[2, elem1] and elements[1, elem1] != elements[2, elem1]"],
        "result": ("small", (2, 2)),
        "raises": [("ValueError", "not exists(0, 3, lambda a: exists(a + 1, 3, lambda b: "
                                  "exists(0, 3, lambda c: elements[a, elem0] == elements[c, elem1]) and exists(0, 3, lambda d: elements[b, elem0] == elements[d, elem1])))")],
        "ensures": ["0 <= result[0, 0] and result[0, 0] < 3 and 0 <= result[0, 1] and result[0, 1] < 3",
                    "0 <= result[1, 0] and result[1, 0] < 3 and 0 <= result[1, 1] and result[1, 1] < 3",
                    "elements[result[0, 0], elem0] == elements[result[1, 0], elem1]",
                    "elements[result[0, 1], elem0] == elements[result[1, 1], elem1]",
                    "result[0, 0] != result[0, 1]", "result[1, 0] < result[1, 1]"],
    },
    "_find_vertex_adjacency": {
        "args": {"elements": ("arr2", (3, "N")), "test_indices": ("arr1",), "trial_indices": ("arr1",)},
        "requires": ["len(test_indices) == len(trial_indices)",
                     "forall(0, len(test_indices), lambda c: 0 <= test_indices[c] and test_indices[c] < N and 0 <= trial_indices[c] and trial_indices[c] < N)",
                     # the pairs handed in share a vertex (contract of the scipy-based pair finder, C11 assumed contract)
                     "forall(0, len(test_indices), lambda c: exists(0, 3, lambda i: exists(0, 3, lambda j: elements[i, test_indices[c]] == elements[j, trial_indices[c]])))"],
        "result": ("arr2",),
        "loops": {1: {"invariant": ["forall(0, _k, lambda c: adjacency[0, c] == test_indices[c] and adjacency[1, c] == trial_indices[c] and "
                                    "0 <= adjacency[2, c] and adjacency[2, c] < 3 and 0 <= adjacency[3, c] and adjacency[3, c] < 3 and "
                                    "elements[adjacency[2, c], adjacency[0, c]] == elements[adjacency[3, c], adjacency[1, c]])"]}},
        "ensures": ["forall(0, len(test_indices), lambda c: result[0, c] == test_indices[c] and result[1, c] == trial_indices[c] and "
                    "0 <= result[2, c] and result[2, c] < 3 and 0 <= result[3, c] and result[3, c] < 3 and "
                    "elements[result[2, c], result[0, c]] == elements[result[3, c], result[1, c]])"],
    },
    "_find_edge_adjacency": {
        "args": {"elements": ("arr2", (3, "N")), "elem0_indices": ("arr1",), "elem1_indices": ("arr1",)},
        "requires": ["len(elem0_indices) == len(elem1_indices)",
                     "forall(0, len(elem0_indices), lambda c: 0 <= elem0_indices[c] and elem0_indices[c] < N and 0 <= elem1_indices[c] and elem1_indices[c] < N)",
                     "forall(0, N, lambda e: elements[0, e] != elements[1, e] and elements[0, e] != elements[2, e] and elements[1, e] != elements[2, e])",
                     "forall(0, len(elem0_indices), lambda c: exists(0, 3, lambda a: exists(a + 1, 3, lambda b: "
                     "exists(0, 3, lambda p: elements[a, elem0_indices[c]] == elements[p, elem1_indices[c]]) and "
                     "exists(0, 3, lambda q: elements[b, elem0_indices[c]] == elements[q, elem1_indices[c]]))))"],
        "result": ("arr2",),
        "loops": {1: {"invariant": ["forall(0, _k, lambda c: adjacency[0, c] == elem0_indices[c] and adjacency[1, c] == elem1_indices[c] and "
                                    "0 <= adjacency[2, c] and adjacency[2, c] < 3 and 0 <= adjacency[3, c] and adjacency[3, c] < 3 and "
                                    "0 <= adjacency[4, c] and adjacency[4, c] < 3 and 0 <= adjacency[5, c] and adjacency[5, c] < 3 and "
                                    "elements[adjacency[2, c], adjacency[0, c]] == elements[adjacency[4, c], adjacency[1, c]] and "
                                    "elements[adjacency[3, c], adjacency[0, c]] == elements[adjacency[5, c], adjacency[1, c]] and "
                                    "adjacency[2, c] != adjacency[3, c] and adjacency[4, c] < adjacency[5, c])"]}},
        "ensures": ["forall(0, len(elem0_indices), lambda c: result[0, c] == elem0_indices[c] and result[1, c] == elem1_indices[c] and "
                    "elements[result[2, c], result[0, c]] == elements[result[4, c], result[1, c]] and "
                    "elements[result[3, c], result[0, c]] == elements[result[5, c], result[1, c]] and "
                    "result[2, c] != result[3, c] and result[4, c] < result[5, c] and "
                    "0 <= result[2, c] and result[2, c] < 3 and 0 <= result[3, c] and result[3, c] < 3 and "
                    "0 <= result[4, c] and result[4, c] < 3 and 0 <= result[5, c] and result[5, c] < 3)"],
    },
}
