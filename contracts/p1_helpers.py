"""Sidecar contract of the nested helper `find_index` of bempp_cl/api/space/scalar_spaces.py::_compute_p1_dof_map (first position of a value in an array, -1 if
absent).  The same contract is assumed at its call site in the block contract `_p1_selection_block` (contracts/dofmap_blocks.py: FIND_INDEX)."""

from contracts.dofmap_blocks import FIND_INDEX

CONTRACTS = {
    "find_index": dict(FIND_INDEX, loops={1: {"invariant": ["forall(0, _k, lambda i: array[i] != value)"]}}),
}
