"""Launch preconditions (`requires`) and declared write-through callees of the parallel (`prange`) loops of bempp-cl (C16).

Every function compiled with parallel=True that contains a prange loop is listed; a function found in the source that is not listed here is reported
as a checker error (the contract file has to be extended, never silently skipped).

`requires` are facts about the *arguments of one launch*; they are discharged at the call sites (checks/c16.py: launch contracts)."""

COLOURED = ("forall_any(lambda a, b, f, g: implies(a != b and 0 <= a and 0 <= b and a < n_test_elements and b < n_test_elements and 0 <= f and f < nshape_test "
            "and 0 <= g and g < nshape_test, test_global_dofs[test_elements[a], f] != test_global_dofs[test_elements[b], g]))")

CSR = ["forall_any(lambda a, b: implies(0 <= a and a < b, neighbor_indexptr[a + 1] <= neighbor_indexptr[b]))",
       "forall_any(lambda a: implies(0 <= a, neighbor_indexptr[a] >= 0))", "npoints >= 0"]

NUMBA_KERNELS = "bempp_cl.core.numba_kernels"
FMM_HELPERS = "bempp_cl.api.fmm.helpers"

REGULAR = ["default_scalar_regular_kernel", "laplace_hypersingular_regular", "helmholtz_hypersingular_regular", "modified_helmholtz_hypersingular_regular",
           "maxwell_efield_regular_assembler", "maxwell_mfield_regular_assembler"]

CONTRACTS = {
    (NUMBA_KERNELS, "get_piola_transform"): {},
    (NUMBA_KERNELS, "get_edge_lengths"): {},
    (NUMBA_KERNELS, "default_sparse_kernel"): {"inline_table": ("kernel_evaluator", "kernel_functions_sparse")},
    (NUMBA_KERNELS, "default_scalar_singular_kernel"): {},
    (NUMBA_KERNELS, "laplace_hypersingular_singular"): {},
    (NUMBA_KERNELS, "helmholtz_hypersingular_singular"): {},
    (NUMBA_KERNELS, "modified_helmholtz_hypersingular_singular"): {},
    (NUMBA_KERNELS, "default_scalar_potential_kernel"): {},
    (NUMBA_KERNELS, "maxwell_efield_singular"): {},
    (NUMBA_KERNELS, "maxwell_mfield_singular"): {},
    (NUMBA_KERNELS, "maxwell_efield_potential"): {},
    (NUMBA_KERNELS, "maxwell_mfield_potential"): {},
    (NUMBA_KERNELS, "maxwell_efield_far_field"): {},
    (NUMBA_KERNELS, "maxwell_mfield_far_field"): {},
    (FMM_HELPERS, "numba_evaluate_local_interactions"): {},
    (FMM_HELPERS, "get_local_interaction_matrix_impl"): {"requires": CSR},
    (FMM_HELPERS, "dense_interaction_evaluator_impl"): {},
}
for _name in REGULAR:
    CONTRACTS[(NUMBA_KERNELS, _name)] = {"requires": [COLOURED]}
