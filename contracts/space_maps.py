"""Sidecar contracts for the map-inversion helper of bempp_cl/api/space/space.py (C09: local2global and global2local are mutually inverse on
non-zero multipliers; hypothesis "inverse" of lemma B in C16)."""

CONTRACTS = {
    "invert_local2global": {
        "args": {"local2global_map": ("arr2", ("N", "NS")), "local_multipliers": ("arr2", ("N", "NS"))},
        # a dof map is non-empty and has non-negative entries (uint32)
        "requires": ["N > 0 and NS > 0", "forall(0, N, lambda e: forall(0, NS, lambda i: local2global_map[e, i] >= 0))"],
        "result": ("rel",),
        "loops": {
            1: {"invariant": [
                "len(global2local_map) == global_dof_count",
                "forall_any(lambda d, e, i: ((e, i) in global2local_map[d]) == (0 <= d and d < global_dof_count and 0 <= e and e < _k and 0 <= i and i < NS "
                "and local2global_map[e, i] == d and local_multipliers[e, i] != 0))"]},
            2: {"invariant": [
                "len(global2local_map) == global_dof_count",
                "forall_any(lambda d, e, i: ((e, i) in global2local_map[d]) == (0 <= d and d < global_dof_count and ((0 <= e and e < elem_index and 0 <= i and i < NS) "
                "or (e == elem_index and 0 <= i and i < _k)) and local2global_map[e, i] == d and local_multipliers[e, i] != 0))"]},
            3: {"invariant": [
                "len(global2local_map) == global_dof_count",
                "forall_any(lambda d, e, i: ((e, i) in global2local_map[d]) == (0 <= d and d < global_dof_count and 0 <= e and e < N and 0 <= i and i < NS "
                "and local2global_map[e, i] == d and local_multipliers[e, i] != 0))"]},
        },
        "ensures": [
            # the result has one list per global dof number 0 .. max(local2global)
            "forall(0, N, lambda e: forall(0, NS, lambda i: local2global_map[e, i] < len(result)))",
            # (e, i) is listed under d  <=>  local2global[e, i] == d with a non-zero multiplier
            "forall_any(lambda d, e, i: not (0 <= d and d < len(result) and 0 <= e and e < N and 0 <= i and i < NS) or "
            "(((e, i) in result[d]) == (local2global_map[e, i] == d and local_multipliers[e, i] != 0)))",
            # nothing else is listed
            "forall_any(lambda d, e, i: not (0 <= d and d < len(result) and (e, i) in result[d]) or (0 <= e and e < N and 0 <= i and i < NS))",
        ],
    },
}
