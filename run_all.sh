#!/bin/bash
# run_all.sh [quick|thorough]: every registered check in sequence; one summary line per property (exit codes: 0 held, 1 violation, 2 undecided, 3 checker error)
TIER="${1:-quick}"
cd "$(dirname "$0")"
for id in $(python3 -c "import json;print(' '.join(c['property_id'] for c in json.load(open('MANIFEST.json'))['checks']))"); do
  out=$(./check $id $TIER 2>&1); rc=$?
  echo "$id exit=$rc $(echo "$out" | grep -E "^$id $TIER:" | tail -1)"
  echo "$out" | grep -E "^(VIOLATION|UNDECIDED|CHECKER|KNOWN-FINDING)" | cut -c1-220 | head -5
done
