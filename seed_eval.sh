#!/bin/bash
# seed_eval.sh <worktree> <ID> [tier]: run ./check <ID> against a scratch worktree that has a seeded change applied
# (evidence and replays go to a scratch directory so the committed evidence is not disturbed).
WT="$1"; ID="$2"; TIER="${3:-quick}"
OUT="/tmp/seed_eval/$(basename "$WT")-$ID"
mkdir -p "$OUT"
VERIF_REPO="$WT" VERIF_EVIDENCE_DIR="$OUT" VERIF_REPLAY_DIR="$OUT" /verif/check "$ID" "$TIER" > "$OUT/log.txt" 2>&1
echo "exit=$?" >> "$OUT/log.txt"
grep -c "^VIOLATION" "$OUT/log.txt"; grep "^VIOLATION" "$OUT/log.txt" | head -5; tail -2 "$OUT/log.txt"
