#!/usr/bin/env python3
"""seed_store.py <ID> <property> '<needs>' '<caught-by csv>'  -- copy a confirmed seeded change from its scratch worktree into /verif/seeded/<ID>/"""
import json, os, shutil, subprocess, sys
sid, prop, needs, caught = sys.argv[1:5]
wt = "/tmp/seed/%s" % sid
dst = "/verif/seeded/%s" % sid
os.makedirs(dst, exist_ok=True)
patch = subprocess.check_output(["git", "-C", wt, "diff", "--", "bempp_cl"]).decode()
open(os.path.join(dst, "patch.diff"), "w").write(patch)
shutil.copy(os.path.join(wt, "demo.py"), os.path.join(dst, "demo.py"))
for extra in ("demo_stub",):
    if os.path.isdir(os.path.join(wt, extra)):
        shutil.copytree(os.path.join(wt, extra), os.path.join(dst, extra), dirs_exist_ok=True)
if os.path.exists(os.path.join(wt, "meta.txt")):
    shutil.copy(os.path.join(wt, "meta.txt"), os.path.join(dst, "author_notes.txt"))
conf = open("/tmp/seed/%s.confirm.log" % sid).read() if os.path.exists("/tmp/seed/%s.confirm.log" % sid) else ""
evals = {}
for c in caught.split(","):
    p = "/tmp/seed_eval/%s-%s/log.txt" % (sid, c)
    if os.path.exists(p):
        lines = open(p).read().splitlines()
        evals[c] = {"violation_lines": [l for l in lines if l.startswith("VIOLATION")][:6], "summary": [l for l in lines if " quick: " in l or " thorough: " in l][-1:] }
meta = {"seed": sid, "breaks_property": prop, "base_commit": subprocess.check_output(["git", "-C", wt, "rev-parse", "HEAD"]).decode().strip(),
        "needs_to_manifest": needs, "files_changed": sorted({l[6:] for l in patch.splitlines() if l.startswith("+++ b/")}),
        "what_i_ran": {"demo_and_pinned_suite": conf.strip().splitlines(), "checks_against_patched_worktree": evals,
                       "how": "VERIF_REPO=<scratch worktree with patch applied> ./check <ID> quick (see seed_eval.sh); demo.py run with and without the patch (confirm.sh)"},
        "caught_by": [c for c in caught.split(",") if evals.get(c, {}).get("violation_lines")]}
json.dump(meta, open(os.path.join(dst, "meta.json"), "w"), indent=1)
print(sid, "stored; caught by", meta["caught_by"])
