#!/bin/bash
# Build the overlay interpreter used by every check: Python 3.12 (same as /venv, so the
# repository's own dependencies are importable through a .pth) + z3-solver, cvc5, sympy, lark,
# jsonschema from the offline wheelhouse.  Idempotent.
set -e
HERE="$(cd "$(dirname "$0")" && pwd)"
V="$HERE/.venv"
if [ -x "$V/bin/python" ] && "$V/bin/python" -c "import z3, sympy, lark, jsonschema, numba, bempp_cl" 2>/dev/null; then
  exit 0
fi
rm -rf "$V"
/venv/bin/python -m venv "$V"
PIP_NO_INDEX=1 "$V/bin/pip" install -q --no-index --find-links /opt/veriftools/wheels z3-solver cvc5 sympy lark jsonschema >/dev/null
SP="$("$V/bin/python" -c 'import sysconfig; print(sysconfig.get_paths()["purelib"])')"
echo "import site; site.addsitedir('/venv/lib/python3.12/site-packages')" > "$SP/zz_repo.pth"
"$V/bin/python" -c "import z3, sympy, lark, jsonschema, numba, bempp_cl; print('overlay venv ok')"
