"""Spec of the finite element functions represented by a coefficient vector (DESIGN 3, C13): defined from the space's DOF map,
multipliers, the vertices, and the reference shape functions only."""

import numpy as np

from specs import galerkin as GS
from specs import maxwell as MS


def basis(geo, space, E, f, xi):
    """Value (list of `dim` components) of local basis function f of element E at local point xi, without the local multiplier."""
    ident = space.shapeset.identifier
    if ident in ("p0_discontinuous", "p1_discontinuous"):
        return [GS.shape_values(ident, xi[0], xi[1])[f]]
    J = geo.int_elem(E)
    v = [c / J for c in MS.rwg_times_jac(geo, E, f, xi[0], xi[1])]
    if space.identifier.startswith("rwg") or ident == "rwg0":
        return v
    n = [c * int(space.normal_multipliers[E]) for c in geo.normal(E)]
    return [n[1] * v[2] - n[2] * v[1], n[2] * v[0] - n[0] * v[2], n[0] * v[1] - n[1] * v[0]]


def surface_gradient(geo, E, f):
    """grad_Gamma lambda_f on element E from the vertices: lambda_f is affine with value 1 at vertex f, 0 at the others.
    grad = n x (edge opposite, oriented) / |J|  ... written as the unique tangential vector g with g.(v_j - v_f) = -1 for j != f."""
    v = [geo.vertex(int(geo.el[k, E])) for k in range(3)]
    a = [v[1][i] - v[0][i] for i in range(3)]
    b = [v[2][i] - v[0][i] for i in range(3)]
    aa = sum(x * x for x in a)
    bb = sum(x * x for x in b)
    ab = sum(x * y for x, y in zip(a, b))
    det = aa * bb - ab * ab
    # gradients of xi1, xi2 as tangential vectors: G = J (J^T J)^-1
    g1 = [(bb * a[i] - ab * b[i]) / det for i in range(3)]
    g2 = [(aa * b[i] - ab * a[i]) / det for i in range(3)]
    return [[-(g1[i] + g2[i]) for i in range(3)], g1, g2][f]


def value(geo, space, coeffs, E, xi):
    ns = space.number_of_shape_functions
    out = None
    for f in range(ns):
        b = basis(geo, space, E, f, xi)
        c = coeffs[int(space.local2global[E, f])] * int(space.local_multipliers[E, f])
        out = [c * x for x in b] if out is None else [o + c * x for o, x in zip(out, b)]
    return out


def mass_matrix(geo, test, trial, rule):
    pts, wts = rule
    M = np.empty((test.grid_dof_count, trial.grid_dof_count), dtype=object)
    M.fill(0)
    for E in range(geo.el.shape[1]):
        if not (test.support[E] and trial.support[E]):
            continue
        J = geo.int_elem(E)
        for f in range(test.number_of_shape_functions):
            for g in range(trial.number_of_shape_functions):
                acc = 0
                for q in range(len(wts)):
                    xi = (pts[0, q], pts[1, q])
                    acc = acc + wts[q] * sum(a * b for a, b in zip(basis(geo, test, E, f, xi), basis(geo, trial, E, g, xi)))
                r, c = int(test.local2global[E, f]), int(trial.local2global[E, g])
                M[r, c] = M[r, c] + acc * J * int(test.local_multipliers[E, f]) * int(trial.local_multipliers[E, g])
    return M


def laplace_beltrami_matrix(geo, test, trial, rule):
    pts, wts = rule
    M = np.empty((test.grid_dof_count, trial.grid_dof_count), dtype=object)
    M.fill(0)
    wsum = sum(wts[q] for q in range(len(wts)))
    for E in range(geo.el.shape[1]):
        if not (test.support[E] and trial.support[E]):
            continue
        J = geo.int_elem(E)
        for f in range(3):
            gf = surface_gradient(geo, E, f)
            for g in range(3):
                gg = surface_gradient(geo, E, g)
                r, c = int(test.local2global[E, f]), int(trial.local2global[E, g])
                M[r, c] = M[r, c] + wsum * J * sum(a * b for a, b in zip(gf, gg)) * int(test.local_multipliers[E, f]) * int(trial.local_multipliers[E, g])
    return M
