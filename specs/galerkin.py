"""Spec of the Galerkin quadrature discretisation of a scalar integral operator (DESIGN 3, C01/C03/C04/C07).

Everything is defined from global data only: element vertex lists, vertex coordinates, the spaces' DOF maps and multipliers, the
quadrature rules (reference points + weights), the kernel K(x, y, n_x, n_y).  No adjacency table, offset table or remap function of
the library is consulted.

For a pair (E, F) of elements of the same grid, with S = set of shared global vertices:
  |S| = 0 : tensor rule         sum_{p,q} w_p w_q K(x_E(q_p), x_F(q_q)) phi_f(q_p) psi_g(q_q)
  |S| = 3 : coincident rule     sum_q w_q K(x_E(t_q), x_F(r_q)) phi_f(t_q) psi_g(r_q)            (same local frame for E and F=E)
  |S| = 2 : edge rule, written in the frame (A, B, third) of each element, (A, B) one ordering of S, the same for E and F
  |S| = 1 : vertex rule, in a frame (A, P, Q) of each element with A the shared vertex and (P, Q) the other two in either order
times |J_E||J_F|.  A "frame point" (s, t) in frame (V0, V1, V2) is the point with barycentric weights (1-s-t, s, t) on those
vertices; its local coordinates in the element are (weight of local vertex 1, weight of local vertex 2).
The admissible frames are enumerated; `local_integrals` returns one candidate array per admissible choice.
"""

import itertools

import numpy as np

from vlib import sym as S


def shape_values(ident, xi1, xi2):
    if ident == "p0_discontinuous":
        return [1]
    if ident == "p1_discontinuous":
        return [1 - xi1 - xi2, xi1, xi2]
    raise S.Undecided("spec shapeset %s" % ident)


class Geometry:
    """Geometry of a triangle soup from (symbolic or numeric) vertex coordinates: defined independently of grid.py."""

    def __init__(self, V, elements):
        self.V = V
        self.el = np.asarray(elements)

    def vertex(self, gv):
        return [self.V[i, gv] for i in range(3)]

    def point(self, frame, s, t, E=None):
        """Barycentric combination on global vertices `frame` = (V0, V1, V2)."""
        p0, p1, p2 = (self.vertex(g) for g in frame)
        return [p0[i] * (1 - s - t) + p1[i] * s + p2[i] * t for i in range(3)]

    def local_coords(self, E, frame, s, t):
        w = {frame[0]: 1 - s - t, frame[1]: s, frame[2]: t}
        return w[int(self.el[1, E])], w[int(self.el[2, E])]

    def cross(self, E):
        a, b, c = (self.vertex(int(self.el[k, E])) for k in range(3))
        u = [b[i] - a[i] for i in range(3)]
        v = [c[i] - a[i] for i in range(3)]
        return [u[1] * v[2] - u[2] * v[1], u[2] * v[0] - u[0] * v[2], u[0] * v[1] - u[1] * v[0]]

    def int_elem(self, E):
        n = self.cross(E)
        return np.sqrt(n[0] * n[0] + n[1] * n[1] + n[2] * n[2])

    def normal(self, E):
        n = self.cross(E)
        r = self.int_elem(E)
        return [n[i] / r for i in range(3)]

    def std_frame(self, E):
        return tuple(int(self.el[k, E]) for k in range(3))


class FieldGeometry(Geometry):
    """Geometry read from the fields of a grid-data container (vertices, jacobians, normals, integration elements, J^-T) without
    assuming any relation between them: x_E(xi) = v0_E + J_E xi is the definition of local2global."""

    def __init__(self, data):
        self.d = data
        self.V = data.vertices
        self.el = np.asarray(data.elements)

    def point(self, frame, s, t, E=None):
        xi = self.local_coords(E, frame, s, t)
        v0 = self.vertex(int(self.el[0, E]))
        J = self.d.jacobians[E]
        return [v0[i] + J[i, 0] * xi[0] + J[i, 1] * xi[1] for i in range(3)]

    def int_elem(self, E):
        return self.d.integration_elements[E]

    def normal(self, E):
        return [self.d.normals[E, i] for i in range(3)]

    def curls(self, E, nm):
        """n x (J^-T grad_ref lambda_i), grad_ref = (-1,-1), (1,0), (0,1)"""
        Ji = self.d.jac_inv_trans[E]
        n = self.normal(E)
        ref = [(-1, -1), (1, 0), (0, 1)]
        out = []
        for a, b in ref:
            g = [Ji[i, 0] * a + Ji[i, 1] * b for i in range(3)]
            out.append([(n[1] * g[2] - n[2] * g[1]) * nm, (n[2] * g[0] - n[0] * g[2]) * nm, (n[0] * g[1] - n[1] * g[0]) * nm])
        return out


def _pair_frames(geo_t, geo_r, E, F, same_grid):
    """Admissible (kind, [(frame_E, frame_F), ...]) for the pair."""
    if not same_grid:
        return "regular", [(geo_t.std_frame(E), geo_r.std_frame(F))]
    fe, ff = geo_t.std_frame(E), geo_r.std_frame(F)
    shared = [g for g in fe if g in ff]
    if len(shared) == 0:
        return "regular", [(fe, ff)]
    if len(shared) == 3:
        if E != F:
            raise S.Undecided("two different elements with the same vertex set (excluded by grid_valid)")
        return "coincident", [(fe, ff)]
    if len(shared) == 2:
        out = []
        for A, B in itertools.permutations(shared):
            ce = [g for g in fe if g not in shared][0]
            cf = [g for g in ff if g not in shared][0]
            out.append(((A, B, ce), (A, B, cf)))
        return "edge_adjacent", out
    A = shared[0]
    oe = [g for g in fe if g != A]
    of = [g for g in ff if g != A]
    out = []
    for pe in itertools.permutations(oe):
        for pf in itertools.permutations(of):
            out.append(((A,) + pe, (A,) + pf))
    return "vertex_adjacent", out


def scalar_form(test_shape, trial_shape):
    """phi_f(x) psi_g(y)"""

    def form(geo_t, geo_r, E, F, lx, ly, nm_t, nm_r, x=None, y=None, par=None):
        phi = shape_values(test_shape, *lx)
        psi = shape_values(trial_shape, *ly)
        return [[phi[f] * psi[g] for g in range(len(psi))] for f in range(len(phi))]

    return form


def surface_curls(geo, E, nm):
    """n x grad_Gamma(lambda_i) for the three P1 hat functions of element E, from the vertices only:
    curl_0 = (v1 - v2)/|J|, curl_1 = (v2 - v0)/|J|, curl_2 = (v0 - v1)/|J| (times the normal multiplier)."""
    v = [geo.vertex(int(geo.el[k, E])) for k in range(3)]
    J = geo.int_elem(E)
    pairs = [(1, 2), (2, 0), (0, 1)]
    return [[(v[a][i] - v[b][i]) / J * nm for i in range(3)] for a, b in pairs]


def curl_curl_form(geo_t, geo_r, E, F, lx, ly, nm_t, nm_r, x=None, y=None, par=None):
    """curl_Gamma phi_f . curl_Gamma psi_g  (P1 x P1, constant on the element pair)"""
    ct = geo_t.curls(E, nm_t) if hasattr(geo_t, "curls") else surface_curls(geo_t, E, nm_t)
    cr = geo_r.curls(F, nm_r) if hasattr(geo_r, "curls") else surface_curls(geo_r, F, nm_r)
    return [[sum(ct[f][i] * cr[g][i] for i in range(3)) for g in range(3)] for f in range(3)]


def _wavenumber(par):
    return par[0] + S.I() * par[1] if isinstance(par[0], S.Sym) or isinstance(par[1], S.Sym) else complex(par[0], par[1])


def helmholtz_hyp_form(geo_t, geo_r, E, F, lx, ly, nm_t, nm_r, x=None, y=None, par=None):
    """curl phi_f . curl psi_g - k^2 (n_x . n_y) phi_f psi_g,  k = par[0] + i par[1]"""
    cc = curl_curl_form(geo_t, geo_r, E, F, lx, ly, nm_t, nm_r)
    phi = shape_values("p1_discontinuous", *lx)
    psi = shape_values("p1_discontinuous", *ly)
    nn = sum(a * b for a, b in zip(geo_t.normal(E), geo_r.normal(F))) * nm_t * nm_r
    k = _wavenumber(par)
    return [[cc[f][g] - k * k * nn * phi[f] * psi[g] for g in range(3)] for f in range(3)]


def modified_hyp_form(geo_t, geo_r, E, F, lx, ly, nm_t, nm_r, x=None, y=None, par=None):
    """curl phi_f . curl psi_g + w^2 (n_x . n_y) phi_f psi_g,  w = par[0]"""
    cc = curl_curl_form(geo_t, geo_r, E, F, lx, ly, nm_t, nm_r)
    phi = shape_values("p1_discontinuous", *lx)
    psi = shape_values("p1_discontinuous", *ly)
    nn = sum(a * b for a, b in zip(geo_t.normal(E), geo_r.normal(F))) * nm_t * nm_r
    return [[cc[f][g] + par[0] * par[0] * nn * phi[f] * psi[g] for g in range(3)] for f in range(3)]


def _rwg(geo, E, f, xi):
    """edge-length-scaled Piola image l_f J ref_f(xi) / |J| and its divergence 2 l_f / |J|"""
    from specs import maxwell as MS

    v = MS.rwg_times_jac(geo, E, f, xi[0], xi[1])
    J = geo.int_elem(E)
    return [c / J for c in v], 2 * MS.edge_length(geo, E, f) / J


def maxwell_efield_form(geo_t, geo_r, E, F, lx, ly, nm_t, nm_r, x=None, y=None, par=None):
    """-ik phi_f . psi_g - (1/(ik)) div phi_f div psi_g   (phi, psi the edge-length-scaled Piola images of the reference RWG functions)"""
    k = _wavenumber(par)
    ik = (S.I() if isinstance(k, S.Sym) else 1j) * k
    out = []
    for f in range(3):
        pf, df = _rwg(geo_t, E, f, lx)
        row = []
        for g in range(3):
            pg, dg = _rwg(geo_r, F, g, ly)
            row.append(-ik * sum(a * b for a, b in zip(pf, pg)) - df * dg / ik)
        out.append(row)
    return out


def maxwell_mfield_form(geo_t, geo_r, E, F, lx, ly, nm_t, nm_r, x=None, y=None, par=None):
    """(x - y) . (phi_f x psi_g) (ikr - 1)/r^2   ( = grad_x G . (phi x psi) / G )"""
    k = _wavenumber(par)
    ik = (S.I() if isinstance(k, S.Sym) else 1j) * k
    d = [x[i] - y[i] for i in range(3)]
    r = np.sqrt(d[0] * d[0] + d[1] * d[1] + d[2] * d[2])
    out = []
    for f in range(3):
        pf, _ = _rwg(geo_t, E, f, lx)
        row = []
        for g in range(3):
            pg, _ = _rwg(geo_r, F, g, ly)
            cr = [pf[1] * pg[2] - pf[2] * pg[1], pf[2] * pg[0] - pf[0] * pg[2], pf[0] * pg[1] - pf[1] * pg[0]]
            row.append(sum(a * b for a, b in zip(d, cr)) * (ik * r - 1) / (r * r))
        out.append(row)
    return out


def local_integrals(geo_t, geo_r, E, F, same_grid, test_shape, trial_shape, nm_t, nm_r, K, par, regular_rule, duffy, form=None):
    """List of candidate (nshape_test x nshape_trial) arrays of the local integral, one per admissible frame choice."""
    form = form or scalar_form(test_shape, trial_shape)
    kind, frames = _pair_frames(geo_t, geo_r, E, F, same_grid)
    nx = [c * nm_t for c in geo_t.normal(E)]
    ny = [c * nm_r for c in geo_r.normal(F)]
    jac = geo_t.int_elem(E) * geo_r.int_elem(F)
    cands = []
    for fe, ff in frames:
        if kind == "regular":
            pts, wts = regular_rule
            terms = [(pts[0, p], pts[1, p], pts[0, q], pts[1, q], wts[p] * wts[q]) for p in range(len(wts)) for q in range(len(wts))]
        else:
            pt, pr, w = duffy[kind]
            terms = [(pt[0, q], pt[1, q], pr[0, q], pr[1, q], w[q]) for q in range(len(w))]
        out = None
        for s1, t1, s2, t2, w in terms:
            x = geo_t.point(fe, s1, t1, E)
            y = geo_r.point(ff, s2, t2, F)
            lx = geo_t.local_coords(E, fe, s1, t1)
            ly = geo_r.local_coords(F, ff, s2, t2)
            coef = form(geo_t, geo_r, E, F, lx, ly, nm_t, nm_r, x, y, par)
            if out is None:
                out = np.empty((len(coef), len(coef[0])), dtype=object)
                out.fill(0)
            k = K(x, y, nx, ny, par) * w
            for f in range(out.shape[0]):
                for g in range(out.shape[1]):
                    out[f, g] = out[f, g] + k * coef[f][g]
        for f in range(out.shape[0]):
            for g in range(out.shape[1]):
                out[f, g] = out[f, g] * jac
        cands.append(out)
    return kind, cands


def scatter(local, test_space, trial_space, nrows, ncols):
    """A[r, c] = sum over support pairs and local slots with l2g = (r, c) of mult_t * mult_r * local[(E,F)][f,g]."""
    A = np.empty((nrows, ncols), dtype=object)
    A.fill(0)
    for (E, F), loc in local.items():
        for f in range(loc.shape[0]):
            for g in range(loc.shape[1]):
                r = int(test_space.local2global[E, f])
                c = int(trial_space.local2global[F, g])
                A[r, c] = A[r, c] + loc[f, g] * int(test_space.local_multipliers[E, f]) * int(trial_space.local_multipliers[F, g])
    return A
