"""Spec functions for the Green's-function kernels (DESIGN appendix A).

Written once over numpy ufuncs, so the same text evaluates on floats (replay / bounded checks) and on
`vlib.sym.Sym` proxies (proof).  x: test point, y: trial point, nx/ny: unit normals (already multiplied
by the space's normal multiplier), par: kernel parameters.

The signs of the double-layer pair are forced by the Calderon identities (C01) and the representation
formula (C02) with outward normals; they are not read off the code.
"""

import numpy as np

from vlib import sym as S


def _c(x):
    """1/(4 pi) in the arithmetic of x."""
    if isinstance(x, S.Sym):
        return S.Sym.const(S.INV4PI)
    return S.INV4PI


def _i(x):
    return S.I() if isinstance(x, S.Sym) else 1j


def _geom(x, y):
    d = [y[i] - x[i] for i in range(3)]
    rho = d[0] * d[0] + d[1] * d[1] + d[2] * d[2]
    r = np.sqrt(rho)
    return d, r


def _dot(a, b):
    return a[0] * b[0] + a[1] * b[1] + a[2] * b[2]


def laplace_single_layer(x, y, nx, ny, par):
    d, r = _geom(x, y)
    return _c(r) / r


def laplace_double_layer(x, y, nx, ny, par):
    d, r = _geom(x, y)
    return -_c(r) * _dot(d, ny) / r**3


def laplace_adjoint_double_layer(x, y, nx, ny, par):
    d, r = _geom(x, y)
    return _c(r) * _dot(d, nx) / r**3


def _k(par, r):
    return par[0] + _i(r) * par[1]


def helmholtz_single_layer(x, y, nx, ny, par):
    d, r = _geom(x, y)
    k = _k(par, r)
    return _c(r) * np.exp(_i(r) * k * r) / r


def helmholtz_double_layer(x, y, nx, ny, par):
    d, r = _geom(x, y)
    k = _k(par, r)
    return -_c(r) * _dot(d, ny) * (1 - _i(r) * k * r) * np.exp(_i(r) * k * r) / r**3


def helmholtz_adjoint_double_layer(x, y, nx, ny, par):
    d, r = _geom(x, y)
    k = _k(par, r)
    return _c(r) * _dot(d, nx) * (1 - _i(r) * k * r) * np.exp(_i(r) * k * r) / r**3


def modified_helmholtz_single_layer(x, y, nx, ny, par):
    d, r = _geom(x, y)
    return _c(r) * np.exp(-par[0] * r) / r


def modified_helmholtz_double_layer(x, y, nx, ny, par):
    d, r = _geom(x, y)
    return -_c(r) * _dot(d, ny) * (1 + par[0] * r) * np.exp(-par[0] * r) / r**3


def modified_helmholtz_adjoint_double_layer(x, y, nx, ny, par):
    d, r = _geom(x, y)
    return _c(r) * _dot(d, nx) * (1 + par[0] * r) * np.exp(-par[0] * r) / r**3


def helmholtz_far_field_single_layer(x, y, nx, ny, par):
    # x is the unit direction; closed form of lim r exp(-ikr) G(r x, y), complex k
    k = _k(par, x[0])
    return _c(x[0]) * np.exp(-_i(x[0]) * k * _dot(x, y))


def helmholtz_far_field_double_layer(x, y, nx, ny, par):
    k = _k(par, x[0])
    return -_i(x[0]) * k * _dot(x, ny) * _c(x[0]) * np.exp(-_i(x[0]) * k * _dot(x, y))


SPEC = {
    "laplace_single_layer": laplace_single_layer,
    "laplace_double_layer": laplace_double_layer,
    "laplace_adjoint_double_layer": laplace_adjoint_double_layer,
    "helmholtz_single_layer": helmholtz_single_layer,
    "helmholtz_double_layer": helmholtz_double_layer,
    "helmholtz_adjoint_double_layer": helmholtz_adjoint_double_layer,
    "modified_helmholtz_single_layer": modified_helmholtz_single_layer,
    "modified_helmholtz_double_layer": modified_helmholtz_double_layer,
    "modified_helmholtz_adjoint_double_layer": modified_helmholtz_adjoint_double_layer,
    "helmholtz_far_field_single_layer": helmholtz_far_field_single_layer,
    "helmholtz_far_field_double_layer": helmholtz_far_field_double_layer,
}

NPARAMS = {k: (0 if k.startswith("laplace") else 1 if k.startswith("modified") else 2) for k in SPEC}
