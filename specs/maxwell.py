"""Spec of the RWG/SNC element functions and of the Maxwell potentials as kernel sums (DESIGN appendix A)."""

import numpy as np

from vlib import sym as S

EDGE_LOCAL = [(0, 1), (2, 0), (1, 2)]


def ref_rwg(f, xi1, xi2):
    return [(xi1, xi2 - 1), (xi1 - 1, xi2), (xi1, xi2)][f]


def edge_length(geo, E, f):
    a, b = EDGE_LOCAL[f]
    va, vb = geo.vertex(int(geo.el[a, E])), geo.vertex(int(geo.el[b, E]))
    return np.sqrt(sum(((va[i] - vb[i]) * (va[i] - vb[i]) for i in range(3)), 0))


def jacobian_col(geo, E):
    """Columns of J_E: from the data fields (FieldGeometry) or from the vertices."""
    if hasattr(geo, "d"):
        J = geo.d.jacobians[E]
        return [[J[i, 0] for i in range(3)], [J[i, 1] for i in range(3)]]
    v = [geo.vertex(int(geo.el[k, E])) for k in range(3)]
    return [[v[1][i] - v[0][i] for i in range(3)], [v[2][i] - v[0][i] for i in range(3)]]


def rwg_times_jac(geo, E, f, xi1, xi2):
    """|J_E| * phi_f(xi) / (multiplier) = l_f * J_E ref_f(xi)   (vector of 3)"""
    r = ref_rwg(f, xi1, xi2)
    J1, J2 = jacobian_col(geo, E)
    l = edge_length(geo, E, f)
    return [l * (J1[i] * r[0] + J2[i] * r[1]) for i in range(3)]


def density_sums(geo, support, rule, x, nshape=3):
    """Per source point j = (E, q): y_j, A_j = sum_f w_q x_{E,f} l_f J ref_f(q)  (= w |J| sum x phi),  B_j = sum_f w_q x_{E,f} 2 l_f (= w |J| sum x div phi)."""
    pts, wts = rule
    out = []
    for E in support:
        E = int(E)
        for q in range(len(wts)):
            y = geo.point(geo.std_frame(E), pts[0, q], pts[1, q], E)
            A = [0, 0, 0]
            B = 0
            for f in range(nshape):
                c = wts[q] * x[nshape * E + f]
                v = rwg_times_jac(geo, E, f, pts[0, q], pts[1, q])
                A = [A[i] + c * v[i] for i in range(3)]
                B = B + c * 2 * edge_length(geo, E, f)
            out.append((y, A, B))
    return out


def _I(x):
    return S.I() if isinstance(x, S.Sym) else 1j


def efield_summand(G, p, y, A, B, k):
    """G (ik A - d (ikr - 1) B / (ik r^2)),  d = p - y   ( = ik G A - (1/ik) grad_x G B )"""
    d = [p[i] - y[i] for i in range(3)]
    r = np.sqrt(d[0] * d[0] + d[1] * d[1] + d[2] * d[2])
    ik = _I(r) * k
    return [G * (ik * A[i] - d[i] * (ik * r - 1) * B / (ik * r * r)) for i in range(3)]


def mfield_summand(G, p, y, A, k):
    """grad_x G x A = d x (G (ikr - 1)/r^2 A)"""
    d = [p[i] - y[i] for i in range(3)]
    r = np.sqrt(d[0] * d[0] + d[1] * d[1] + d[2] * d[2])
    ik = _I(r) * k
    v = [G * (ik * r - 1) * A[i] / (r * r) for i in range(3)]
    return [d[1] * v[2] - d[2] * v[1], d[2] * v[0] - d[0] * v[2], d[0] * v[1] - d[1] * v[0]]


def efield_far_summand(F, p, A, B, k):
    """F (ik A - p B)   with F the far-field kernel value, p the unit direction"""
    ik = _I(F) * k
    return [F * (ik * A[i] - p[i] * B) for i in range(3)]


def mfield_far_summand(F, p, A, k):
    """p x (ik F A)"""
    ik = _I(F) * k
    v = [F * ik * A[i] for i in range(3)]
    return [p[1] * v[2] - p[2] * v[1], p[2] * v[0] - p[0] * v[2], p[0] * v[1] - p[1] * v[0]]
