"""Exact-summation stand-in for the exafmm-t Python bindings (DESIGN 3, C17: assumed contract of the FMM backend).

Contract provided:  evaluate(tree, fmm)[i] = ( sum_j q_j G(x_i, y_j),  sum_j q_j grad_x G(x_i, y_j) )  over all source points y_j != x_i,
with G the Green's function of the mode (Laplace 1/(4 pi r), Helmholtz exp(ikr)/(4 pi r), modified Helmholtz exp(-wr)/(4 pi r)).
Only the entry points used by bempp_cl.api.fmm.exafmm are provided.
"""
