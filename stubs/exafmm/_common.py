import numpy as np

INV4PI = 1.0 / (4 * np.pi)


class Tree:
    def __init__(self, sources, targets, fmm):
        self.sources = np.asarray(sources[0], dtype=float)
        self.charges = np.asarray(sources[1])
        self.targets = np.asarray(targets, dtype=float)
        self.fmm = fmm


class Fmm:
    def __init__(self, p, ncrit, *args, filename=None, **kw):
        self.p, self.ncrit, self.args, self.filename = p, ncrit, args, filename


def init_sources(points, charges):
    return (np.array(points, dtype=float), np.array(charges))


def init_targets(points):
    return np.array(points, dtype=float)


def setup(sources, targets, fmm):
    return Tree(sources, targets, fmm)


def update_charges(tree, charges):
    tree.charges = np.asarray(charges)


def clear_values(tree):
    pass


CALLS = [0]     # number of far-field evaluations handed to the library (used by C18 to see whether the library or bempp's dense fallback ran)


def exact(tree, green):
    CALLS[0] += 1
    """green(r) -> (G, dG/dr) as arrays; returns (ntargets, 4)."""
    x, y, q = tree.targets, tree.sources, tree.charges
    out = np.zeros((len(x), 4), dtype=np.result_type(q.dtype, green(np.array([1.0]))[0].dtype))
    for i in range(len(x)):
        d = x[i] - y
        r = np.sqrt(np.sum(d * d, axis=1))
        mask = r > 0
        g, dg = green(r[mask])
        out[i, 0] = np.sum(q[mask] * g)
        out[i, 1:] = (q[mask] * dg / r[mask]) @ d[mask]
    return out
