import numpy as np
from ._common import *  # noqa


class HelmholtzFmm(Fmm):  # noqa
    def __init__(self, p, ncrit, wavenumber, filename=None):
        super().__init__(p, ncrit, filename=filename)
        self.k = complex(wavenumber)


def evaluate(tree, fmm):
    k = fmm.k
    return exact(tree, lambda r: (INV4PI * np.exp(1j * k * r) / r, INV4PI * np.exp(1j * k * r) * (1j * k * r - 1) / r**2))  # noqa
