from ._common import *  # noqa

LaplaceFmm = Fmm  # noqa


def evaluate(tree, fmm):
    return exact(tree, lambda r: (INV4PI / r, -INV4PI / r**2))  # noqa
