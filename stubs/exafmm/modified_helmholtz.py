import numpy as np
from ._common import *  # noqa


class ModifiedHelmholtzFmm(Fmm):  # noqa
    def __init__(self, p, ncrit, wavenumber, filename=None):
        super().__init__(p, ncrit, filename=filename)
        self.w = float(np.real(wavenumber))


def evaluate(tree, fmm):
    w = fmm.w
    return exact(tree, lambda r: (INV4PI * np.exp(-w * r) / r, -INV4PI * np.exp(-w * r) * (w * r + 1) / r**2))  # noqa
