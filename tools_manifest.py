#!/usr/bin/env python3
"""Maintain MANIFEST.json: tools_manifest.py add <ID> <category> <engine> <technique> <level text> <level note> [design_ref]"""
import json, sys
m = json.load(open('/verif/MANIFEST.json'))
if sys.argv[1] == 'add':
    pid, cat, engine, technique, text, note = sys.argv[2:8]
    ref = sys.argv[8] if len(sys.argv) > 8 else '3/' + pid
    m['checks'] = [c for c in m['checks'] if c['property_id'] != pid]
    m['checks'].append({"property_id": pid, "quick_cmd": "./check %s quick" % pid, "thorough_cmd": "./check %s thorough" % pid,
                        "evidence_file": "evidence/%s.json" % pid, "replay_cmd_template": "./check %s --replay {path}" % pid,
                        "engine": engine, "level_claimed": {"category": cat, "text": text, "design_ref": ref}, "level_note": note,
                        "technique": technique})
    m['checks'].sort(key=lambda c: c['property_id'])
    m['not_applicable'] = [x for x in m.get('not_applicable', []) if x['property_id'] != pid]
    for e in m['engines']:
        if e['name'] in engine and pid not in e['serves_properties']:
            e['serves_properties'].append(pid)
json.dump(m, open('/verif/MANIFEST.json', 'w'), indent=1)
