"""Helpers shared by C09 / C10: relation between a grid and its barycentric refinement, evaluation of global basis functions through the real
`space.evaluate`, dense dof transformations."""

import itertools
from fractions import Fraction as Fr

import numpy as np

REF = {0: (Fr(0), Fr(0)), 1: (Fr(1), Fr(0)), 2: (Fr(0), Fr(1))}


def dense(m):
    if m is None:
        return None
    if hasattr(m, "toarray"):
        return np.asarray(m.toarray())
    return np.asarray(m)


def sub_reference_coordinates(grid):
    """{barycentric element b: [(xi1, xi2) of its three local vertices in the reference coordinates of its parent b // 6]}, derived from the
    numeric barycentric grid (no numbering assumption): coarse vertices by identity of the vertex index, the others by solving for their
    barycentric coordinates, which must be multiples of 1/6."""
    bary = grid.barycentric_refinement
    nv = grid.number_of_vertices
    out = {}
    for b in range(bary.number_of_elements):
        E = b // 6
        cv = [int(x) for x in grid.elements[:, E]]
        P = np.vstack([grid.vertices[:, cv], np.ones(3)])
        coords = []
        for k in range(3):
            vid = int(bary.elements[k, b])
            if vid < nv:
                if vid not in cv:
                    raise AssertionError("barycentric element %d has coarse vertex %d outside its parent %d" % (b, vid, E))
                lam = [Fr(int(vid == c)) for c in cv]
            else:
                sol = np.linalg.lstsq(P, np.append(bary.vertices[:, vid], 1.0), rcond=None)[0]
                lam = [Fr(float(x)).limit_denominator(6) for x in sol]
                if abs(sum(lam) - 1) != 0 or max(abs(float(l) - x) for l, x in zip(lam, sol)) > 1e-9:
                    raise AssertionError("vertex %d of barycentric element %d is not a midpoint / centroid of its parent" % (vid, b))
            coords.append((lam[1], lam[2]))
        out[b] = coords
    return out


def map_local(coords, s1, s2):
    """local point (s1, s2) of a sub-triangle -> reference coordinates of the parent"""
    p0, p1, p2 = coords
    return [p0[i] + (p1[i] - p0[i]) * s1 + (p2[i] - p0[i]) * s2 for i in range(2)]


def local_point(x1, x2):
    a = np.empty((2, 1), dtype=object)
    a[0, 0], a[1, 0] = x1, x2
    return a


def local_values(space, element, pts):
    """values (dim, nshape, npts) of the local basis of `space` on `element`, local multipliers applied (real space.evaluate)"""
    return space.evaluate(element, pts)


def function_value(space, T, coeffs, element, pts):
    """value (dim x npts object array) of the function with global coefficients `coeffs` on `element`: sum_f (T c)[l2g[element, f]] * basis_f;
    T = dense dof transformation (None = identity)."""
    vals = local_values(space, element, pts)
    c = coeffs if T is None else T @ coeffs
    dim, ns, npts = vals.shape
    out = np.empty((dim, npts), dtype=object)
    for k in range(dim):
        for q in range(npts):
            out[k, q] = sum(c[int(space.local2global[element, f])] * vals[k, f, q] for f in range(ns))
    return out


def edge_table(grid):
    """{edge index: [(element, local edge index)]}"""
    out = {}
    for E in range(grid.number_of_elements):
        for k in range(3):
            out.setdefault(int(grid.element_edges[k, E]), []).append((E, k))
    return out


EDGE_LOCAL = [(0, 1), (2, 0), (1, 2)]


def point_on_local_edge(k, t):
    """reference coordinates of the point a + t (b - a) on local edge k = (a, b)"""
    a, b = EDGE_LOCAL[k]
    return [REF[a][i] + (REF[b][i] - REF[a][i]) * t for i in range(2)]


def subsets(n, limit, seed=5):
    allsub = [list(c) for r in range(1, n + 1) for c in itertools.combinations(range(n), r)]
    if len(allsub) <= limit:
        return allsub
    rng = np.random.RandomState(seed)
    pick = sorted(rng.choice(len(allsub), size=limit, replace=False))
    return [allsub[i] for i in pick]
