"""C-subset front end for the OpenCL headers (kernels.h, *_shapeset.h): source text -> Sym terms.

Mechanical extraction on every run from the real header text.  Dropped / abstracted, stated:
  * comments, preprocessor lines (#include/#define/#ifndef guards); `#ifdef NAME ... #endif` blocks are kept
    when NAME is passed in `defines`, skipped otherwise
  * qualifiers `inline const __global __local __private __constant restrict` carry no meaning here
  * the constants M_INV_4PI / M_ONE / M_ZERO / M_TWO are kept as names and bound by the caller (their literal
    values in bempp_base_types.h are checked separately against the exact value, per PRECISION)
  * OpenCL vector types REALTYPE4/8/16 (and REALTYPEVEC): one generic lane is evaluated -- sound because the
    accepted subset contains only element-wise operators and broadcasts of scalars (no swizzles, no
    VEC_ELEMENT, no lane-mixing builtins); anything else raises Unsupported -> undecided
Builtins modelled as real functions: sqrt rsqrt cos sin exp dot length distance.
"""

import re

import numpy as np

from vlib import sym as S


class Unsupported(S.Undecided):
    pass


TOKEN = re.compile(r"""
    (?P<num>(?:\d+\.\d*|\.\d+|\d+)(?:[eE][+-]?\d+)?[fF]?)
  | (?P<id>[A-Za-z_][A-Za-z_0-9]*)
  | (?P<op>->|\+=|-=|\*=|/=|==|!=|<=|>=|&&|\|\||[-+*/=<>!&(){}\[\],;.])
  | (?P<ws>\s+)
""", re.X)

QUALIFIERS = {"inline", "const", "__global", "__local", "__private", "__constant", "restrict", "static", "__kernel"}
TYPES = {"void", "float", "double", "int", "uint", "size_t", "REALTYPE", "REALTYPE2", "REALTYPE3", "REALTYPE4", "REALTYPE8",
         "REALTYPE16", "REALTYPEVEC"}


KEPT_CONSTANTS = re.compile(r"^M_[A-Z0-9_]+$")


def _expand_macros(text, macros):
    """Textual expansion of the function-like / object-like macros defined in the header itself, with the C preprocessor's semantics: arguments and body are
    pasted as text, no parentheses are added (a body `a + b` used as `x - M(p)` becomes `x - a + b`)."""
    for _ in range(20):
        changed = False
        for name, (params, body) in macros.items():
            pos = 0
            while True:
                m = re.search(r"\b%s\b" % re.escape(name), text[pos:])
                if not m:
                    break
                start = pos + m.start()
                end = pos + m.end()
                if params is None:
                    text = text[:start] + " " + body + " " + text[end:]
                    pos = start + len(body) + 2
                    changed = True
                    continue
                k = end
                while k < len(text) and text[k].isspace():
                    k += 1
                if k >= len(text) or text[k] != "(":
                    pos = end
                    continue
                depth, args, cur, j = 0, [], "", k
                while j < len(text):
                    ch = text[j]
                    if ch == "(":
                        depth += 1
                        if depth > 1:
                            cur += ch
                    elif ch == ")":
                        depth -= 1
                        if depth == 0:
                            args.append(cur)
                            break
                        cur += ch
                    elif ch == "," and depth == 1:
                        args.append(cur)
                        cur = ""
                    else:
                        cur += ch
                    j += 1
                if depth != 0 or len(args) != len(params):
                    raise Unsupported("macro %s used with an unexpected argument list" % name)
                exp = body
                for prm, arg in zip(params, args):
                    exp = re.sub(r"\b%s\b" % re.escape(prm), arg.strip(), exp)
                text = text[:start] + " " + exp + " " + text[j + 1:]
                pos = start + len(exp) + 2
                changed = True
        if not changed:
            return text
    raise Unsupported("macro expansion does not terminate")


def strip_preprocessor(text, defines=()):
    text = re.sub(r"/\*.*?\*/", " ", text, flags=re.S)
    text = re.sub(r"//[^\n]*", " ", text)
    text = text.replace("\\\n", " ")
    out = []
    macros = {}
    stack = []  # booleans: currently emitting?
    for line in text.splitlines():
        s = line.strip()
        if s.startswith("#"):
            m = re.match(r"#\s*(ifdef|ifndef|if|elif|else|endif|define|include|undef)\b\s*(\w*)", s)
            if not m:
                continue
            d, name = m.group(1), m.group(2)
            if d == "define" and all(stack):
                dm = re.match(r"#\s*define\s+(\w+)(\(([^)]*)\))?\s*(.*)$", s)
                if dm and dm.group(4).strip() and "#" not in dm.group(4) and not KEPT_CONSTANTS.match(dm.group(1)):
                    params = [a.strip() for a in dm.group(3).split(",")] if dm.group(2) else None
                    if params == [""]:
                        params = []
                    macros[dm.group(1)] = (params, dm.group(4).strip())
            if d == "ifdef":
                stack.append(name in defines)
            elif d == "ifndef":
                stack.append(name not in defines)
            elif d == "if":
                stack.append(True)
            elif d == "else":
                stack[-1] = not stack[-1]
            elif d == "endif":
                # some headers end with `#endif` glued to the next file's `#ifndef` when concatenated; tolerate
                if stack:
                    stack.pop()
            continue
        if all(stack):
            out.append(line)
    return _expand_macros("\n".join(out), macros) if macros else "\n".join(out)


def tokenize(text):
    toks = []
    pos = 0
    while pos < len(text):
        m = TOKEN.match(text, pos)
        if not m:
            raise Unsupported("cannot tokenize at %r" % text[pos:pos + 20])
        pos = m.end()
        if m.lastgroup == "ws":
            continue
        toks.append((m.lastgroup, m.group(m.lastgroup)))
    return toks


class Parser:
    def __init__(self, toks):
        self.t = toks
        self.i = 0

    def peek(self, k=0):
        return self.t[self.i + k] if self.i + k < len(self.t) else ("eof", "")

    def next(self):
        tok = self.peek()
        self.i += 1
        return tok

    def accept(self, val):
        if self.peek()[1] == val:
            self.i += 1
            return True
        return False

    def expect(self, val):
        if not self.accept(val):
            raise Unsupported("expected %r, got %r (token %d)" % (val, self.peek()[1], self.i))

    def skip_qualifiers(self):
        while self.peek()[1] in QUALIFIERS:
            self.i += 1

    # ---- top level ------------------------------------------------------------------------------
    def parse_functions(self):
        funcs = {}
        while self.peek()[0] != "eof":
            self.skip_qualifiers()
            kind, rtype = self.next()
            if kind != "id":
                raise Unsupported("top-level construct starting with %r" % rtype)
            if rtype == "typedef":
                raise Unsupported("typedef")
            name = self.next()[1]
            self.expect("(")
            params = []
            while not self.accept(")"):
                self.skip_qualifiers()
                ptype = self.next()[1]
                self.skip_qualifiers()
                ptr = 0
                while self.accept("*"):
                    ptr += 1
                self.skip_qualifiers()
                pname = self.next()[1]
                dims = []
                while self.accept("["):
                    dims.append(int(self.next()[1]))
                    self.expect("]")
                params.append({"type": ptype, "ptr": ptr, "name": pname, "dims": dims})
                self.accept(",")
            body = self.parse_block()
            funcs[name] = {"name": name, "rtype": rtype, "params": params, "body": body}
        return funcs

    def parse_block(self):
        self.expect("{")
        stmts = []
        while not self.accept("}"):
            stmts.append(self.parse_stmt())
        return ("block", stmts)

    def parse_stmt(self):
        kind, val = self.peek()
        if val == "{":
            return self.parse_block()
        if val == "if":
            self.next()
            self.expect("(")
            cond = self.parse_expr()
            self.expect(")")
            then = self.parse_stmt()
            other = None
            if self.accept("else"):
                other = self.parse_stmt()
            return ("if", cond, then, other)
        if val in ("for", "while", "do", "switch", "return", "goto"):
            raise Unsupported("statement %r" % val)
        if val in QUALIFIERS or (kind == "id" and val in TYPES):
            self.skip_qualifiers()
            typ = self.next()[1]
            decls = []
            while True:
                name = self.next()[1]
                dims = []
                while self.accept("["):
                    dims.append(int(self.next()[1]))
                    self.expect("]")
                init = None
                if self.accept("="):
                    init = self.parse_expr()
                decls.append((name, dims, init))
                if not self.accept(","):
                    break
            self.expect(";")
            return ("decl", typ, decls)
        # expression statement: assignment or call
        lhs = self.parse_expr()
        kind, op = self.peek()
        if op in ("=", "+=", "-=", "*=", "/="):
            self.next()
            rhs = self.parse_expr()
            self.expect(";")
            return ("assign", op, lhs, rhs)
        self.expect(";")
        return ("expr", lhs)

    # ---- expressions ------------------------------------------------------------------------------
    def parse_expr(self):
        return self.parse_or()

    def parse_or(self):
        e = self.parse_and()
        while self.accept("||"):
            e = ("bin", "||", e, self.parse_and())
        return e

    def parse_and(self):
        e = self.parse_cmp()
        while self.accept("&&"):
            e = ("bin", "&&", e, self.parse_cmp())
        return e

    def parse_cmp(self):
        e = self.parse_add()
        while self.peek()[1] in ("==", "!=", "<", ">", "<=", ">="):
            op = self.next()[1]
            e = ("bin", op, e, self.parse_add())
        return e

    def parse_add(self):
        e = self.parse_mul()
        while self.peek()[1] in ("+", "-"):
            op = self.next()[1]
            e = ("bin", op, e, self.parse_mul())
        return e

    def parse_mul(self):
        e = self.parse_unary()
        while self.peek()[1] in ("*", "/"):
            op = self.next()[1]
            e = ("bin", op, e, self.parse_unary())
        return e

    def parse_unary(self):
        v = self.peek()[1]
        if v in ("-", "+", "!", "*", "&"):
            self.next()
            return ("un", v, self.parse_unary())
        return self.parse_postfix()

    def parse_postfix(self):
        kind, val = self.next()
        if kind == "num":
            e = ("num", val)
        elif kind == "id":
            e = ("id", val)
        elif val == "(":
            e = self.parse_expr()
            self.expect(")")
            if e[0] == "id" and (e[1] in TYPES or re.fullmatch(r"(float|double)\d*", e[1])):
                raise Unsupported("cast")
        else:
            raise Unsupported("unexpected token %r" % val)
        while True:
            v = self.peek()[1]
            if v == "[":
                self.next()
                idx = self.parse_expr()
                self.expect("]")
                e = ("index", e, idx)
            elif v == ".":
                self.next()
                e = ("member", e, self.next()[1])
            elif v == "->":
                self.next()
                e = ("member", e, self.next()[1])
            elif v == "(":
                self.next()
                args = []
                while not self.accept(")"):
                    args.append(self.parse_expr())
                    self.accept(",")
                e = ("call", e, args)
            else:
                return e


def parse_header(path, defines=()):
    text = open(path).read()
    return Parser(tokenize(strip_preprocessor(text, defines))).parse_functions()


# ---------------------------------------------------------------------------------------------
# evaluation
# ---------------------------------------------------------------------------------------------


class Vec:
    """OpenCL small vector (REALTYPE2/REALTYPE3) with named components."""

    NAMES = "xyzw"

    def __init__(self, comps):
        self.c = list(comps)

    def get(self, name):
        if len(name) != 1 or name not in self.NAMES[: len(self.c)]:
            raise Unsupported("swizzle .%s" % name)
        return self.c[self.NAMES.index(name)]

    def _bin(self, o, f):
        if isinstance(o, Vec):
            if len(o.c) != len(self.c):
                raise Unsupported("vector width mismatch")
            return Vec([f(a, b) for a, b in zip(self.c, o.c)])
        return Vec([f(a, o) for a in self.c])


class Cell:
    """Writable storage: scalars, arrays (dict index tuple -> value)."""

    def __init__(self):
        self.v = {}


def _num(tok, consts):
    s = tok.rstrip("fF")
    if re.fullmatch(r"\d+", s):
        return S.Sym.const(int(s))
    return S.Sym.const(float(s))


class Evaluator:
    def __init__(self, funcs, consts):
        self.funcs = funcs
        self.consts = consts

    def call(self, name, args):
        f = self.funcs[name]
        env = {}
        if len(args) != len(f["params"]):
            raise Unsupported("arity mismatch calling %s" % name)
        for p, a in zip(f["params"], args):
            env[p["name"]] = a
        self.exec_block(f["body"], env)

    def exec_block(self, blk, env):
        for st in blk[1]:
            self.exec(st, env)

    def exec(self, st, env):
        k = st[0]
        if k == "block":
            self.exec_block(st, env)
        elif k == "decl":
            typ, decls = st[1], st[2]
            for name, dims, init in decls:
                if dims:
                    if init is not None:
                        raise Unsupported("array initialiser")
                    env[name] = Cell()
                else:
                    env[name] = self.ev(init, env) if init is not None else None
        elif k == "assign":
            op, lhs, rhs = st[1], st[2], st[3]
            val = self.ev(rhs, env)
            if op != "=":
                cur = self.ev(lhs, env)
                val = self.binop(op[0], cur, val)
            self.store(lhs, val, env)
        elif k == "expr":
            e = st[1]
            if e[0] != "call":
                raise Unsupported("expression statement without effect")
            self.ev(e, env)
        elif k == "if":
            c = self.ev(st[1], env)
            if not isinstance(c, bool):
                raise Unsupported("non-boolean condition")
            if c:
                self.exec(st[2], env)
            elif st[3] is not None:
                self.exec(st[3], env)
        else:
            raise Unsupported(k)

    def store(self, lhs, val, env):
        if lhs[0] == "id":
            if lhs[1] not in env:
                raise Unsupported("assignment to undeclared %s" % lhs[1])
            if isinstance(env[lhs[1]], Cell):
                raise Unsupported("assignment to a whole array")
            env[lhs[1]] = val
            return
        if lhs[0] == "un" and lhs[1] == "*":
            base = self.ev_cell(lhs[2], env)
            base.v[(0,)] = val
            return
        if lhs[0] == "index":
            idx = []
            e = lhs
            while e[0] == "index":
                i = self.ev(e[2], env)
                idx.append(int(i))
                e = e[1]
            cell = self.ev_cell(e, env)
            cell.v[tuple(reversed(idx))] = val
            return
        raise Unsupported("store to %s" % (lhs[0],))

    def ev_cell(self, e, env):
        if e[0] != "id":
            raise Unsupported("complex lvalue")
        c = env.get(e[1])
        if not isinstance(c, Cell):
            raise Unsupported("%s is not an array / pointer" % e[1])
        return c

    def binop(self, op, a, b):
        if isinstance(a, Vec) or isinstance(b, Vec):
            if op not in "+-*/":
                raise Unsupported("vector comparison")
            f = {"+": lambda x, y: x + y, "-": lambda x, y: x - y, "*": lambda x, y: x * y, "/": lambda x, y: x / y}[op]
            if isinstance(a, Vec):
                return a._bin(b, f)
            return Vec([f(a, c) for c in b.c])
        if op == "+":
            return a + b
        if op == "-":
            return a - b
        if op == "*":
            return a * b
        if op == "/":
            return a / b
        if op == "==":
            return bool(a == b)
        if op == "!=":
            return bool(a != b)
        if op in ("<", ">", "<=", ">="):
            return bool({"<": a < b, ">": a > b, "<=": a <= b, ">=": a >= b}[op])
        if op == "&&":
            return bool(a) and bool(b)
        if op == "||":
            return bool(a) or bool(b)
        raise Unsupported("operator %s" % op)

    def ev(self, e, env):
        k = e[0]
        if k == "num":
            return _num(e[1], self.consts)
        if k == "id":
            if e[1] in env:
                v = env[e[1]]
                if v is None:
                    raise Unsupported("read of uninitialised variable %s" % e[1])
                return v
            if e[1] in self.consts:
                return self.consts[e[1]]
            raise Unsupported("unknown identifier %s" % e[1])
        if k == "un":
            if e[1] == "*":
                c = self.ev_cell(e[2], env)
                if (0,) not in c.v:
                    raise Unsupported("read of uninitialised *%s" % e[2][1])
                return c.v[(0,)]
            v = self.ev(e[2], env)
            if e[1] == "-":
                return v._bin(0, lambda x, y: -x) if isinstance(v, Vec) else -v
            if e[1] == "+":
                return v
            if e[1] == "!":
                return not bool(v)
            raise Unsupported("unary %s" % e[1])
        if k == "bin":
            return self.binop(e[1], self.ev(e[2], env), self.ev(e[3], env))
        if k == "index":
            idx = []
            b = e
            while b[0] == "index":
                idx.append(int(self.ev(b[2], env)))
                b = b[1]
            idx = tuple(reversed(idx))
            base = self.ev(b, env) if not (b[0] == "id" and isinstance(env.get(b[1]), Cell)) else env[b[1]]
            if isinstance(base, Cell):
                if idx not in base.v:
                    raise Unsupported("read of uninitialised array element %s%s" % (b[1] if b[0] == "id" else "?", list(idx)))
                return base.v[idx]
            raise Unsupported("indexing a non-array")
        if k == "member":
            base = e[1]
            if base[0] == "id" and isinstance(env.get(base[1]), Cell):
                v = env[base[1]].v.get((0,))  # pointer-to-struct: p->x
            else:
                v = self.ev(base, env)
            if not isinstance(v, Vec):
                raise Unsupported("member access on a non-vector")
            return v.get(e[2])
        if k == "call":
            if e[1][0] != "id":
                raise Unsupported("indirect call")
            name = e[1][1]
            if name in self.funcs:
                args = []
                for a in e[2]:
                    if a[0] == "id" and isinstance(env.get(a[1]), Cell):
                        args.append(env[a[1]])
                    else:
                        args.append(self.ev(a, env))
                self.call(name, args)
                return None
            args = [self.ev(a, env) for a in e[2]]
            return self.builtin(name, args)
        raise Unsupported(k)

    def builtin(self, name, args):
        if name in ("sqrt", "native_sqrt"):
            return np.sqrt(args[0])
        if name in ("rsqrt", "native_rsqrt"):
            return 1 / np.sqrt(args[0])
        if name in ("cos", "native_cos"):
            return np.cos(args[0])
        if name in ("sin", "native_sin"):
            return np.sin(args[0])
        if name in ("exp", "native_exp"):
            return np.exp(args[0])
        if name == "dot":
            a, b = args
            return sum((x * y for x, y in zip(a.c, b.c)), S.Sym())
        if name == "length":
            (a,) = args
            return np.sqrt(sum((x * x for x in a.c), S.Sym()))
        if name == "distance":
            a, b = args
            return np.sqrt(sum(((x - y) * (x - y) for x, y in zip(a.c, b.c)), S.Sym()))
        raise Unsupported("builtin %s" % name)


def array_cell(values):
    """Cell holding a 1-d array of values."""
    c = Cell()
    for i, v in enumerate(values):
        c.v[(i,)] = v
    return c
