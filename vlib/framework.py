"""Obligation bookkeeping, verdicts, replay files, known findings, evidence (DESIGN 2.7, 2.8).

Verdict of one obligation
  proved     discharged by a deductive back end (counts towards `discharged`)
  held       a bounded run-time contract evaluation that held (never counted as proved)
  violated   refuted; carries a witness (concrete input) and, where possible, a native replay
  undecided  outside the fragment / solver unknown  -> exit 2, never a VIOLATION line
  error      checker failure (crash, vacuity guard, canary) -> exit 3
"""

from __future__ import annotations

import hashlib
import inspect
import json
import multiprocessing as mp
import os
import re
import sys
import time
import traceback

VERIF = os.path.dirname(os.path.dirname(os.path.abspath(__file__)))
REPO = os.environ.get("VERIF_REPO", "/repo")

STANDING_ASSUMPTIONS = [
    "machine arithmetic treated as mathematical: Python/NumPy integers are unbounded integers, floats are real numbers; fastmath reassociation ignored",
    "Numba compiles the verified Python source faithfully (the checks execute/read the same function objects with NUMBA_DISABLE_JIT=1); prange runs iterations as written",
    "CPython + numpy object-array semantics equal numeric-array semantics for the operations used",
    "float literals denote the nearby simple rational (or rational multiple of 1/(4 pi), pi)",
    "z3 / cvc5 / the polynomial normal-form decision procedure in vlib/sym.py are correct",
]


def src_hash(obj_or_path):
    try:
        if isinstance(obj_or_path, str):
            data = open(obj_or_path, "rb").read()
        else:
            data = inspect.getsource(obj_or_path).encode()
        return hashlib.sha256(data).hexdigest()[:16]
    except Exception:
        return "unavailable"


def _jsonable(x):
    try:
        json.dumps(x)
        return x
    except Exception:
        if isinstance(x, dict):
            return {str(k): _jsonable(v) for k, v in x.items()}
        if isinstance(x, (list, tuple, set)):
            return [_jsonable(v) for v in x]
        try:
            import numpy as np

            if isinstance(x, np.ndarray):
                return _jsonable(x.tolist())
            if isinstance(x, np.generic):
                return _jsonable(x.item())
        except Exception:
            pass
        if isinstance(x, complex):
            return {"re": x.real, "im": x.imag}
        return repr(x)


class Result(dict):
    """dict with keys: name, kind, status, backend, time_s, detail, witness, replay"""


def proved(backend, detail=""):
    return {"status": "proved", "backend": backend, "detail": detail}


def held(detail=""):
    return {"status": "held", "backend": "native-eval", "detail": detail}


def violated(detail, witness=None, replay=None, signature=None, backend=""):
    return {"status": "violated", "backend": backend, "detail": detail, "witness": _jsonable(witness),
            "replay": _jsonable(replay), "signature": signature}


def undecided(detail, backend=""):
    return {"status": "undecided", "backend": backend, "detail": detail}


def _call(job):
    name, kind, func, args = job
    t0 = time.time()
    trace = os.environ.get("VERIF_TRACE")
    if trace:
        with open(trace, "a") as fh:
            fh.write("start %d %s\n" % (os.getpid(), name))
    # wall-clock budget per obligation (a changed tree can make a symbolic run explode): exceeding it is `undecided`, never a hang of the check
    budget = int(os.environ.get("VERIF_OBLIGATION_TIMEOUT", "0") or 0) or (3600 if os.environ.get("VERIF_TIER") == "thorough" else 1200)
    import signal

    class _Timeout(BaseException):
        pass

    def _on_alarm(signum, frame):
        raise _Timeout()

    armed = False
    try:
        signal.signal(signal.SIGALRM, _on_alarm)
        signal.alarm(budget)
        armed = True
    except (ValueError, AttributeError):      # not in the main thread of the process
        pass
    try:
        try:
            r = func(*args)
        finally:
            if armed:
                signal.alarm(0)
        if r is None:
            r = {"status": "error", "detail": "obligation returned nothing"}
    except _Timeout:
        r = undecided("obligation not decided within its wall-clock budget of %d s" % budget)
    except Exception as e:  # noqa
        from vlib.sym import Undecided

        if isinstance(e, Undecided):
            r = undecided("%s" % e)
        else:
            r = {"status": "error", "backend": "", "detail": "".join(traceback.format_exception(type(e), e, e.__traceback__))[-3000:]}
    # an obligation function may return a list of sub-results [(subname, result), ...]
    if isinstance(r, list):
        out = []
        dt = time.time() - t0
        for sub, rr in r:
            rr = dict(rr)
            rr.update(name="%s::%s" % (name, sub) if sub else name, kind=rr.get("kind", kind), time_s=round(dt / max(1, len(r)), 4))
            out.append(rr)
        return out
    r = dict(r)
    r.update(name=name, kind=r.get("kind", kind), time_s=round(time.time() - t0, 4))
    return [r]


class Run:
    def __init__(self, prop_id, level, checker_cmd=None):
        self.prop_id = prop_id
        self.level = level
        self.tier = os.environ.get("VERIF_TIER") or (sys.argv[2] if len(sys.argv) > 2 and sys.argv[2] in ("quick", "thorough") else "quick")
        self.seed = int(os.environ.get("VERIF_SEED", "0") or 0)
        self.t0 = time.time()
        self.jobs = []
        self.results = []
        self.functions = {}
        self.assumptions = list(STANDING_ASSUMPTIONS)
        self.assumed_contracts = []
        self.notes = []
        self.bounds = []
        self.checker_cmd = checker_cmd or "./check %s %s" % (prop_id, self.tier)
        self.explanation = ""

    # ------------------------------------------------------------------------------------
    def under_contract(self, obj, qualname=None, dropped=None):
        """Record a real function that a contract is attached to (source hash taken now)."""
        q = qualname or (getattr(obj, "__module__", "?") + "." + getattr(obj, "__qualname__", repr(obj)))
        target = getattr(obj, "py_func", obj)
        self.functions[q] = {"sha256_16": src_hash(target)}
        if dropped:
            self.functions[q]["dropped"] = dropped
        return obj

    def assume(self, text):
        if text not in self.assumptions:
            self.assumptions.append(text)

    def assumed_contract(self, name, text):
        self.assumed_contracts.append({"function": name, "contract": text})

    def bound(self, text):
        if text not in self.bounds:
            self.bounds.append(text)

    def add(self, name, kind, func, *args):
        """kind: deductive kinds (post, pre-sat, inv-init, inv-step, bounds, disjoint, frame, lemma, cover, table)
        or 'bounded' for run-time contract evaluations."""
        self.jobs.append((name, kind, func, args))

    def execute(self, processes=None):
        jobs, self.jobs = self.jobs, []
        if not jobs:
            return
        procs = processes or min(16, max(1, len(jobs)))
        if procs == 1 or os.environ.get("VERIF_SERIAL"):
            for j in jobs:
                self.results.extend(_call(j))
            return
        # ProcessPoolExecutor instead of multiprocessing.Pool: when a worker dies (e.g. killed by the kernel's OOM killer) Pool.imap waits for ever for the lost
        # task, whereas the executor raises BrokenProcessPool - reported as a checker error for the obligations that did not finish, never a hang
        from concurrent.futures import ProcessPoolExecutor
        from concurrent.futures.process import BrokenProcessPool

        ctx = mp.get_context("fork")
        done = 0
        try:
            with ProcessPoolExecutor(max_workers=procs, mp_context=ctx) as ex:
                for rs in ex.map(_call, jobs, chunksize=1):
                    self.results.extend(rs)
                    done += 1
        except BrokenProcessPool:
            for name, kind, _, _ in jobs[done:]:
                self.results.append({"name": name, "kind": kind, "status": "error", "backend": "", "time_s": 0.0,
                                     "detail": "a worker process of the check died (killed, e.g. out of memory) before this obligation was decided"})

    # ------------------------------------------------------------------------------------
    def _known(self):
        path = os.path.join(VERIF, "known_findings.json")
        try:
            return json.load(open(path))
        except FileNotFoundError:
            return {"findings": [], "fixed": []}

    def finish(self):
        self.execute()
        known = [k for k in self._known().get("findings", []) if k.get("property") == self.prop_id]
        ded = [r for r in self.results if r["kind"] != "bounded"]
        bnd = [r for r in self.results if r["kind"] == "bounded"]
        n_viol = 0
        lines = []
        known_hits = []
        exit_code = 0
        rpdir = os.environ.get("VERIF_REPLAY_DIR") or os.path.join(VERIF, "replays")
        os.makedirs(rpdir, exist_ok=True)
        for r in self.results:
            if r["status"] == "violated":
                sig = r.get("signature") or r["name"]
                hit = None
                for k in known:
                    if k.get("obligation") and re.fullmatch(k["obligation"], r["name"]) and (not k.get("signature") or k["signature"] == sig):
                        hit = k
                        break
                if hit is not None:
                    known_hits.append((hit, r))
                    r["known_finding"] = hit.get("id", True)
                    continue
                n_viol += 1
                slug = re.sub(r"[^A-Za-z0-9_.-]+", "_", r["name"].replace("!=", "ne").replace("==", "eq"))[:120]
                path = os.path.join(rpdir, "%s-%s.json" % (self.prop_id, slug))
                rec = {"property": self.prop_id, "obligation": r["name"], "kind": r["kind"], "detail": r.get("detail"),
                       "backend": r.get("backend"), "witness": r.get("witness"), "replay": r.get("replay"),
                       "signature": sig}
                with open(path, "w") as f:
                    json.dump(_jsonable(rec), f, indent=1)
                tail = "" if r.get("replay") and r["replay"].get("confirmed") else " no-failing-input-found"
                lines.append("VIOLATION property=%s replay=%s obligation=%s%s" % (self.prop_id, path, r["name"], tail))
        seen = set()
        for hit, r in known_hits:
            key = hit.get("id") or hit.get("what")
            if key in seen:
                continue
            seen.add(key)
            print("KNOWN-FINDING: property=%s %s [%s]" % (self.prop_id, hit.get("what", ""), r["name"]))
        n_und = sum(1 for r in self.results if r["status"] == "undecided")
        n_err = sum(1 for r in self.results if r["status"] == "error")
        if not ded and not bnd:
            n_err += 1
            print("CHECKER-FAILURE: zero obligations generated")
        for r in self.results:
            if r["status"] == "undecided":
                print("UNDECIDED %s: %s" % (r["name"], (r.get("detail") or "")[:300]))
            if r["status"] == "error":
                print("CHECKER-ERROR %s: %s" % (r["name"], (r.get("detail") or "")[-1500:]))
        for l in lines:
            print(l)
        if n_viol:
            exit_code = 1
        elif n_err:
            exit_code = 3
        elif n_und:
            exit_code = 2
        discharged = sum(1 for r in ded if r["status"] == "proved")
        wall = time.time() - self.t0
        by_backend = {}
        for r in ded:
            if r["status"] == "proved":
                by_backend[r.get("backend", "")] = by_backend.get(r.get("backend", ""), 0) + 1
        samples = []
        for r in (ded[:6] + bnd[:4]):
            samples.append({k: r.get(k) for k in ("name", "kind", "status", "backend", "time_s", "detail")})
        cov = {
            "obligations": len(ded),
            "discharged": discharged,
            "discharged_by_backend": by_backend,
            "solver_time_s": round(sum(r.get("time_s", 0) for r in ded), 3),
            "checker_cmd": self.checker_cmd,
            "trusted_base": self.assumptions,
            "functions_under_contract": self.functions,
            "assumed_contracts": self.assumed_contracts,
            "bounded_contract_evaluations": len(bnd),
            "bounded_held": sum(1 for r in bnd if r["status"] == "held"),
            "bounds": self.bounds,
            "undecided": n_und,
            "known_findings_reported": sorted(str(s) for s in seen),
            "explanation": self.explanation or "see DESIGN.md",
            "samples": samples,
            "evaluations": len(self.results),
            "distinct_nontrivial": len({r["name"] for r in self.results}),
            "rule": "one case per named obligation (deductive) or per bounded contract evaluation; names are distinct by construction",
            "obligation_list": [{k: r.get(k) for k in ("name", "kind", "status", "backend", "time_s")} for r in self.results],
            "notes": self.notes,
        }
        ev = {
            "property_id": self.prop_id,
            "tier": self.tier,
            "seed": self.seed,
            "level": self.level,
            "coverage": _jsonable(cov),
            "assumptions": self.assumptions + ["assumed contract: %s -- %s" % (a["function"], a["contract"]) for a in self.assumed_contracts],
            "wall_s": round(wall, 2),
            "violations": n_viol,
        }
        evdir = os.environ.get("VERIF_EVIDENCE_DIR") or os.path.join(VERIF, "evidence")
        os.makedirs(evdir, exist_ok=True)
        with open(os.path.join(evdir, "%s.json" % self.prop_id), "w") as f:
            json.dump(ev, f, indent=1)
        print("%s %s: %d deductive obligations, %d discharged, %d bounded evaluations (%d held), %d undecided, %d violations, %d known findings, %.1fs -> exit %d"
              % (self.prop_id, self.tier, len(ded), discharged, len(bnd), cov["bounded_held"], n_und, n_viol, len(seen), wall, exit_code))
        sys.stdout.flush()
        return exit_code


def replay_file(path):
    rec = json.load(open(path))
    rp = rec.get("replay") or {}
    print("obligation:", rec.get("obligation"))
    print("detail:", rec.get("detail"))
    if not rp.get("callable"):
        print("no native replay recorded (no-failing-input-found); solver output above")
        return 1
    mod, fn = rp["callable"].split(":")
    import importlib

    f = getattr(importlib.import_module(mod), fn)
    out = f(**rp.get("kwargs", {}))
    print("replay result:", json.dumps(_jsonable(out))[:2000])
    return 1 if out.get("violates") else 0
