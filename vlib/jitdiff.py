"""Trusted-base reduction: the deductive results speak about the Python source of the Numba functions (executed with NUMBA_DISABLE_JIT=1).
This module compares, in a child interpreter with the JIT ON, every compiled kernel function of the selection tables with its own `py_func`
(the interpreted source) on random inputs, including complex and purely imaginary wavenumber parameters.  Bounded evidence (floats, 1e-12)."""

import json
import os
import subprocess
import sys

from vlib.framework import VERIF, REPO, held, violated, undecided

SCRIPT = r'''
import json, sys, warnings
warnings.simplefilter("ignore")
import numpy as np
sys.path.insert(0, %(verif)r)
from vlib import kernelrun as KR
from specs import kernels as KS
tables = KR.kernel_tables()
rng = np.random.RandomState(5)
out = {}
for mode in ("regular", "singular"):
    for key, fn in sorted(tables["kernel_functions_" + mode].items()):
        if not hasattr(fn, "py_func"):
            out[mode + ":" + key] = "no py_func (JIT disabled?)"
            continue
        n = 5
        npar = KS.NPARAMS.get(key, 2 if "helmholtz" in key or "maxwell" in key else 0)
        worst = 0.0
        for par in ([[]] if npar == 0 else [[0.9]] if npar == 1 else [[1.3, 0.0], [1.1, 0.4], [0.0, 0.8]]):
            Y = rng.randn(3, n) + 3.0
            ny = rng.randn(3, n); ny /= np.linalg.norm(ny, axis=0)
            nx = rng.randn(3); nx /= np.linalg.norm(nx)
            kp = np.array(par, dtype="float64")
            if mode == "regular":
                args = (rng.randn(3), Y, nx, ny, kp)
            else:
                args = (rng.randn(3, n), Y, nx, ny[:, 0].copy(), kp)
            try:
                a = np.asarray(fn(*args))
                b = np.asarray(fn.py_func(*args))
            except Exception as ex:
                out[mode + ":" + key] = "exception %%s: %%s" %% (type(ex).__name__, str(ex)[:100])
                break
            d = float(np.abs(a - b).max() / max(1e-300, np.abs(b).max()))
            worst = max(worst, d)
        else:
            out[mode + ":" + key] = worst
print("RESULT " + json.dumps(out))
'''


def ob_jit_vs_source():
    env = dict(os.environ, NUMBA_DISABLE_JIT="0", NUMBA_NUM_THREADS="4", PYTHONPATH=VERIF + os.pathsep + REPO)
    try:
        pr = subprocess.run([sys.executable, "-c", SCRIPT % {"verif": VERIF}], env=env, capture_output=True, text=True, timeout=5400)
    except subprocess.TimeoutExpired:
        return undecided("JIT differential timed out")
    line = [x for x in pr.stdout.splitlines() if x.startswith("RESULT ")]
    if pr.returncode != 0 or not line:
        return {"status": "error", "detail": "JIT differential failed: %s" % pr.stderr[-800:]}
    res = json.loads(line[0][7:])
    bad = {k: v for k, v in res.items() if not isinstance(v, float) or v > 1e-12}
    if bad:
        return violated("compiled kernel differs from its interpreted source: %s" % dict(list(bad.items())[:5]), witness=bad, signature="jit-vs-source",
                        replay={"confirmed": True, "note": "compiled function vs fn.py_func on the same random inputs"})
    return held("%d compiled kernel functions agree with their py_func to %.1e on random inputs (real, complex and purely imaginary wavenumbers)" % (len(res), max(res.values())))


ASM_SCRIPT = r'''
import json, sys, warnings
warnings.simplefilter("ignore")
import numpy as np
sys.path.insert(0, %(verif)r)
from vlib import symgrid as SG, zoo as Z
import bempp_cl.api as api
g = Z.grid_with_domains("octa")
p1 = api.function_space(g, "P", 1); dp0 = api.function_space(g, "DP", 0); rwg = api.function_space(g, "RWG", 0); snc = api.function_space(g, "SNC", 0)
seg = api.function_space(g, "P", 1, segments=[2], include_boundary_dofs=True)
par = Z.params(3, 3)
out = {}
for name in sorted(Z.SCALAR_OPS):
    sp = (p1, p1, p1) if name.endswith("hyp") else (dp0, dp0, p1)
    A = Z.dense(Z.boundary_operator(name, *sp, par))
    out[name] = [np.asarray(A).real.tolist(), np.asarray(A).imag.tolist()]
    if not name.endswith("hyp"):
        A = Z.dense(Z.boundary_operator(name, seg, seg, seg, par))
        out[name + "[segment]"] = [np.asarray(A).real.tolist(), np.asarray(A).imag.tolist()]
for name in sorted(Z.MAXWELL_OPS):
    A = Z.dense(Z.boundary_operator(name, rwg, rwg, snc, par))
    out[name] = [np.asarray(A).real.tolist(), np.asarray(A).imag.tolist()]
M = api.operators.boundary.sparse.identity(p1, p1, dp0, parameters=par).weak_form().to_dense()
out["identity"] = [np.asarray(M).real.tolist(), np.asarray(M).imag.tolist()]
from bempp_cl.api.operators.potential import laplace as PL, helmholtz as PH, maxwell as PM
pts = np.array([[0.3, 2.1, -1.7], [0.2, 0.4, 1.9], [1.8, 2.2, 0.3]])
f0 = api.GridFunction(dp0, coefficients=np.arange(1.0, dp0.global_dof_count + 1)); f1 = api.GridFunction(p1, coefficients=np.arange(1.0, p1.global_dof_count + 1))
fr = api.GridFunction(rwg, coefficients=np.arange(1.0, rwg.global_dof_count + 1))
for nm, v in (("pot.laplace_single", PL.single_layer(dp0, pts, parameters=par) * f0), ("pot.laplace_double", PL.double_layer(p1, pts, parameters=par) * f1),
              ("pot.helmholtz_single", PH.single_layer(dp0, pts, 1.2 + 0.3j, parameters=par) * f0), ("pot.helmholtz_double", PH.double_layer(p1, pts, 1.2, parameters=par) * f1),
              ("pot.maxwell_electric", PM.electric_field(rwg, pts, 1.4, parameters=par) * fr), ("pot.maxwell_magnetic", PM.magnetic_field(rwg, pts, 1.4 + 0.2j, parameters=par) * fr)):
    out[nm] = [np.asarray(v).real.tolist(), np.asarray(v).imag.tolist()]
print("RESULT " + json.dumps(out))
'''


def _run_asm(jit):
    env = dict(os.environ, NUMBA_DISABLE_JIT="0" if jit else "1", NUMBA_NUM_THREADS="4", PYTHONPATH=VERIF + os.pathsep + REPO)
    pr = subprocess.run([sys.executable, "-c", ASM_SCRIPT % {"verif": VERIF}], env=env, capture_output=True, text=True, timeout=7200)
    line = [x for x in pr.stdout.splitlines() if x.startswith("RESULT ")]
    if pr.returncode != 0 or not line:
        raise RuntimeError("assembly run (jit=%s) failed: %s" % (jit, pr.stderr[-800:]))
    return json.loads(line[0][7:])


def ob_assemblers_jit_vs_source():
    """bounded: dense matrices of all scalar and Maxwell operators (whole grid and a segment space), a sparse identity and six potentials on the octahedron computed by
    the compiled library (JIT on, 4 threads) agree with the interpreted source (NUMBA_DISABLE_JIT=1) to 1e-12."""
    import numpy as np

    try:
        a, b = _run_asm(True), _run_asm(False)
    except subprocess.TimeoutExpired:
        return undecided("assembly differential timed out")
    except RuntimeError as ex:
        return {"status": "error", "detail": str(ex)}
    bad, worst = {}, 0.0
    for k in b:
        x = np.array(a[k][0]) + 1j * np.array(a[k][1])
        y = np.array(b[k][0]) + 1j * np.array(b[k][1])
        d = float(np.abs(x - y).max() / max(1e-300, np.abs(y).max()))
        worst = max(worst, d)
        if d > 1e-12:
            bad[k] = d
    if bad:
        return violated("compiled assembly differs from the interpreted source: %s" % bad, witness=bad, signature="jit-vs-source/assembly", replay={"confirmed": True})
    return held("%d operators / potentials: compiled == interpreted to %.1e" % (len(b), worst))
