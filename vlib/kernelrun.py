"""Run the real Green's-function kernels of bempp_cl.core.numba_kernels on symbolic proxies."""

import ast
import inspect
import textwrap

import numpy as np

from vlib import sym as S
from vlib.framework import proved, violated, undecided
from specs import kernels as KS


def nk():
    from bempp_cl.core import numba_kernels

    return numba_kernels


def pyfunc(f):
    return getattr(f, "py_func", f)


def kernel_tables():
    """The two selection tables of select_numba_kernels, read from its AST: {table: {key: function}}."""
    mod = nk()
    src = textwrap.dedent(inspect.getsource(mod.select_numba_kernels))
    tree = ast.parse(src)
    out = {}
    for node in ast.walk(tree):
        if isinstance(node, ast.Assign) and isinstance(node.value, ast.Dict) and isinstance(node.targets[0], ast.Name):
            d = {}
            for k, v in zip(node.value.keys, node.value.values):
                if isinstance(k, ast.Constant) and isinstance(v, ast.Name):
                    d[k.value] = getattr(mod, v.id)
            out[node.targets[0].id] = d
    return out


def kernel_function(key, mode):
    t = kernel_tables()["kernel_functions_" + mode]
    return t[key]


def inputs(mode, ncols=2, tag=""):
    """Generic symbolic inputs for a kernel call. regular: one test point; singular: one test point per column."""
    Y = S.symarray("y" + tag, (3, ncols))
    if mode == "regular":
        X = S.symarray("x" + tag, (3,))
        NX = S.symarray("nx" + tag, (3,))
        NY = S.symarray("ny" + tag, (3, ncols))
    else:
        X = S.symarray("x" + tag, (3, ncols))
        NX = S.symarray("nx" + tag, (3,))
        NY = S.symarray("ny" + tag, (3,))
    return X, Y, NX, NY


def column(mode, X, Y, NX, NY, j):
    x = X if mode == "regular" else X[:, j]
    ny = NY[:, j] if mode == "regular" else NY
    return x, Y[:, j], NX, ny


def param_cases(key):
    """Case split covering all real parameter values. Returns list of (case name, parameter list)."""
    n = KS.NPARAMS[key]
    if n == 0:
        return [("noparam", [])]
    if n == 1:
        return [("w", [S.var("w")])]
    return [("ki!=0", [S.var("kr"), S.var("ki", nonzero=True)]), ("ki==0", [S.var("kr"), 0])]


def objarr(lst):
    a = np.empty(len(lst), dtype=object)
    for i, v in enumerate(lst):
        a[i] = v
    return a


def run_real(key, mode, X, Y, NX, NY, par):
    f = pyfunc(kernel_function(key, mode))
    return f(X, Y, NX, NY, objarr(par))


# ---------------------------------------------------------------------------------------------
# map rule (DESIGN 2.3): every access to an npoints-sized array uses the loop index of the enclosing
# `for <v> in range(npoints)` in its last position -> the kernel is a pointwise map over columns, so a
# run with generic columns is complete for every npoints.
# ---------------------------------------------------------------------------------------------


def map_rule(func):
    f = pyfunc(func)
    src = textwrap.dedent(inspect.getsource(f))
    tree = ast.parse(src)
    fd = tree.body[0]
    args = [a.arg for a in fd.args.args]
    regular = args[0] == "test_point" or None
    # npoints-sized arrays: allocated with npoints in the shape, plus column-indexed arguments
    sized = {}
    npoints_names = set()
    for node in ast.walk(fd):
        if isinstance(node, ast.Assign) and isinstance(node.targets[0], ast.Name):
            v = node.value
            if isinstance(v, ast.Attribute) and v.attr == "shape":
                pass
            if isinstance(v, ast.Subscript) and isinstance(v.value, ast.Attribute) and v.value.attr == "shape":
                npoints_names.add(node.targets[0].id)
    for node in ast.walk(fd):
        if isinstance(node, ast.Assign) and isinstance(node.targets[0], ast.Name) and isinstance(node.value, ast.Call):
            c = node.value
            if isinstance(c.func, ast.Attribute) and c.func.attr in ("zeros", "empty") and c.args:
                sh = c.args[0]
                if isinstance(sh, ast.Name) and sh.id in npoints_names:
                    sized[node.targets[0].id] = 1
                elif isinstance(sh, ast.Tuple) and isinstance(sh.elts[-1], ast.Name) and sh.elts[-1].id in npoints_names:
                    sized[node.targets[0].id] = len(sh.elts)
    problems = []

    def visit(node, loopvars):
        if isinstance(node, ast.For):
            lv = None
            it = node.iter
            if (isinstance(it, ast.Call) and isinstance(it.func, ast.Name) and it.func.id == "range" and len(it.args) == 1
                    and isinstance(it.args[0], ast.Name) and it.args[0].id in npoints_names and isinstance(node.target, ast.Name)):
                lv = node.target.id
            for ch in node.body:
                visit(ch, loopvars | ({lv} if lv else set()))
            return
        if isinstance(node, ast.Subscript) and isinstance(node.value, ast.Name):
            nm = node.value.id
            idx = node.slice
            last = idx.elts[-1] if isinstance(idx, ast.Tuple) else idx
            nidx = len(idx.elts) if isinstance(idx, ast.Tuple) else 1
            if nm in sized:
                if not (isinstance(last, ast.Name) and last.id in loopvars and nidx == sized[nm]):
                    problems.append("line %d: %s[...] not indexed by the column loop variable" % (node.lineno, nm))
            elif nm in args and nm not in ("kernel_parameters",):
                # argument arrays: 2-index accesses are column accesses, 1-index accesses are per-call vectors
                if nidx == 2 and not (isinstance(last, ast.Name) and last.id in loopvars):
                    problems.append("line %d: %s[...] column index is not the loop variable" % (node.lineno, nm))
        for ch in ast.iter_child_nodes(node):
            visit(ch, loopvars)

    for st in fd.body:
        visit(st, set())
    # whole-array uses (e.g. `output_real + 1j * output_imag`) are elementwise numpy operations: allowed only in Return
    for node in ast.walk(fd):
        if isinstance(node, ast.Name) and node.id in sized and isinstance(node.ctx, ast.Load):
            pass
    return problems, sorted(sized)


def ob_map_rule(key, mode):
    problems, sized = map_rule(kernel_function(key, mode))
    if problems:
        return undecided("map rule does not apply: " + "; ".join(problems), backend="ast")
    return proved("ast-syntactic", "arrays %s are only accessed at the column loop index" % sized)


# ---------------------------------------------------------------------------------------------
# code == spec
# ---------------------------------------------------------------------------------------------


def numeric_inputs(mode, env, ncols, tag=""):
    def g(name, idx):
        return env.get(name + tag + "".join("_%d" % i for i in idx), 0.37 + 0.11 * sum(idx))

    Y = np.array([[g("y", (i, j)) for j in range(ncols)] for i in range(3)], dtype=float)
    if mode == "regular":
        X = np.array([g("x", (i,)) for i in range(3)], dtype=float)
        NY = np.array([[g("ny", (i, j)) for j in range(ncols)] for i in range(3)], dtype=float)
    else:
        X = np.array([[g("x", (i, j)) for j in range(ncols)] for i in range(3)], dtype=float)
        NY = np.array([g("ny", (i,)) for i in range(3)], dtype=float)
    NX = np.array([g("nx", (i,)) for i in range(3)], dtype=float)
    return X, Y, NX, NY


def replay_kernel_spec(key, mode, env, case="", ncols=2):
    """Native replay: real kernel on floats against the spec function."""
    X, Y, NX, NY = numeric_inputs(mode, env, ncols)
    n = KS.NPARAMS[key]
    par = []
    if n == 1:
        par = [env.get("w", 0.9)]
    elif n == 2:
        par = [env.get("kr", 1.1), 0.0 if case == "ki==0" else env.get("ki", 0.4)]
    f = pyfunc(kernel_function(key, mode))
    out = f(X, Y, NX, NY, np.array(par, dtype=float))
    worst = 0.0
    obs = req = None
    for j in range(ncols):
        x, y, nx, ny = column(mode, X, Y, NX, NY, j)
        s = complex(KS.SPEC[key](x, y, nx, ny, par))
        e = abs(complex(out[j]) - s) / max(1e-300, abs(s))
        if e >= worst:
            worst, obs, req = e, complex(out[j]), s
    return {"violates": bool(worst > 1e-9), "relative_error": worst, "observed": [obs.real, obs.imag], "required": [req.real, req.imag],
            "function": f.__name__, "parameters": par}


def extreme_scale_replay(key, mode, case=""):
    """Native: real kernel on floats against the spec at geometric scales 1e-9 .. 1e6 (points close together / far apart / far from the origin).
    Used when the symbolic execution meets a branch on symbolic values (e.g. a clamp `max(r2, eps)`): an absolute tolerance inside a kernel shows
    up as a mismatch at an extreme scale."""
    worst, where = 0.0, None
    rng = np.random.RandomState(12)
    Y0 = rng.uniform(0.2, 1.0, size=(3, 2))
    X0 = rng.uniform(-1.0, -0.2, size=(3, 2) if mode != "regular" else (3,))
    NX0 = rng.randn(3)
    NX0 /= np.linalg.norm(NX0)
    NY0 = rng.randn(3, 2) if mode == "regular" else rng.randn(3)
    NY0 = NY0 / np.linalg.norm(NY0, axis=0)
    base = (X0, Y0, NX0, NY0)
    n = KS.NPARAMS[key]
    # special configurations at scale 1 (data-dependent shortcuts in a kernel - "same normal, hence same face", "same coordinate" - only show up on them):
    # equal / opposite / axis-aligned equal normals of test and trial side with the points in different planes, one equal coordinate
    ez = np.array([0.0, 0.0, 1.0])
    rep = (lambda v: np.array([v, v]).T) if mode == "regular" else (lambda v: np.array(v))   # noqa: E731
    Yc = Y0.copy()
    Yc[0, :] = X0[0] if mode == "regular" else X0[0, :]
    specials = [("equal normals", (X0, Y0, NX0, rep(NX0))), ("opposite normals", (X0, Y0, NX0, rep(-NX0))), ("axis-aligned equal normals", (X0, Y0, ez, rep(ez))),
                ("one equal coordinate", (X0, Yc, NX0, NY0))]
    configs = [(scale, shift, "generic", base) for scale in (1e-9, 1e-6, 1e-3, 1.0, 1e3, 1e6) for shift in (0.0, 1e5)] + [(1.0, 0.0, nm, b) for nm, b in specials]
    for scale, shift, label, cfg in configs:
        if True:
            X, Y, NX, NY = [np.array(a, dtype=float) for a in cfg]
            X, Y = X * scale + shift * scale, Y * scale + shift * scale
            kk = 1.0 / scale
            pars = [[]] if n == 0 else [[0.9 * kk]] if n == 1 else [[1.1 * kk, 0.0 if case == "ki==0" else 0.4 * kk]]
            if n == 2 and case != "ki==0" and label == "generic" and scale == 1.0:
                # the complex-wavenumber case also at a purely imaginary and at a decaying-the-other-way wavenumber (Re k == 0, Im k < 0)
                pars += [[0.0, 0.4 * kk], [1.1 * kk, -0.4 * kk], [0.0, -0.3 * kk]]
            f = pyfunc(kernel_function(key, mode))
            for par in pars:
                try:
                    out = f(X, Y, NX, NY, np.array(par, dtype=float))
                except Exception as ex:  # noqa
                    return {"violates": True, "observed": "%s: %s" % (type(ex).__name__, ex), "scale": scale}
                for j in range(2):
                    x, y, nx, ny = column(mode, X, Y, NX, NY, j)
                    sv = complex(KS.SPEC[key](x, y, nx, ny, par))
                    if not np.isfinite(sv) or abs(sv) > 1e200 or abs(sv) < 1e-200:
                        continue      # the specification itself leaves the floating-point range at this scale: no verdict from this sample
                    e = abs(complex(out[j]) - sv) / max(1e-300, abs(sv))
                    if not np.isfinite(e):
                        e = 1.0
                    if e > worst:
                        worst, where = e, {"scale": scale, "shift": shift, "configuration": label, "observed": [complex(out[j]).real, complex(out[j]).imag], "required": [sv.real, sv.imag]}
    # far from the origin the difference y - x loses digits: relative accuracy 1e-16 * 1e5 / 1 in the distance
    return {"violates": bool(worst > 1e-8), "relative_error": worst, "where": where}


def ob_code_equals_spec(key, mode):
    """post: for all j: out[j] == spec(column j); all parameter cases."""
    res = []
    for case, par in param_cases(key):
        S.reset()
        case, par = [c for c in param_cases(key) if c[0] == case][0]
        X, Y, NX, NY = inputs(mode)
        try:
            out = run_real(key, mode, X, Y, NX, NY, par)
        except S.Undecided as ex:
            # control flow on symbolic values (a comparison, max / min, abs): decide by the native extreme-scale replay
            rp = extreme_scale_replay(key, mode, case)
            if rp["violates"]:
                res.append((case, violated("kernel %s (%s, case %s) branches on its data (%s) and differs from its spec at an extreme scale: %s" % (key, mode, case, ex, rp),
                                           witness=rp.get("where"), replay={"callable": "vlib.kernelrun:extreme_scale_replay", "kwargs": {"key": key, "mode": mode, "case": case},
                                                                           "confirmed": True, "result": rp}, signature="%s/%s/branch" % (key, mode))))
            else:
                res.append((case, undecided("kernel %s (%s) branches on symbolic values: %s; native extreme-scale replay agrees with the spec (%.1e)" % (key, mode, ex, rp["relative_error"]))))
            continue
        if len(out) != 2:
            res.append((case, violated("result has %d columns for 2 trial points" % len(out))))
            continue
        bad = None
        for j in range(2):
            x, y, nx, ny = column(mode, X, Y, NX, NY, j)
            spec = KS.SPEC[key](x, y, nx, ny, par)
            d = out[j] - spec
            if not S.is_zero(d):
                bad = (j, d)
                break
        if bad is None:
            res.append((case, proved("sym-normal-form", "out[j] - spec(column j) is the zero term for generic columns j=0,1")))
            continue
        w = S.find_witness(bad[1], seed=1)
        if w is None:
            res.append((case, undecided("normal form of out[%d]-spec is non-zero but no numeric witness found" % bad[0])))
            continue
        env, val = w
        rp = replay_kernel_spec(key, mode, env, case)
        res.append((case, violated(
            "kernel %s (%s, case %s) differs from its spec: residual %s at the witness" % (key, mode, case, val),
            witness=env,
            replay={"callable": "vlib.kernelrun:replay_kernel_spec", "kwargs": {"key": key, "mode": mode, "env": env, "case": case},
                    "confirmed": rp["violates"], "result": rp},
            signature="%s/%s" % (key, mode))))
    return res
