"""numpy facade used when real library code is executed on proxy values (DESIGN 2.3, trusted shims).

Replaces, in the module under execution only, the few numpy entry points that refuse object arrays or that pin a float dtype:
  empty / zeros / ones / zeros_like / full / array(dtype=float..) / require / asfortranarray : dtype dropped -> object arrays
  linalg.norm (vector 2-norm, optional axis), linalg.det / linalg.inv for (...,2,2) and (...,3,3) stacks, real / imag / conj
Everything else is forwarded to numpy unchanged.  The shims are cross-checked against numpy on random floats (thorough tier).
"""

import numpy as np

from vlib import sym as S


def _obj(a):
    return np.asarray(a, dtype=object)


class _Linalg:
    def __getattr__(self, name):
        return getattr(np.linalg, name)

    @staticmethod
    def norm(a, axis=None):
        a = np.asarray(a)
        if a.dtype != object:
            return np.linalg.norm(a, axis=axis)
        if axis is None:
            s = 0
            for v in a.ravel():
                s = s + v * v
            return np.sqrt(s)
        sq = a * a
        tot = np.sum(sq, axis=axis)
        out = np.empty(tot.shape, dtype=object)
        for idx in np.ndindex(*tot.shape):
            out[idx] = np.sqrt(tot[idx])
        return out if out.shape else out[()]

    @staticmethod
    def det(a):
        a = np.asarray(a)
        if a.dtype != object:
            return np.linalg.det(a)
        n = a.shape[-1]
        if n == 2:
            return a[..., 0, 0] * a[..., 1, 1] - a[..., 0, 1] * a[..., 1, 0]
        if n == 3:
            return (a[..., 0, 0] * (a[..., 1, 1] * a[..., 2, 2] - a[..., 1, 2] * a[..., 2, 1])
                    - a[..., 0, 1] * (a[..., 1, 0] * a[..., 2, 2] - a[..., 1, 2] * a[..., 2, 0])
                    + a[..., 0, 2] * (a[..., 1, 0] * a[..., 2, 1] - a[..., 1, 1] * a[..., 2, 0]))
        raise S.Undecided("det of %dx%d object matrix" % (n, n))

    @staticmethod
    def inv(a):
        a = np.asarray(a)
        if a.dtype != object:
            return np.linalg.inv(a)
        if a.shape[-1] != 2:
            raise S.Undecided("inverse of a non-2x2 object matrix")
        d = a[..., 0, 0] * a[..., 1, 1] - a[..., 0, 1] * a[..., 1, 0]
        out = np.empty(a.shape, dtype=object)
        out[..., 0, 0] = a[..., 1, 1] / d
        out[..., 1, 1] = a[..., 0, 0] / d
        out[..., 0, 1] = -a[..., 0, 1] / d
        out[..., 1, 0] = -a[..., 1, 0] / d
        return out


class ObjNumpy:
    linalg = _Linalg()

    def __getattr__(self, name):
        return getattr(np, name)

    @staticmethod
    def empty(shape, dtype=None, order="C"):
        return np.empty(shape, dtype=object)

    @staticmethod
    def zeros(shape, dtype=None, order="C"):
        if dtype is not None and np.dtype(dtype).kind in "biu":
            return np.zeros(shape, dtype=dtype)
        a = np.empty(shape, dtype=object)
        a.fill(0)
        return a

    @staticmethod
    def ones(shape, dtype=None, order="C"):
        if dtype is not None and np.dtype(dtype).kind in "biu":
            return np.ones(shape, dtype=dtype)
        a = np.empty(shape, dtype=object)
        a.fill(1)
        return a

    @staticmethod
    def full(shape, value, dtype=None):
        if isinstance(value, (bool, np.bool_)):
            return np.full(shape, value)
        a = np.empty(shape, dtype=object)
        a.fill(value)
        return a

    @staticmethod
    def zeros_like(a, dtype=None):
        out = np.empty(np.shape(a), dtype=object)
        out.fill(0)
        return out

    @staticmethod
    def require(a, dtype=None, requirements=None):
        return np.asarray(a)

    @staticmethod
    def asfortranarray(a):
        return np.asarray(a)

    @staticmethod
    def real(a):
        if isinstance(a, S.Sym):
            return a.real
        a = np.asarray(a)
        if a.dtype != object:
            return np.real(a)
        out = np.empty(a.shape, dtype=object)
        for idx in np.ndindex(*a.shape):
            out[idx] = S.Sym._coerce(a[idx]).real
        return out

    @staticmethod
    def imag(a):
        if isinstance(a, S.Sym):
            return a.imag
        a = np.asarray(a)
        if a.dtype != object:
            return np.imag(a)
        out = np.empty(a.shape, dtype=object)
        for idx in np.ndindex(*a.shape):
            out[idx] = S.Sym._coerce(a[idx]).imag
        return out

    @staticmethod
    def conj(a):
        if isinstance(a, S.Sym):
            return S.conj(a)
        a = np.asarray(a)
        if a.dtype != object:
            return np.conj(a)
        out = np.empty(a.shape, dtype=object)
        for idx in np.ndindex(*a.shape):
            out[idx] = S.conj(S.Sym._coerce(a[idx]))
        return out


class patched:
    """Context manager: replace attribute `name` of `module` (default `_np`) by the facade."""

    def __init__(self, *modules, name="_np"):
        self.modules = modules
        self.name = name

    def __enter__(self):
        self.saved = [getattr(m, self.name) for m in self.modules]
        for m in self.modules:
            setattr(m, self.name, ObjNumpy())
        return self

    def __exit__(self, *a):
        for m, s in zip(self.modules, self.saved):
            setattr(m, self.name, s)
        return False
