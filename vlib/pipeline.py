"""Functional contracts of the real dense assembly pipeline, decided at small concrete mesh sizes with generic values (P-sizes).

contract  assemble_singular_part(domain.localised_space, dual.localised_space, ...)
  ensures  the returned (rows, cols, values) list every pair (E, F) in test_support x trial_support that shares >= 1 vertex
           exactly once and no other pair; values of a pair are the local integrals of specs/galerkin.py for an admissible frame;
           rows = nshape_test * E + f, cols = nshape_trial * F + g.
contract  assemble_dense(domain, dual_to_range, parameters, descriptor, 'numba')
  ensures  result == scatter_{l2g, multipliers}( regular local integrals of all non-adjacent support pairs
                                                + singular local integrals ) -- the Galerkin quadrature matrix of specs/galerkin.py.

The kernel is an uninterpreted function (contract stub) or a real kernel; quadrature rules are contract stubs (generic points and
weights, distinct point counts per rule).  `numeric=True` replays the same obligation natively on floats.
"""

import math

import numpy as np

from vlib import sym as S
from vlib import symgrid as SG
from vlib.framework import proved, violated, undecided
from specs import galerkin as GS

MESHES = {
    "screen2": lambda: SG.screen(2),
    "tetra": SG.tetra,
    "fan3": SG.fan3,
    "octa": SG.octa,
    "cube12": SG.cube12,
    "screen3": lambda: SG.screen(3),
    "torus33": lambda: SG.torus(3, 3),
    "two_tets_face": SG.two_tets_face,
    "octa+tetra": SG.octa_plus_tetra,
}


def stub_numeric(*args):
    return math.cos(sum((0.3 + 0.17 * i) * float(np.real(a)) for i, a in enumerate(args))) + 1.5


def make_space(grid, spec):
    """spec: (kind, degree, kwargs)"""
    import bempp_cl.api as api

    kind, degree, kw = spec
    return api.function_space(grid, kind, degree, **kw)


def _mesh(name):
    if name.startswith("pair:"):
        _, share, p0, p1 = name.split(":")
        return SG.two_triangles(tuple(int(c) for c in p0), tuple(int(c) for c in p1), int(share))
    return MESHES[name]()


def _num_rules(seed):
    rng = np.random.RandomState(seed)

    def tri(n):
        p = rng.uniform(0.1, 0.4, size=(2, n))
        return p

    rr = (tri(2), rng.uniform(0.2, 0.6, size=2))
    du = {}
    for adj, n in (("coincident", 3), ("edge_adjacent", 2), ("vertex_adjacent", 1)):
        du[adj] = (tri(n), tri(n), rng.uniform(0.2, 0.6, size=n))
    return rr, du


# The contract stubs of the quadrature tables are order-sensitive: the rule of the spec is returned only for the order the property names
# (parameters.quadrature.regular for triangle_gauss.rule, parameters.quadrature.singular for the Duffy rules); any other order gets a different
# generic rule, so that code asking for the wrong order cannot satisfy the contract.  The two orders are chosen distinct.
REGULAR_ORDER, SINGULAR_ORDER = 5, 3


def _pipeline_parameters():
    from bempp_cl.api.utils.parameters import DefaultParameters

    p = DefaultParameters()
    p.quadrature.regular = REGULAR_ORDER
    p.quadrature.singular = SINGULAR_ORDER
    return p


def run_pipeline(mesh, test_spec, trial_spec, kernel_key=None, numeric=False, seed=0, domain_indices=None, trial_mesh=None,
                 assembly_type="default_scalar", geometry="derived", par_case="ki!=0", trial_domain_indices=None):
    """Execute the real pipeline; returns dict with A (assembled), singular triple, and the context for the spec."""
    import bempp_cl.api as api
    from bempp_cl.api.operators import OperatorDescriptor
    from bempp_cl.core.dense_assembler import assemble_dense
    from bempp_cl.core.singular_assembler import assemble_singular_part

    kernel_key = kernel_key or KERNEL_OF[assembly_type]
    nonorm = assembly_type in NO_NORMALS
    v, e = _mesh(mesh)
    grid = SG.make_grid(v, e, domain_indices)
    if trial_mesh is None:
        tgrid = grid
    else:
        v2, e2 = _mesh(trial_mesh)
        tgrid = SG.make_grid(v2 + np.array([[3.0], [0.4], [0.2]]), e2, np.array(trial_domain_indices, dtype="uint32") if trial_domain_indices is not None else None)
    test = make_space(grid, test_spec)
    trial = make_space(tgrid, trial_spec)
    if numeric:
        rr, du = _num_rules(seed)
        geo_t = GS.Geometry(grid.vertices, grid.elements)
        geo_r = geo_t if tgrid is grid else GS.Geometry(tgrid.vertices, tgrid.elements)
        par = _numeric_par(kernel_key, par_case)

        def K(x, y, nx, ny, par):
            return stub_numeric(*(list(x) + list(y) + ([] if nonorm else list(nx) + list(ny)) + list(par)))

        def kr(tp, trp, tn, trn, kp):
            return np.array([stub_numeric(*(list(tp) + list(trp[:, j]) + ([] if tn is None else list(tn) + list(trn[:, j])) + list(kp))) for j in range(trp.shape[1])])

        def ks(tp, trp, tn, trn, kp):
            return np.array([stub_numeric(*(list(tp[:, j]) + list(trp[:, j]) + ([] if tn is None else list(tn) + list(trn)) + list(kp))) for j in range(trp.shape[1])])
    else:
        S.reset()
        if geometry == "free":
            geo_t = GS.FieldGeometry(SG.attach_free(grid, "v"))
            geo_r = geo_t if tgrid is grid else GS.FieldGeometry(SG.attach_free(tgrid, "u"))
        else:
            g = SG.attach_symbolic(grid, "v")
            geo_t = GS.Geometry(g._vertices, grid.elements)
            if tgrid is grid:
                geo_r = geo_t
            else:
                g2 = SG.attach_symbolic(tgrid, "u")
                geo_r = GS.Geometry(g2._vertices, tgrid.elements)
        rrf = SG.sym_regular_rule(2)
        rr = rrf(0)
        du = SG.sym_duffy()
        par = _symbolic_par(kernel_key, par_case)
        kr = SG.stub_kernel("K", "regular", stub_numeric)
        ks = SG.stub_kernel("K", "singular", stub_numeric)

        def K(x, y, nx, ny, par):
            return S.fn("K", list(x) + list(y) + ([] if nonorm else list(nx) + list(ny)) + list(par), stub_numeric)

    # complex result type for the Helmholtz-type kernels in the float replay (with proxy values the allocation dtype is `object` anyway)
    from specs import kernels as _KS

    desc = OperatorDescriptor("stub", par, kernel_key, assembly_type, "double", bool(numeric and _KS.NPARAMS[kernel_key] == 2), None, 1)
    stubs = {kernel_key + "_regular": kr, kernel_key + "_singular": ks}
    params = _pipeline_parameters()
    if numeric:
        rr_other, du_other = _num_rules(seed + 977)
    else:
        rr_other, du_other = SG.sym_regular_rule(2, tag="qx")(0), SG.sym_duffy(tag="dx")

    def rule_stub(order):
        return rr if order == REGULAR_ORDER else rr_other

    def duffy_stub(order):
        return du if order == SINGULAR_ORDER else du_other

    if numeric:
        from bempp_cl.api.integration import triangle_gauss, duffy_galerkin
        from bempp_cl.core import numba_kernels as NK

        saved = (triangle_gauss.rule, duffy_galerkin.rule, duffy_galerkin.number_of_quadrature_points,
                 getattr(NK, kernel_key + "_regular"), getattr(NK, kernel_key + "_singular"))
        triangle_gauss.rule = rule_stub
        duffy_galerkin.rule = lambda order, adjacency: duffy_stub(order)[adjacency]
        duffy_galerkin.number_of_quadrature_points = lambda order, adjacency: len(duffy_stub(order)[adjacency][2])
        setattr(NK, kernel_key + "_regular", kr)
        setattr(NK, kernel_key + "_singular", ks)
        try:
            A = assemble_dense(trial, test, params, desc, "numba")
            sing = assemble_singular_part(trial.localised_space, test.localised_space, params, desc, "numba") if tgrid is grid else None
        finally:
            (triangle_gauss.rule, duffy_galerkin.rule, duffy_galerkin.number_of_quadrature_points) = saved[:3]
            setattr(NK, kernel_key + "_regular", saved[3])
            setattr(NK, kernel_key + "_singular", saved[4])
    else:
        from bempp_cl.core import numba_kernels as _NK
        from vlib.objnp import patched as _patched

        with SG.object_pipeline(rule_stub, duffy_stub, stubs), _patched(_NK):
            A = assemble_dense(trial, test, params, desc, "numba")
            sing = assemble_singular_part(trial.localised_space, test.localised_space, params, desc, "numba") if tgrid is grid else None
    return dict(A=A, sing=sing, grid=grid, tgrid=tgrid, test=test, trial=trial, geo_t=geo_t, geo_r=geo_r, rr=rr, du=du, K=K, par=par)


def _symbolic_par(kernel_key, par_case):
    from specs import kernels as KS

    n = KS.NPARAMS[kernel_key]
    if n == 0:
        return []
    if n == 1:
        return [S.var("w", nonzero=True)]
    return [S.var("kr"), S.var("ki", nonzero=True)] if par_case == "ki!=0" else [S.var("kr", nonzero=True), 0]


def _numeric_par(kernel_key, par_case):
    from specs import kernels as KS

    n = KS.NPARAMS[kernel_key]
    return [] if n == 0 else [0.9] if n == 1 else ([1.1, 0.4] if par_case == "ki!=0" else [1.1, 0.0])


def _same(a, b, numeric):
    if numeric:
        return abs(complex(a) - complex(b)) <= 1e-10 * max(1.0, abs(complex(b)))
    return S.is_zero(S.Sym._coerce(a) - S.Sym._coerce(b))


FORMS = {"default_scalar": None, "laplace_hypersingular": GS.curl_curl_form, "helmholtz_hypersingular": GS.helmholtz_hyp_form,
         "modified_helmholtz_hypersingular": GS.modified_hyp_form, "maxwell_electric_field": GS.maxwell_efield_form,
         "maxwell_magnetic_field": GS.maxwell_mfield_form}
KERNEL_OF = {"default_scalar": "laplace_single_layer", "laplace_hypersingular": "laplace_single_layer", "helmholtz_hypersingular": "helmholtz_single_layer",
             "modified_helmholtz_hypersingular": "modified_helmholtz_single_layer", "maxwell_electric_field": "helmholtz_single_layer",
             "maxwell_magnetic_field": "helmholtz_single_layer"}
NO_NORMALS = ("maxwell_electric_field", "maxwell_magnetic_field")


def check_pipeline(mesh, test_spec, trial_spec, numeric=False, seed=0, domain_indices=None, trial_mesh=None, assembly_type="default_scalar",
                   par_case="ki!=0", trial_domain_indices=None):
    """Returns (ok, detail, info)."""
    ctx = run_pipeline(mesh, test_spec, trial_spec, numeric=numeric, seed=seed, domain_indices=domain_indices, trial_mesh=trial_mesh,
                       assembly_type=assembly_type, geometry="derived" if assembly_type == "default_scalar" else "free", par_case=par_case,
                       trial_domain_indices=trial_domain_indices)
    form = FORMS[assembly_type]
    test, trial, grid = ctx["test"], ctx["trial"], ctx["grid"]
    same_grid = ctx["tgrid"] is grid
    tshape, rshape = test.shapeset.identifier, trial.shapeset.identifier
    nt, nr = test.number_of_shape_functions, trial.number_of_shape_functions
    geo_t, geo_r = ctx["geo_t"], ctx["geo_r"]
    tsupp = [int(x) for x in test.support_elements]
    rsupp = [int(x) for x in trial.support_elements]
    local = {}
    n_sing = 0
    if same_grid:
        rows, cols, vals = ctx["sing"]
        rows = np.asarray(rows).astype(int)
        cols = np.asarray(cols).astype(int)
        if len(rows) != len(vals) or len(cols) != len(vals) or len(vals) % (nt * nr):
            return False, "assemble_singular_part returns inconsistent lengths %d %d %d" % (len(rows), len(cols), len(vals)), {}
        seen = {}
        for idx in range(len(vals) // (nt * nr)):
            blk = slice(nt * nr * idx, nt * nr * (idx + 1))
            r, c = rows[blk], cols[blk]
            E, F = int(r[0]) // nt, int(c[0]) // nr
            exp_r = [nt * E + f for f in range(nt) for g in range(nr)]
            exp_c = [nr * F + g for f in range(nt) for g in range(nr)]
            if list(r) != exp_r or list(c) != exp_c:
                return False, "singular pair %d: row/column indices %s %s are not nshape*E+f / nshape*F+g" % (idx, list(r), list(c)), {}
            if (E, F) in seen:
                return False, "singular pair (%d,%d) is integrated twice" % (E, F), {}
            if E not in tsupp or F not in rsupp:
                return False, "singular pair (%d,%d) outside the supports" % (E, F), {}
            kind, cands = GS.local_integrals(geo_t, geo_r, E, F, True, tshape, rshape, int(test.normal_multipliers[E]), int(trial.normal_multipliers[F]),
                                             ctx["K"], ctx["par"], ctx["rr"], ctx["du"], form)
            if kind == "regular":
                return False, "pair (%d,%d) shares no vertex but is integrated with a singular rule" % (E, F), {}
            got = np.asarray(vals[blk]).reshape(nt, nr)
            match = None
            for k, cand in enumerate(cands):
                if all(_same(got[f, g], cand[f, g], numeric) for f in range(nt) for g in range(nr)):
                    match = k
                    break
            if match is None:
                return False, ("singular pair (%d,%d) [%s, elements %s / %s]: local integrals equal none of the %d admissible Duffy frames"
                               % (E, F, kind, list(grid.elements[:, E]), list(grid.elements[:, F]), len(cands))), {"pair": [E, F], "kind": kind}
            seen[(E, F)] = cands[match]
        # completeness: every adjacent support pair present
        for E in tsupp:
            for F in rsupp:
                sh = len(set(int(x) for x in grid.elements[:, E]) & set(int(x) for x in grid.elements[:, F]))
                if sh and (E, F) not in seen:
                    return False, "pair (%d,%d) shares %d vertices but is missing from the singular part (and skipped by the regular part)" % (E, F, sh), {"pair": [E, F]}
        local.update(seen)
        n_sing = len(seen)
    n_reg = 0
    for E in tsupp:
        for F in rsupp:
            if (E, F) in local:
                continue
            kind, cands = GS.local_integrals(geo_t, geo_r, E, F, same_grid, tshape, rshape, int(test.normal_multipliers[E]), int(trial.normal_multipliers[F]),
                                             ctx["K"], ctx["par"], ctx["rr"], ctx["du"], form)
            local[(E, F)] = cands[0]
            n_reg += 1
    exp = GS.scatter(local, test, trial, test.global_dof_count, trial.global_dof_count)
    A = ctx["A"]
    if A.shape != exp.shape:
        return False, "assembled shape %s, expected %s" % (A.shape, exp.shape), {}
    for r in range(exp.shape[0]):
        for c in range(exp.shape[1]):
            if not _same(A[r, c], exp[r, c], numeric):
                return False, "assembled entry [%d,%d] differs from the Galerkin quadrature sum" % (r, c), {"entry": [r, c]}
    return True, "%d singular + %d regular element pairs, matrix %dx%d" % (n_sing, n_reg, exp.shape[0], exp.shape[1]), {}


def replay_pipeline(mesh, test_spec, trial_spec, domain_indices=None, trial_mesh=None, seed=0, assembly_type="default_scalar", par_case="ki!=0",
                    trial_domain_indices=None):
    ok, detail, info = check_pipeline(mesh, _spec(test_spec), _spec(trial_spec), numeric=True, seed=seed,
                                      domain_indices=np.array(domain_indices, dtype="uint32") if domain_indices is not None else None, trial_mesh=trial_mesh,
                                      assembly_type=assembly_type, par_case=par_case, trial_domain_indices=trial_domain_indices)
    return {"violates": not ok, "detail": detail}


def _spec(s):
    return (s[0], int(s[1]), dict(s[2]))


def ob_pipeline(mesh, test_spec, trial_spec, domain_indices=None, trial_mesh=None, assembly_type="default_scalar", par_case="ki!=0", trial_domain_indices=None):
    di = np.array(domain_indices, dtype="uint32") if domain_indices is not None else None
    try:
        ok, detail, info = check_pipeline(mesh, test_spec, trial_spec, numeric=False, domain_indices=di, trial_mesh=trial_mesh, assembly_type=assembly_type,
                                          par_case=par_case, trial_domain_indices=trial_domain_indices)
    except S.Undecided:
        raise
    except Exception as ex:  # noqa
        # the real code left the part of numpy that runs on proxy values (or raised on a well-formed input): decided natively on floats, never a checker error
        try:
            rp = replay_pipeline(mesh, list(test_spec), list(trial_spec), domain_indices, trial_mesh, assembly_type=assembly_type, par_case=par_case,
                                 trial_domain_indices=trial_domain_indices)
        except Exception as ex2:  # noqa
            return violated("the real assembly pipeline raises on a well-formed input: %s: %s" % (type(ex2).__name__, str(ex2)[:200]),
                            witness={"mesh": mesh, "test": list(test_spec), "trial": list(trial_spec)}, signature="pipeline/%s/raises" % assembly_type, replay={"confirmed": True})
        if rp["violates"]:
            return violated("symbolic execution of the pipeline not possible (%s: %s); the same contract evaluated on floats fails: %s" % (type(ex).__name__, str(ex)[:120], str(rp)[:300]),
                            witness={"mesh": mesh, "test": list(test_spec), "trial": list(trial_spec), "domain_indices": domain_indices},
                            replay={"callable": "vlib.pipeline:replay_pipeline",
                                    "kwargs": {"mesh": mesh, "test_spec": list(test_spec), "trial_spec": list(trial_spec), "domain_indices": domain_indices,
                                               "trial_mesh": trial_mesh, "assembly_type": assembly_type, "par_case": par_case, "trial_domain_indices": trial_domain_indices},
                                    "confirmed": True, "result": rp},
                            signature="pipeline/%s/native" % assembly_type)
        return undecided("the real pipeline cannot be executed on proxy values (%s: %s); the same contract holds on floats" % (type(ex).__name__, str(ex)[:160]))
    if ok:
        return proved("sym-exec+normal-form", detail)
    rp = replay_pipeline(mesh, list(test_spec), list(trial_spec), domain_indices, trial_mesh, assembly_type=assembly_type, par_case=par_case,
                         trial_domain_indices=trial_domain_indices)
    return violated(detail, witness={"mesh": mesh, "test": list(test_spec), "trial": list(trial_spec), "domain_indices": domain_indices},
                    replay={"callable": "vlib.pipeline:replay_pipeline",
                            "kwargs": {"mesh": mesh, "test_spec": list(test_spec), "trial_spec": list(trial_spec), "domain_indices": domain_indices,
                                       "trial_mesh": trial_mesh, "assembly_type": assembly_type, "par_case": par_case, "trial_domain_indices": trial_domain_indices},
                            "confirmed": rp["violates"], "result": rp},
                    signature="pipeline/%s/%s/%s/%s" % (assembly_type, mesh, test_spec[0] + str(test_spec[1]), trial_spec[0] + str(trial_spec[1])))
