"""Functional contract of the real potential pipeline (PotentialAssembler -> DensePotentialAssembler -> default_scalar_potential_kernel).

contract  PotentialAssembler(space, points, descriptor, 'numba', 'dense', parameters).evaluate(x)
  ensures  result[d, i] == sum_{E in support} sum_q K_d(p_i, y_{E,q}; n_E * nm_E) |J_E| w_q sum_f phi_f(q) c[nshape*E + f]
           with c = T x,  T[nshape*E + f, l2g[E, f]] = mult[E, f]   (T = map_to_full_grid, dof_transformation = identity here)
Executed on small real grids with symbolic geometry, symbolic coefficient vector x, symbolic evaluation points and a generic
quadrature rule; kernel = uninterpreted stub or the real kernel function.
"""

import numpy as np

from vlib import sym as S
from vlib import symgrid as SG
from vlib import pipeline as PL
from vlib.framework import proved, violated, undecided
from specs import galerkin as GS
from specs import kernels as KS


class KeepArray(np.ndarray):
    """object ndarray whose astype(<float type>) is the identity (the potential glue pins 'double')."""

    def astype(self, dtype, *a, **k):
        if dtype is object or dtype == object:
            return np.asarray(self)
        return self

    def __array_wrap__(self, out, context=None, return_scalar=False):
        out = np.asarray(out)
        return out[()] if out.ndim == 0 else out


def keep(a):
    return np.asarray(a, dtype=object).view(KeepArray)


class DenseShim(np.ndarray):
    """dense stand-in for a scipy sparse matrix in products with object vectors (assumed contract: A @ x == A.toarray() @ x)."""

    def toarray(self):
        return np.asarray(self)


def densify(space):
    space._map_to_full_grid = np.asarray(space.map_to_full_grid.toarray()).astype(object).view(DenseShim)
    if space._dof_transformation is not None and hasattr(space._dof_transformation, "toarray"):
        space._dof_transformation = np.asarray(space._dof_transformation.toarray()).astype(object).view(DenseShim)


def spec_potential(geo, space, K, par, rule, points, x, kernel_dimension=1):
    pts, wts = rule
    ns = space.number_of_shape_functions
    shape = space.shapeset.identifier
    # c = T x
    c = {}
    for E in space.support_elements:
        E = int(E)
        for f in range(ns):
            c[(E, f)] = x[int(space.local2global[E, f])] * int(space.local_multipliers[E, f])
    out = np.empty((kernel_dimension, points.shape[1]), dtype=object)
    out.fill(0)
    for i in range(points.shape[1]):
        p = [points[k, i] for k in range(3)]
        for E in space.support_elements:
            E = int(E)
            ny = [cc * int(space.normal_multipliers[E]) for cc in geo.normal(E)]
            jac = geo.int_elem(E)
            for q in range(len(wts)):
                y = geo.point(geo.std_frame(E), pts[0, q], pts[1, q], E)
                phi = GS.shape_values(shape, pts[0, q], pts[1, q])
                dens = sum((phi[f] * c[(E, f)] for f in range(ns)), 0)
                k = K(p, y, [0, 0, 0], ny, par)
                out[0, i] = out[0, i] + k * jac * wts[q] * dens
    return out


def run_potential(mesh, space_spec, kernel_key="laplace_single_layer", kernel="stub", npoints=2, domain_indices=None, par_case=None):
    import bempp_cl.api as api
    from bempp_cl.api.operators import OperatorDescriptor
    from bempp_cl.api.assembly.assembler import PotentialAssembler

    S.reset()
    v, e = PL._mesh(mesh)
    grid = SG.make_grid(v, e, domain_indices)
    space = PL.make_space(grid, space_spec)
    g = SG.attach_symbolic(grid, "v")
    geo = GS.Geometry(g._vertices, grid.elements)
    pts = keep(S.symarray("q", (2, 2)))
    wts = keep(S.symarray("qw", (2,), positive=True))
    points = keep(S.symarray("p", (3, npoints)))
    x = S.symarray("x", (space.global_dof_count,))
    if kernel == "stub":
        par = []
        stubs = {kernel_key + "_regular": SG.stub_kernel("K", "regular", PL.stub_numeric)}

        def K(p, y, nx, ny, par):
            return S.fn("K", list(p) + list(y) + list(nx) + list(ny) + list(par), PL.stub_numeric)
    else:
        from vlib import kernelrun as KR

        par = [c for c in KR.param_cases(kernel_key) if c[0] == par_case][0][1]
        stubs = {}

        def K(p, y, nx, ny, par):
            return KS.SPEC[kernel_key](p, y, nx, ny, par)
    densify(space)
    desc = OperatorDescriptor("stub", par, kernel_key, "default_scalar", "double", False, None, 1)
    with SG.object_pipeline(lambda order: (pts, wts), None, stubs):
        pa = PotentialAssembler(space, points, desc, "numba", "dense", api.GLOBAL_PARAMETERS)
        out = pa.evaluate(x)
    exp = spec_potential(geo, space, K, par, (pts, wts), points, x)
    return out, exp, space


def ob_potential(mesh, space_spec, kernel_key="laplace_single_layer", kernel="stub", domain_indices=None, par_case=None):
    di = np.array(domain_indices, dtype="uint32") if domain_indices is not None else None
    out, exp, space = run_potential(mesh, space_spec, kernel_key, kernel, 2, di, par_case)
    out = np.asarray(out)
    if out.shape != exp.shape:
        return violated("potential result has shape %s, expected %s" % (out.shape, exp.shape), signature="potential/%s" % mesh)
    for d in range(exp.shape[0]):
        for i in range(exp.shape[1]):
            diff = S.Sym._coerce(out[d, i]) - S.Sym._coerce(exp[d, i])
            if not S.is_zero(diff):
                w = S.find_witness(diff, seed=7)
                if w is None:
                    return undecided("potential value [%d,%d]: normal form non-zero, no numeric witness" % (d, i))
                return violated("potential value at point %d differs from the closed-form kernel sum over the quadrature points (difference %s at the witness)" % (i, w[1]),
                                witness={"mesh": mesh, "space": list(space_spec), "env": w[0]}, signature="potential/%s/%s/%s%d" % (kernel_key, mesh, space_spec[0], space_spec[1]),
                                replay={"confirmed": False, "note": "symbolic counterexample assignment recorded in witness.env"})
    return proved("sym-exec+normal-form", "%d values, %d support elements, %d dofs" % (exp.size, space.number_of_support_elements, space.global_dof_count))
