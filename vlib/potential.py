"""Functional contract of the real potential pipeline (PotentialAssembler -> DensePotentialAssembler -> default_scalar_potential_kernel).

contract  PotentialAssembler(space, points, descriptor, 'numba', 'dense', parameters).evaluate(x)
  ensures  result[d, i] == sum_{E in support} sum_q K_d(p_i, y_{E,q}; n_E * nm_E) |J_E| w_q sum_f phi_f(q) c[nshape*E + f]
           with c = T x,  T[nshape*E + f, l2g[E, f]] = mult[E, f]   (T = map_to_full_grid, dof_transformation = identity here)
Executed on small real grids with symbolic geometry, symbolic coefficient vector x, symbolic evaluation points and a generic
quadrature rule; kernel = uninterpreted stub or the real kernel function.
"""

import numpy as np

from vlib import sym as S
from vlib import symgrid as SG
from vlib import pipeline as PL
from vlib.framework import proved, violated, undecided, held
from specs import galerkin as GS
from specs import kernels as KS


class KeepArray(np.ndarray):
    """object ndarray whose astype(<float type>) is the identity (the potential glue pins 'double')."""

    def astype(self, dtype, *a, **k):
        if dtype is object or dtype == object:
            return np.asarray(self)
        return self

    def __array_wrap__(self, out, context=None, return_scalar=False):
        out = np.asarray(out)
        return out[()] if out.ndim == 0 else out


def keep(a):
    return np.asarray(a, dtype=object).view(KeepArray)


class DenseShim(np.ndarray):
    """dense stand-in for a scipy sparse matrix in products with object vectors (assumed contract: A @ x == A.toarray() @ x)."""

    def toarray(self):
        return np.asarray(self)


def densify(space):
    space._map_to_full_grid = np.asarray(space.map_to_full_grid.toarray()).astype(object).view(DenseShim)
    if space._dof_transformation is not None and hasattr(space._dof_transformation, "toarray"):
        space._dof_transformation = np.asarray(space._dof_transformation.toarray()).astype(object).view(DenseShim)


def spec_potential(geo, space, K, par, rule, points, x, kernel_dimension=1):
    pts, wts = rule
    ns = space.number_of_shape_functions
    shape = space.shapeset.identifier
    # c = T x
    c = {}
    for E in space.support_elements:
        E = int(E)
        for f in range(ns):
            c[(E, f)] = x[int(space.local2global[E, f])] * int(space.local_multipliers[E, f])
    out = np.empty((kernel_dimension, points.shape[1]), dtype=object)
    out.fill(0)
    for i in range(points.shape[1]):
        p = [points[k, i] for k in range(3)]
        for E in space.support_elements:
            E = int(E)
            ny = [cc * int(space.normal_multipliers[E]) for cc in geo.normal(E)]
            jac = geo.int_elem(E)
            for q in range(len(wts)):
                y = geo.point(geo.std_frame(E), pts[0, q], pts[1, q], E)
                phi = GS.shape_values(shape, pts[0, q], pts[1, q])
                dens = sum((phi[f] * c[(E, f)] for f in range(ns)), 0)
                k = K(p, y, [0, 0, 0], ny, par)
                out[0, i] = out[0, i] + k * jac * wts[q] * dens
    return out


def run_potential(mesh, space_spec, kernel_key="laplace_single_layer", kernel="stub", npoints=2, domain_indices=None, par_case=None):
    import bempp_cl.api as api
    from bempp_cl.api.operators import OperatorDescriptor
    from bempp_cl.api.assembly.assembler import PotentialAssembler

    S.reset()
    v, e = PL._mesh(mesh)
    grid = SG.make_grid(v, e, domain_indices)
    space = PL.make_space(grid, space_spec)
    g = SG.attach_symbolic(grid, "v")
    geo = GS.Geometry(g._vertices, grid.elements)
    pts = keep(S.symarray("q", (2, 2)))
    wts = keep(S.symarray("qw", (2,), positive=True))
    points = keep(S.symarray("p", (3, npoints)))
    x = S.symarray("x", (space.global_dof_count,))
    if kernel == "stub":
        par = []
        stubs = {kernel_key + "_regular": SG.stub_kernel("K", "regular", PL.stub_numeric)}

        def K(p, y, nx, ny, par):
            return S.fn("K", list(p) + list(y) + list(nx) + list(ny) + list(par), PL.stub_numeric)
    else:
        from vlib import kernelrun as KR

        par = [c for c in KR.param_cases(kernel_key) if c[0] == par_case][0][1]
        stubs = {}

        def K(p, y, nx, ny, par):
            return KS.SPEC[kernel_key](p, y, nx, ny, par)
    densify(space)
    desc = OperatorDescriptor("stub", par, kernel_key, "default_scalar", "double", False, None, 1)
    with SG.object_pipeline(lambda order: (pts, wts), None, stubs):
        pa = PotentialAssembler(space, points, desc, "numba", "dense", api.GLOBAL_PARAMETERS)
        out = pa.evaluate(x)
    exp = spec_potential(geo, space, K, par, (pts, wts), points, x)
    return out, exp, space


COEFFICIENT_PATTERNS = ("dense", "unit-first", "unit-last", "half-zero", "zero")


def replay_potential_instance(mesh, space_spec, kernel_key, domain_indices=None, par_case=None):
    """Native instance of the potential contract: the real PotentialAssembler with the real kernel on the real (float) grid, a generic 2-point rule, generic
    evaluation points and coefficient vectors that are dense, unit vectors, half zero and zero (data-dependent shortcuts in the code only show up for such vectors,
    and make symbolic execution branch on the data), against the closed-form spec evaluated at the same numbers."""
    import bempp_cl.api as api
    from bempp_cl.api.operators import OperatorDescriptor
    from bempp_cl.api.assembly.assembler import PotentialAssembler
    from bempp_cl.api.integration import triangle_gauss
    from vlib import kernelrun as KR

    di = np.array(domain_indices, dtype="uint32") if domain_indices is not None else None
    space_spec = tuple(space_spec)
    # spec, symbolically (independent of the coefficient values), on its own grid object
    S.reset()
    v, e = PL._mesh(mesh)
    sgrid = SG.make_grid(v, e, di)
    sspace = PL.make_space(sgrid, space_spec)
    g = SG.attach_symbolic(sgrid, "v")
    geo = GS.Geometry(g._vertices, sgrid.elements)
    pts_s, wts_s, points_s = S.symarray("q", (2, 2)), S.symarray("qw", (2,), positive=True), S.symarray("p", (3, 2))
    n = sspace.global_dof_count
    x_s = S.symarray("x", (n,))
    par_s = [c for c in KR.param_cases(kernel_key) if c[0] == par_case][0][1] if par_case is not None else []
    exp = spec_potential(geo, sspace, lambda p_, y, nx, ny, par: KS.SPEC[kernel_key](p_, y, nx, ny, par), par_s, (pts_s, wts_s), points_s, x_s)
    SG.detach(sgrid)
    # numbers
    rng = np.random.RandomState(5)
    pts, wts = rng.uniform(0.1, 0.4, size=(2, 2)), rng.uniform(0.2, 0.6, size=2)
    points = np.array([[2.3, -0.4], [0.6, 2.9], [1.1, 0.7]])
    env = SG.vertex_env(sgrid, "v")
    for i in range(2):
        env["qw_%d" % i] = float(wts[i])
        for j in range(2):
            env["q_%d_%d" % (i, j)] = float(pts[i, j])
    for i in range(3):
        for j in range(2):
            env["p_%d_%d" % (i, j)] = float(points[i, j])
    pvals = {"kr": 1.1, "ki": 0.4, "w": 0.9}
    par_num = []
    for t in par_s:
        names = S.variables_of(S.Sym._coerce(t)) if not isinstance(t, (int, float)) else []
        for nm in names:
            env[nm] = pvals.get(nm, 0.7)
        par_num.append(float(complex(S.evaluate(S.Sym._coerce(t), env)).real) if not isinstance(t, (int, float)) else float(t))
    # real run
    grid = SG.make_grid(v, e, di)
    space = PL.make_space(grid, space_spec)
    desc = OperatorDescriptor("stub", par_num, kernel_key, "default_scalar", "double", bool(par_num and len(par_num) == 2), None, 1)
    saved = triangle_gauss.rule
    failing, worst = [], 0.0
    try:
        triangle_gauss.rule = lambda order: (pts, wts)
        pa = PotentialAssembler(space, points, desc, "numba", "dense", api.GLOBAL_PARAMETERS)
        for pat in COEFFICIENT_PATTERNS:
            x = rng.randn(n)
            if pat == "unit-first":
                x = np.zeros(n)
                x[0] = 1.0
            elif pat == "unit-last":
                x = np.zeros(n)
                x[-1] = 1.0
            elif pat == "half-zero":
                x[: n // 2] = 0.0
            elif pat == "zero":
                x = np.zeros(n)
            got = np.asarray(pa.evaluate(x))
            for k in range(n):
                env["x_%d" % k] = float(x[k])
            want = np.array([[complex(S.evaluate(S.Sym._coerce(exp[d, i]), env)) for i in range(exp.shape[1])] for d in range(exp.shape[0])])
            scale = max(1e-300, np.abs(want).max(), 1e-3)
            err = float(np.abs(got - want).max() / scale) if got.shape == want.shape else float("inf")
            worst = max(worst, err)
            if not err < 1e-10:
                failing.append("%s coefficients: relative deviation %.2e" % (pat, err))
    finally:
        triangle_gauss.rule = saved
    return {"violates": bool(failing), "failing": failing, "worst": worst}


def ob_potential_patterns(mesh, space_spec, kernel_key, domain_indices=None, par_case=None):
    """bounded: see replay_potential_instance"""
    r = replay_potential_instance(mesh, space_spec, kernel_key, domain_indices, par_case)
    if r["violates"]:
        return violated("potential %s of a %s%d density on %s differs from the closed-form kernel sum for special coefficient vectors: %s" % (kernel_key, space_spec[0], space_spec[1], mesh, r["failing"]),
                        witness={"failing": r["failing"]}, signature="potential-patterns/%s/%s%d" % (kernel_key, space_spec[0], space_spec[1]),
                        replay={"callable": "vlib.potential:replay_potential_instance", "confirmed": True, "result": r,
                                "kwargs": {"mesh": mesh, "space_spec": list(space_spec), "kernel_key": kernel_key, "domain_indices": domain_indices, "par_case": par_case}})
    return held("%d coefficient patterns, worst %.1e" % (len(COEFFICIENT_PATTERNS), r["worst"]))


def ob_potential(mesh, space_spec, kernel_key="laplace_single_layer", kernel="stub", domain_indices=None, par_case=None):
    di = np.array(domain_indices, dtype="uint32") if domain_indices is not None else None
    try:
        out, exp, space = run_potential(mesh, space_spec, kernel_key, kernel, 2, di, par_case)
    except S.Undecided as ex:
        # the real code branches on the DATA (coefficients / points): not executable on symbols; decided natively on special coefficient vectors if that fails
        if kernel != "real":
            raise
        r = replay_potential_instance(mesh, tuple(space_spec), kernel_key, domain_indices, par_case)
        if r["violates"]:
            return violated("potential %s: symbolic execution not possible (%s) and the native instance of the contract fails: %s" % (kernel_key, str(ex)[:100], r["failing"]),
                            witness={"failing": r["failing"]}, signature="potential/%s/native" % kernel_key,
                            replay={"callable": "vlib.potential:replay_potential_instance", "confirmed": True, "result": r,
                                    "kwargs": {"mesh": mesh, "space_spec": list(space_spec), "kernel_key": kernel_key, "domain_indices": domain_indices, "par_case": par_case}})
        raise
    out = np.asarray(out)
    if out.shape != exp.shape:
        return violated("potential result has shape %s, expected %s" % (out.shape, exp.shape), signature="potential/%s" % mesh)
    for d in range(exp.shape[0]):
        for i in range(exp.shape[1]):
            diff = S.Sym._coerce(out[d, i]) - S.Sym._coerce(exp[d, i])
            if not S.is_zero(diff):
                w = S.find_witness(diff, seed=7)
                if w is None:
                    return undecided("potential value [%d,%d]: normal form non-zero, no numeric witness" % (d, i))
                rep = {"confirmed": False, "note": "symbolic counterexample assignment recorded in witness.env"}
                try:
                    # native instance of the same contract (real kernel, floats); for the stub-kernel obligations the real kernel of that name stands in
                    pc = par_case
                    if pc is None:
                        from vlib import kernelrun as KR

                        cases = KR.param_cases(kernel_key)
                        pc = cases[0][0] if cases and cases[0][1] else None
                    r = replay_potential_instance(mesh, tuple(space_spec), kernel_key, domain_indices, pc)
                    if r["violates"]:
                        rep = {"callable": "vlib.potential:replay_potential_instance", "confirmed": True, "result": r,
                               "kwargs": {"mesh": mesh, "space_spec": list(space_spec), "kernel_key": kernel_key, "domain_indices": domain_indices, "par_case": pc}}
                except Exception:  # noqa: the replay is best effort; the symbolic refutation stands on its own
                    pass
                return violated("potential value at point %d differs from the closed-form kernel sum over the quadrature points (difference %s at the witness)" % (i, w[1]),
                                witness={"mesh": mesh, "space": list(space_spec), "env": w[0]}, signature="potential/%s/%s/%s%d" % (kernel_key, mesh, space_spec[0], space_spec[1]),
                                replay=rep)
    return proved("sym-exec+normal-form", "%d values, %d support elements, %d dofs" % (exp.size, space.number_of_support_elements, space.global_dof_count))
