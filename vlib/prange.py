"""Write-set disjointness of Numba `prange` loops (DESIGN 3, C16, step 2).

For a function compiled with parallel=True the top-level `for i in _numba.prange(n)` loop is analysed on its real AST:
  * the loop body is executed abstractly twice (iteration i and iteration i'), names bound outside the loop are shared symbolic constants, arrays bound
    outside the loop are uninterpreted functions of their indices, arrays allocated inside the body are private to the iteration;
  * inner `for x in range(e)` loops contribute a generic iteration (fresh x with 0 <= x < e); scalars assigned inside inner loops are havocked
    afterwards, except counters (`c += 1` exactly once in the innermost body), which are summarised as c0 + [0, product of the trip counts);
  * every store into a shared array is collected with its index tuple; calls to other functions are treated as pure (frame assumption, listed);
  * obligation `disjoint`: for i != i' (both in range) and all admissible inner indices the index tuples of any two stores into the same array
    differ -- under the launch precondition `requires` of the sidecar contract (e.g. the colouring postcondition);
  * obligation `no-foreign-read`: an array that is stored to is read only at the index of its own `+=` / own store (no iteration reads what another
    writes).
Both are discharged by z3 over integers with uninterpreted functions.  Data-race freedom for every schedule follows (no two concurrent iterations
touch a common location), given that Numba executes iterations as written.
"""

import ast
import inspect
import textwrap

import z3

from vlib.vengine import Unsupported


def _ufun(name, arity):
    return z3.Function("A_" + name, *([z3.IntSort()] * (arity + 1)))


class Collector:
    def __init__(self, suffix, shared_consts, uf):
        self.suffix = suffix
        self.env = {}            # local scalar name -> z3 term
        self.private = set()     # arrays allocated inside the body
        self.shared_consts = shared_consts
        self.uf = uf
        self.constraints = []
        self.stores = []         # (array, index tuple, lineno)
        self.reads = []          # (array, index tuple, lineno)
        self.fresh_n = 0
        self.alias = {}          # callee parameter -> caller array / shared symbol (inlined calls)
        self.callees = {}        # parameter name of a function-valued argument -> real function to inline
        self.calls = []          # names of everything called in the body

    def fresh(self, hint="u"):
        self.fresh_n += 1
        return z3.Int("%s_%s%d" % (hint, self.suffix, self.fresh_n))

    # -- expressions --------------------------------------------------------------------------------
    def name_of(self, node):
        if isinstance(node, ast.Name):
            return self.alias.get(node.id, node.id)
        if isinstance(node, ast.Attribute):
            b = self.name_of(node.value)
            return None if b is None else b + "." + node.attr
        return None

    def ev(self, node):
        if isinstance(node, ast.Constant):
            if isinstance(node.value, bool):
                return z3.IntVal(int(node.value))
            if isinstance(node.value, int):
                return z3.IntVal(node.value)
            return self.fresh("const")
        if isinstance(node, ast.Name):
            if node.id in self.env:
                return self.env[node.id]
            return self.shared(self.alias.get(node.id, node.id))
        if isinstance(node, ast.Attribute):
            nm = self.name_of(node)
            if nm is not None:
                return self.shared(nm)
            return self.fresh("attr")
        if isinstance(node, ast.UnaryOp) and isinstance(node.op, ast.USub):
            return -self.ev(node.operand)
        if isinstance(node, ast.BinOp):
            a, b = self.ev(node.left), self.ev(node.right)
            if isinstance(node.op, ast.Add):
                return a + b
            if isinstance(node.op, ast.Sub):
                return a - b
            if isinstance(node.op, ast.Mult):
                return a * b
            return self.fresh("binop")
        if isinstance(node, ast.Subscript):
            nm = self.name_of(node.value)
            idx = node.slice.elts if isinstance(node.slice, ast.Tuple) else [node.slice]
            if nm is not None and not any(isinstance(s, ast.Slice) for s in idx):
                if nm.endswith(".shape"):
                    return self.shared(nm + ast.unparse(node.slice))
                if nm in self.private:
                    return self.fresh("priv")
                if nm in self.env and nm not in self.private:
                    return self.fresh("idxlocal")
                iv = tuple(self.ev(s) for s in idx)
                self.reads.append((nm, iv, node.lineno))
                return _uf_apply(self.uf, nm, iv)
            return self.fresh("sub")
        if isinstance(node, ast.Call):
            fn = self.name_of(node.func)
            if fn == "len" and len(node.args) == 1:
                nm = self.name_of(node.args[0])
                if nm is not None:
                    return self.shared("len(" + nm + ")")
            self.calls.append(fn or ast.unparse(node.func))
            for a in node.args:
                self.walk_reads(a)
            return self.fresh("call")
        return self.fresh("expr")

    def walk_reads(self, node):
        """record reads of shared arrays inside an expression we do not model precisely"""
        for sub in ast.walk(node):
            if isinstance(sub, ast.Subscript):
                nm = self.name_of(sub.value)
                if nm is not None and nm not in self.private and nm not in self.env:
                    idx = sub.slice.elts if isinstance(sub.slice, ast.Tuple) else [sub.slice]
                    if any(isinstance(s, ast.Slice) for s in idx):
                        self.reads.append((nm, None, sub.lineno))
                    else:
                        self.reads.append((nm, tuple(self.ev(s) for s in idx), sub.lineno))
            elif isinstance(sub, ast.Name) and isinstance(sub.ctx, ast.Load):
                pass

    def shared(self, name):
        if name not in self.shared_consts:
            self.shared_consts[name] = z3.Int("S_" + name)
        return self.shared_consts[name]

    # -- statements ---------------------------------------------------------------------------------
    def run(self, stmts):
        for st in stmts:
            self.stmt(st)

    def stmt(self, st):
        if isinstance(st, (ast.Expr, ast.Pass, ast.Continue)):
            if isinstance(st, ast.Expr):
                self.walk_reads(st.value)
                # a call statement may write through its arguments (kernel_evaluator(..., result)): treated via CALL_WRITES in the contract
                if isinstance(st.value, ast.Call):
                    self.call_stmt(st.value)
            return
        if isinstance(st, ast.Assign):
            tgt = st.targets[0]
            if isinstance(tgt, ast.Name):
                if isinstance(st.value, ast.Call) and self.name_of(st.value.func) in ("_np.zeros", "_np.empty", "_np.ones", "_np.sort", "_np.array", "_np.atleast_2d", "_np.sqrt"):
                    self.private.add(tgt.id)
                    self.walk_reads(st.value)
                    self.env[tgt.id] = self.fresh("arr")
                    return
                if isinstance(st.value, ast.Subscript) and any(isinstance(s, ast.Slice) for s in (st.value.slice.elts if isinstance(st.value.slice, ast.Tuple) else [st.value.slice])):
                    # a view / slice of some array: private handle (reads only)
                    self.walk_reads(st.value)
                    self.private.add(tgt.id)
                    self.env[tgt.id] = self.fresh("view")
                    return
                self.env[tgt.id] = self.ev(st.value)
                return
            if isinstance(tgt, ast.Tuple):
                self.walk_reads(st.value)
                for e in tgt.elts:
                    if isinstance(e, ast.Name):
                        self.env[e.id] = self.fresh("tup")
                return
            if isinstance(tgt, ast.Subscript):
                self.walk_reads(st.value)
                self.store(tgt)
                return
            raise Unsupported("assignment target in prange body")
        if isinstance(st, ast.AugAssign):
            self.walk_reads(st.value)
            if isinstance(st.target, ast.Name):
                cur = self.env.get(st.target.id, self.shared(st.target.id))
                if isinstance(st.op, ast.Add):
                    self.env[st.target.id] = cur + self.ev(st.value)
                else:
                    self.env[st.target.id] = self.fresh("aug")
                return
            if isinstance(st.target, ast.Subscript):
                self.store(st.target, own_read=True)
                return
            raise Unsupported("augmented assignment target")
        if isinstance(st, ast.If):
            self.walk_reads(st.test)
            # both branches contribute stores (over-approximation of the write set)
            before = dict(self.env)
            self.run(st.body)
            env_then = self.env
            self.env = dict(before)
            self.run(st.orelse)
            for k in set(env_then) | set(self.env):
                if k in env_then and k in self.env and env_then[k] is self.env[k]:
                    continue
                self.env[k] = self.fresh("phi")
            return
        if isinstance(st, ast.For):
            self.for_loop(st)
            return
        raise Unsupported("statement %s in prange body" % type(st).__name__)

    def call_stmt(self, call):
        """A call statement: inlined when the callee is declared in the contract (the callee writes through an argument), otherwise recorded."""
        fn = self.name_of(call.func)
        self.calls.append(fn or ast.unparse(call.func))
        if fn not in self.callees:
            return
        target = self.callees[fn]
        target = getattr(target, "py_func", target)
        fd = ast.parse(textwrap.dedent(inspect.getsource(target))).body[0]
        params = [a.arg for a in fd.args.args]
        if call.keywords or len(call.args) != len(params):
            raise Unsupported("inlined call with keywords / arity mismatch")
        child = Collector(self.suffix + "_" + target.__name__, self.shared_consts, self.uf)
        child.constraints = self.constraints
        child.stores = self.stores
        child.reads = self.reads
        child.calls = self.calls
        for prm, arg in zip(params, call.args):
            nm = self.name_of(arg)
            if isinstance(arg, ast.Name) and arg.id in self.env and arg.id not in self.private:
                child.env[prm] = self.env[arg.id]
            elif nm is not None and nm in self.private:
                child.private.add(prm)
            elif nm is not None:
                child.alias[prm] = nm
            else:
                child.env[prm] = self.ev(arg)
        for st in fd.body:
            if isinstance(st, ast.Return):
                break
            child.stmt(st)

    def for_loop(self, st):
        it = st.iter
        if not (isinstance(it, ast.Call) and self.name_of(it.func) == "range" and len(it.args) == 1 and isinstance(st.target, ast.Name)):
            raise Unsupported("inner loop is not `for x in range(e)`")
        n = self.ev(it.args[0])
        x = self.fresh(st.target.id)
        self.constraints += [x >= 0, x < n]
        before = dict(self.env)
        counters = self.counters_of(st.body)
        for k, inc in counters.items():
            # exact summary: at the start of iteration x the counter has been incremented x * inc times by this loop
            self.env[k] = before.get(k, self.shared(k)) + x * inc
        self.env[st.target.id] = x
        self.run(st.body)
        after = self.env
        self.env = dict(before)
        for k in after:
            if k == st.target.id:
                continue
            if k in before and after[k] is before[k]:
                continue
            if k in counters:
                self.env[k] = before.get(k, self.shared(k)) + n * counters[k]
            else:
                self.env[k] = self.fresh("havoc")

    def counters_of(self, body):
        """{name: increments per execution of `body`} for names whose only assignments inside `body` are `name += 1` statements sitting directly in
        (possibly nested) `for x in range(e)` bodies whose trip counts do not depend on names assigned inside `body`"""
        assigned = {}
        for sub in body:
            for node in ast.walk(sub):
                if isinstance(node, ast.AugAssign) and isinstance(node.target, ast.Name):
                    ok = isinstance(node.op, ast.Add) and isinstance(node.value, ast.Constant) and node.value.value == 1
                    assigned.setdefault(node.target.id, []).append(ok)
                elif isinstance(node, ast.Assign):
                    for t in node.targets:
                        for e in (t.elts if isinstance(t, ast.Tuple) else [t]):
                            if isinstance(e, ast.Name):
                                assigned.setdefault(e.id, []).append(False)
                elif isinstance(node, ast.For) and isinstance(node.target, ast.Name):
                    assigned.setdefault(node.target.id, []).append(False)
        cands = [k for k, v in assigned.items() if all(v)]
        out = {}
        for k in cands:
            try:
                out[k] = self.count_incs(body, k, set(assigned))
            except Unsupported:
                pass
        return out

    def count_incs(self, body, k, assigned):
        total = z3.IntVal(0)
        for st in body:
            if isinstance(st, ast.AugAssign) and isinstance(st.target, ast.Name) and st.target.id == k:
                total = total + 1
            elif isinstance(st, ast.For):
                it = st.iter
                if not (isinstance(it, ast.Call) and self.name_of(it.func) == "range" and len(it.args) == 1):
                    raise Unsupported("counter in a non-range loop")
                if any(isinstance(nd, ast.Name) and nd.id in assigned for nd in ast.walk(it.args[0])):
                    raise Unsupported("counter loop with a varying trip count")
                inner = self.count_incs(st.body, k, assigned)
                total = total + self.ev(it.args[0]) * inner
            elif any(isinstance(nd, ast.AugAssign) and isinstance(nd.target, ast.Name) and nd.target.id == k for nd in ast.walk(st)):
                raise Unsupported("counter incremented under a condition")
        return z3.simplify(total)

    def store(self, tgt, own_read=False):
        nm = self.name_of(tgt.value)
        if nm is None:
            raise Unsupported("store through a complex target")
        idx = tgt.slice.elts if isinstance(tgt.slice, ast.Tuple) else [tgt.slice]
        if nm in self.private:
            for s in idx:
                if not isinstance(s, ast.Slice):
                    self.ev(s)
            return
        if any(isinstance(s, ast.Slice) for s in idx):
            raise Unsupported("slice store into shared array %s" % nm)
        iv = tuple(self.ev(s) for s in idx)
        self.stores.append((nm, iv, tgt.lineno, own_read))


def _uf_apply(uf, name, iv):
    key = (name, len(iv))
    if key not in uf:
        uf[key] = _ufun(name + "_%d" % len(iv), len(iv))
    return uf[key](*iv)


def analyse(func, contract, source=None):
    """Returns list of (name, kind, assumptions, goal) obligations for the prange loop of `func`."""
    f = getattr(func, "py_func", func)
    fd = ast.parse(textwrap.dedent(inspect.getsource(f)) if source is None else source).body[0]
    par = None
    for dec in fd.decorator_list:
        if isinstance(dec, ast.Call):
            for kw in dec.keywords:
                if kw.arg == "parallel":
                    par = kw.value.value
    loops = [st for st in fd.body if isinstance(st, ast.For) and isinstance(st.iter, ast.Call) and ast.unparse(st.iter.func).endswith("prange")]
    nested = [n for n in ast.walk(fd) if isinstance(n, ast.For) and isinstance(n.iter, ast.Call) and ast.unparse(n.iter.func).endswith("prange")]
    inner_loops = [n for n in nested if n not in loops]
    for lp in inner_loops:
        # a prange loop inside a branch / another loop: only loops whose body stores into no array are analysed (scalar reductions are what they can do wrong)
        for node in ast.walk(ast.Module(body=lp.body, type_ignores=[])):
            if isinstance(node, (ast.Assign, ast.AugAssign)):
                for t in (node.targets if isinstance(node, ast.Assign) else [node.target]):
                    if isinstance(t, ast.Subscript):
                        raise Unsupported("prange loop that is not at the top level of the function and stores into an array")
    if not loops and not inner_loops:
        raise Unsupported("no prange loop")
    analyse.last_calls = []
    if par is not True:
        return [("%s::sequential" % f.__name__, "frame", [], z3.BoolVal(True))], f.__name__
    obligations = []
    for ordinal, lp in enumerate(inner_loops, 1):
        obligations.append(("%s::no-shared-scalar-write(nested prange @%d)#%d" % (f.__name__, lp.lineno, ordinal), "frame", [], z3.BoolVal(_no_shared_scalar_write_nested(fd, lp))))
    calls_seen = set()
    for ordinal, loop in enumerate(loops, 1):
        obligations.append(("%s::no-shared-scalar-write#%d" % (f.__name__, ordinal), "frame", [], z3.BoolVal(_no_shared_scalar_write(fd, loop))))
        shared, uf = {}, {}
        n = Collector("s", shared, uf).ev(loop.iter.args[0])
        cols = []
        for suffix in ("a", "b"):
            c = Collector(suffix, shared, uf)
            c.callees = dict(contract.get("inline", {}))
            i = z3.Int("i_" + suffix)
            c.env[loop.target.id] = i
            c.constraints += [i >= 0, i < n]
            c.run(loop.body)
            cols.append((c, i))
        (ca, ia), (cb, ib) = cols
        calls_seen.update(ca.calls)
        # launch precondition from the contract, instantiated through the shared symbols
        pre = []
        for t in contract.get("requires", []):
            pre.append(_contract_expr(t, shared, uf))
        base = pre + ca.constraints + cb.constraints + [ia != ib]
        written = {s[0] for s in ca.stores}
        k = 0
        for (na, iva, la, _) in ca.stores:
            for (nb, ivb, lb, _) in cb.stores:
                if na != nb or len(iva) != len(ivb):
                    continue
                k += 1
                goal = z3.Or(*[x != y for x, y in zip(iva, ivb)])
                obligations.append(("%s::disjoint#%d[%s@%d/%d]" % (f.__name__, k, na, la, lb), "disjoint", base, goal))
        # no iteration reads a location another iteration writes
        k = 0
        for (nr, ivr, lr) in ca.reads:
            if nr not in written:
                continue
            k += 1
            if ivr is None:
                obligations.append(("%s::no-foreign-read#%d[%s@%d]" % (f.__name__, k, nr, lr), "frame", base, z3.BoolVal(False)))
                continue
            for (nb, ivb, lb, _) in cb.stores:
                if nb != nr or len(ivb) != len(ivr):
                    continue
                goal = z3.Or(*[x != y for x, y in zip(ivr, ivb)])
                obligations.append(("%s::no-foreign-read#%d[%s@%d vs store@%d]" % (f.__name__, k, nr, lr, lb), "frame", base, goal))
        if not ca.stores:
            raise Unsupported("prange loop without a store into a shared array (result returned through a call?)")
    analyse.last_calls = sorted(calls_seen)
    return obligations, f.__name__


def _assigned_names(stmts):
    out = set()
    for st in stmts:
        for node in ast.walk(st):
            if isinstance(node, (ast.Assign, ast.AugAssign, ast.For)):
                targets = node.targets if isinstance(node, ast.Assign) else [node.target]
                for t in targets:
                    for e in (t.elts if isinstance(t, ast.Tuple) else [t]):
                        if isinstance(e, ast.Name):
                            out.add(e.id)
    return out


def _no_shared_scalar_write(fd, loop):
    """No name assigned in the prange body is bound before the loop (function parameters included) or used after it: all scalars written by an
    iteration are private to it (Numba would otherwise treat them as reductions or race on them)."""
    inside = _assigned_names(loop.body)
    pos = fd.body.index(loop)
    before = _assigned_names(fd.body[:pos]) | {a.arg for a in fd.args.args}
    after = set()
    for st in fd.body[pos + 1:]:
        for node in ast.walk(st):
            if isinstance(node, ast.Name):
                after.add(node.id)
    first_use_is_store = True
    for name in inside & (before | after):
        # a name also bound before the loop is harmless only if every iteration assigns it before reading it; we accept the loop-target style
        # re-use `for i in range(3)` before the prange loop (plain re-binding of an index variable)
        if name in after:
            first_use_is_store = False
        if name in before and not _rebound_first(loop.body, name):
            first_use_is_store = False
    return first_use_is_store


def _no_shared_scalar_write_nested(fd, loop):
    """as _no_shared_scalar_write for a prange loop anywhere in the function: names assigned in its body must not be bound earlier in the function (by source
    position, parameters included) unless every iteration assigns them before reading, and must not be read after the loop"""
    inside = _assigned_names(loop.body)
    before, after = {a.arg for a in fd.args.args}, set()
    for node in ast.walk(fd):
        ln = getattr(node, "lineno", None)
        if ln is None:
            continue
        if ln < loop.lineno and isinstance(node, (ast.Assign, ast.AugAssign, ast.For)):
            before |= _assigned_names([node])
        if ln > loop.end_lineno and isinstance(node, ast.Name) and isinstance(node.ctx, ast.Load):
            after.add(node.id)
    for name in inside & (before | after):
        if name in after:
            return False
        if name in before and not _rebound_first(loop.body, name):
            return False
    return True


def _rebound_first(stmts, name):
    """True if on every path through `stmts` the name is assigned before it is read (definite assignment before use inside one iteration)."""

    def reads(node):
        return any(isinstance(n, ast.Name) and n.id == name and isinstance(n.ctx, ast.Load) for n in ast.walk(node))

    def go(body, defined):
        for st in body:
            if isinstance(st, ast.Assign):
                if not defined and reads(st.value):
                    return False, defined
                for t in st.targets:
                    if not defined and not isinstance(t, ast.Name) and reads(t):
                        return False, defined
                    for e in (t.elts if isinstance(t, ast.Tuple) else [t]):
                        if isinstance(e, ast.Name) and e.id == name:
                            defined = True
            elif isinstance(st, ast.AugAssign):
                if not defined and (reads(st.value) or reads(st.target) or (isinstance(st.target, ast.Name) and st.target.id == name)):
                    return False, defined
            elif isinstance(st, ast.For):
                if not defined and reads(st.iter):
                    return False, defined
                inner = defined or (isinstance(st.target, ast.Name) and st.target.id == name)
                ok, _ = go(st.body, inner)
                if not ok:
                    return False, defined
            elif isinstance(st, ast.If):
                if not defined and reads(st.test):
                    return False, defined
                ok1, d1 = go(st.body, defined)
                ok2, d2 = go(st.orelse, defined)
                if not (ok1 and ok2):
                    return False, defined
                defined = d1 and d2
            else:
                if not defined and reads(st):
                    return False, defined
        return True, defined

    return go(stmts, False)[0]


def writes_through_parameters(func):
    """[(param, lineno)] stores `param[...] = / +=` or `param.attr[...] =` in the body of `func` (purity scan for functions called from prange bodies)."""
    f = getattr(func, "py_func", func)
    fd = ast.parse(textwrap.dedent(inspect.getsource(f))).body[0]
    params = {a.arg for a in fd.args.args}
    rebound = _assigned_names(fd.body)
    out = []
    for node in ast.walk(fd):
        tg = []
        if isinstance(node, ast.Assign):
            tg = node.targets
        elif isinstance(node, ast.AugAssign):
            tg = [node.target]
        for t in tg:
            if isinstance(t, (ast.Subscript, ast.Attribute)):
                b = t
                while isinstance(b, (ast.Subscript, ast.Attribute)):
                    b = b.value
                if isinstance(b, ast.Name) and b.id in params and b.id not in rebound:
                    out.append((b.id, node.lineno))
    return out


class _CE(ast.NodeVisitor):
    pass


def _contract_expr(text, shared, uf):
    """Contract vocabulary for launch preconditions: forall_any(lambda a, b, ...: body), implies, names = shared symbols, X[i, j] = shared arrays."""
    node = ast.parse(text.strip(), mode="eval").body

    def ev(n, env):
        if isinstance(n, ast.Call) and isinstance(n.func, ast.Name) and n.func.id == "forall_any":
            lam = n.args[0]
            vs = [z3.Int("q_" + a.arg) for a in lam.args.args]
            return z3.ForAll(vs, ev(lam.body, dict(env, **{a.arg: v for a, v in zip(lam.args.args, vs)})))
        if isinstance(n, ast.Call) and isinstance(n.func, ast.Name) and n.func.id == "implies":
            return z3.Implies(ev(n.args[0], env), ev(n.args[1], env))
        if isinstance(n, ast.Call) and isinstance(n.func, ast.Name) and n.func.id == "len":
            nm = ast.unparse(n.args[0])
            shared.setdefault("len(" + nm + ")", z3.Int("S_len(" + nm + ")"))
            return shared["len(" + nm + ")"]
        if isinstance(n, ast.BoolOp):
            vals = [ev(v, env) for v in n.values]
            return z3.And(*vals) if isinstance(n.op, ast.And) else z3.Or(*vals)
        if isinstance(n, ast.UnaryOp) and isinstance(n.op, ast.Not):
            return z3.Not(ev(n.operand, env))
        if isinstance(n, ast.Compare):
            terms = [n.left] + n.comparators
            parts = []
            for op, l, r in zip(n.ops, terms, terms[1:]):
                a, b = ev(l, env), ev(r, env)
                parts.append({ast.Lt: a < b, ast.LtE: a <= b, ast.Gt: a > b, ast.GtE: a >= b, ast.Eq: a == b, ast.NotEq: a != b}[type(op)])
            return z3.And(*parts) if len(parts) > 1 else parts[0]
        if isinstance(n, ast.BinOp):
            a, b = ev(n.left, env), ev(n.right, env)
            return {ast.Add: a + b, ast.Sub: a - b, ast.Mult: a * b}[type(n.op)]
        if isinstance(n, ast.Constant):
            return z3.IntVal(n.value)
        if isinstance(n, ast.Name):
            if n.id in env:
                return env[n.id]
            shared.setdefault(n.id, z3.Int("S_" + n.id))
            return shared[n.id]
        if isinstance(n, ast.Attribute):
            nm = ast.unparse(n)
            shared.setdefault(nm, z3.Int("S_" + nm))
            return shared[nm]
        if isinstance(n, ast.Subscript):
            nm = ast.unparse(n.value)
            idx = n.slice.elts if isinstance(n.slice, ast.Tuple) else [n.slice]
            return _uf_apply(uf, nm, tuple(ev(s, env) for s in idx))
        raise Unsupported("contract expression %s" % ast.dump(n)[:80])

    return ev(node, {})


def discharge(assumptions, goal, timeout_ms=10000):
    from vlib import smt

    s = z3.Solver()
    for a in assumptions:
        s.add(a)
    s.add(z3.Not(goal))
    r, model = smt.z3_check(s, timeout_ms / 1000.0, model=True)
    if r == "unknown":
        for opts in ([], ["--enum-inst"]):
            r, model = smt.cvc5_check(s, 3 * timeout_ms / 1000.0, opts)
            if r != "unknown":
                break
    if r == "unsat":
        return "proved", None
    if r == "sat":
        return "refuted", model
    return "unknown", None
