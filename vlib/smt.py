"""Out-of-process SMT calls with a hard wall-clock kill.

z3's in-process `timeout` parameter is not honoured inside some theory propagation loops (observed: a worker spinning for 19 minutes in
smt::theory_lra::propagate_core under a 10 s timeout), which would turn a slow query into a hung check.  Every query is therefore written as SMT-LIB
text (Solver.to_smt2) and given to the z3 5.1 command line binary (`z3-new`, the z3-solver wheel's CLI; /usr/bin/z3 4.8.12 as a fallback) in a
subprocess that is killed when the budget is exceeded; a killed or failed solver run is `unknown`, never a verdict."""

import os
import shutil
import subprocess
import tempfile

Z3_BIN = shutil.which("z3-new") or "/usr/local/bin/z3-new"
if not os.path.exists(Z3_BIN):
    Z3_BIN = "/usr/bin/z3"
CVC5_BIN = "/usr/bin/cvc5"


def _run(cmd, text, timeout_s):
    with tempfile.NamedTemporaryFile("w", suffix=".smt2", delete=False) as f:
        f.write(text)
        fn = f.name
    try:
        try:
            out = subprocess.run(cmd + [fn], capture_output=True, text=True, timeout=timeout_s + 5).stdout.strip()
        except subprocess.TimeoutExpired:
            return "unknown", ""
        first = out.split("\n", 1)[0].strip()
        rest = out.split("\n", 1)[1] if "\n" in out else ""
        if first in ("sat", "unsat"):
            return first, rest
        return "unknown", out[:400]
    finally:
        os.unlink(fn)


def z3_check(solver, timeout_s, model=False):
    """(sat|unsat|unknown, model text) for the assertions of a z3.Solver, decided by the z3 binary in a subprocess"""
    text = solver.to_smt2()
    if model:
        text += "\n(get-model)\n"
    return _run([Z3_BIN, "-T:%d" % max(1, int(timeout_s))], text, timeout_s)


def cvc5_check(solver, timeout_s, opts=()):
    text = "(set-logic ALL)\n" + solver.to_smt2()
    return _run([CVC5_BIN] + list(opts) + ["--tlimit=%d" % int(1000 * timeout_s)], text, timeout_s)
