"""Stand-in for scipy.sparse.coo_matrix when real glue code is executed on proxy values.

Assumed contract of scipy (listed in the evidence): coo_matrix((data, (rows, cols)), shape).tocsr() is the matrix with
M[r, c] = sum of data[i] over all i with (rows[i], cols[i]) == (r, c); `@` is the matrix product.
The stub builds that matrix densely with object entries.
"""

import contextlib

import numpy as np


class DenseMatrix(np.ndarray):
    def tocsr(self):
        return self

    def tocoo(self):
        return self

    def toarray(self):
        return np.asarray(self)

    def transpose(self, *a):
        return np.asarray(self).T.view(DenseMatrix)

    def conjugate(self):
        return self

    def __matmul__(self, other):
        o = other.toarray() if hasattr(other, "toarray") else np.asarray(other)
        return (np.asarray(self, dtype=object) @ np.asarray(o, dtype=object)).view(DenseMatrix)

    def __rmatmul__(self, other):
        o = other.toarray() if hasattr(other, "toarray") else np.asarray(other)
        return (np.asarray(o, dtype=object) @ np.asarray(self, dtype=object)).view(DenseMatrix)


def coo_matrix(arg, shape=None, dtype=None):
    data, (rows, cols) = arg
    out = np.empty(shape, dtype=object)
    out.fill(0)
    for v, r, c in zip(data, rows, cols):
        out[int(r), int(c)] = out[int(r), int(c)] + v
    return out.view(DenseMatrix)


@contextlib.contextmanager
def patched_scipy():
    import scipy.sparse

    saved = scipy.sparse.coo_matrix
    scipy.sparse.coo_matrix = coo_matrix
    try:
        yield
    finally:
        scipy.sparse.coo_matrix = saved
