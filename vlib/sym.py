"""P-engine term language: exponential Laurent polynomials over Q(i) with opaque atoms.

A `Sym` is a finite sum   sum_t  c_t * m_t * E(z_t)
  c_t : Fraction
  m_t : monomial = product of atoms with (possibly negative) integer exponents; the imaginary unit
        `I` is atom 0 with the relation I*I = -1 applied eagerly
  E(z): the exponential exp(z) of a Laurent polynomial z (no E inside z).  cos a = (E(Ia)+E(-Ia))/2,
        sin a = (E(Ia)-E(-Ia))/(2I), exp a = E(a); E(z1)E(z2) = E(z1+z2).

Atoms
  var  : free real variable (flags: positive / nonzero)
  sqrt : r with r*r = payload (principal square root of a polynomial that is assumed > 0)
  alg  : algebraic indeterminate s with s*s = payload and no sign information (used for sin/cos
         parametrisations of rotations: s*s = 1 - c*c)
  inv  : v with v*payload = 1 (reciprocal of a multi-term polynomial, assumed non-zero)
  fn   : uninterpreted function application name(arg_1..arg_n) (contract stubs), hash-consed on the
         normal forms of the arguments; with an optional numeric interpretation for witness search

Decision procedure `is_zero`: clear negative exponents and `inv` atoms by multiplying through (sound
where the divisors are non-zero -- recorded in `ctx.nonzero_assumed`), reduce squares of sqrt/alg atoms
in descending creation order, compare with the empty sum.  Atoms are otherwise independent
indeterminates and E(z) for syntactically different z are independent, so a proved identity holds for
every real assignment of the variables (soundness); a non-zero normal form is not by itself a
refutation -- `find_witness` looks for a numeric point where the expression is non-zero.
"""

from __future__ import annotations

import cmath
import math
import random
from fractions import Fraction as Fr

import numpy as np


class Undecided(Exception):
    """The engine cannot decide (outside the supported fragment). Never reported as a violation."""


INV4PI = 1.0 / (4 * math.pi)


class Atom:
    __slots__ = ("id", "kind", "name", "payload", "positive", "nonzero", "args", "numeric")

    def __init__(self, id, kind, name, payload=None, positive=False, nonzero=False, args=None, numeric=None):
        self.id = id
        self.kind = kind
        self.name = name
        self.payload = payload
        self.positive = positive
        self.nonzero = nonzero or positive
        self.args = args
        self.numeric = numeric

    def __repr__(self):
        return self.name


class Context:
    def __init__(self):
        self.atoms = []
        self.by_key = {}
        self.nonzero_assumed = set()
        self.float_constants = {}
        self._new("I", "I")

    def _new(self, kind, name, **kw):
        a = Atom(len(self.atoms), kind, name, **kw)
        self.atoms.append(a)
        return a


CTX = Context()


def reset():
    global CTX
    CTX = Context()
    return CTX


# ---------------------------------------------------------------------------------------------
# monomials and plain (Laurent) polynomials: dict mono -> Fraction, mono = tuple((atom_id, exp),...)
# ---------------------------------------------------------------------------------------------

ONE = ()


def mono_mul(a, b):
    """Product of two monomials; returns (sign, mono) because I*I = -1."""
    if not a:
        return 1, b
    if not b:
        return 1, a
    out = []
    i = j = 0
    sign = 1
    la, lb = len(a), len(b)
    while i < la and j < lb:
        ai, ae = a[i]
        bi, be = b[j]
        if ai == bi:
            e = ae + be
            if ai == 0:
                # I has exponent 0/1 only
                if e >= 2:
                    sign = -sign
                    e -= 2
            if e:
                out.append((ai, e))
            i += 1
            j += 1
        elif ai < bi:
            out.append(a[i])
            i += 1
        else:
            out.append(b[j])
            j += 1
    out.extend(a[i:])
    out.extend(b[j:])
    return sign, tuple(out)


def mono_pow(m, n):
    if n == 0:
        return 1, ONE
    sign = 1
    out = []
    for ai, ae in m:
        e = ae * n
        if ai == 0:
            # I^e
            e4 = e % 4
            if e4 >= 2:
                sign = -sign
            e = e4 % 2
        if e:
            out.append((ai, e))
    return sign, tuple(out)


def p_add(a, b, sb=1):
    out = dict(a)
    for m, c in b.items():
        v = out.get(m, 0) + sb * c
        if v:
            out[m] = v
        else:
            out.pop(m, None)
    return out


def p_mul(a, b):
    out = {}
    for ma, ca in a.items():
        for mb, cb in b.items():
            s, m = mono_mul(ma, mb)
            v = out.get(m, 0) + s * ca * cb
            if v:
                out[m] = v
            else:
                out.pop(m, None)
    return out


def p_scale(a, c):
    if not c:
        return {}
    return {m: v * c for m, v in a.items()}


def p_pow(a, n):
    assert n >= 0
    out = {ONE: Fr(1)}
    base = a
    while n:
        if n & 1:
            out = p_mul(out, base)
        n >>= 1
        if n:
            base = p_mul(base, base)
    return out


def p_key(a):
    return tuple(sorted(a.items()))


def p_from_key(k):
    return dict(k)


def _reduce_squares_poly(p):
    """Rewrite positive powers >= 2 of sqrt/alg atoms using a*a = payload (descending atom id)."""
    while True:
        target = -1
        for m in p:
            for ai, ae in m:
                if ae >= 2 and ai > target and CTX.atoms[ai].kind in ("sqrt", "alg"):
                    target = ai
        if target < 0:
            return p
        rho = CTX.atoms[target].payload
        out = {}
        for m, c in p.items():
            e = 0
            for ai, ae in m:
                if ai == target:
                    e = ae
                    break
            if e >= 2:
                k, r = divmod(e, 2)
                rest = tuple((ai, ae) for ai, ae in m if ai != target)
                if r:
                    _, rest = mono_mul(rest, ((target, 1),))
                term = p_mul({rest: c}, p_pow(rho, k))
                out = p_add(out, term)
            else:
                v = out.get(m, 0) + c
                if v:
                    out[m] = v
                else:
                    out.pop(m, None)
        p = out


# ---------------------------------------------------------------------------------------------
# Sym
# ---------------------------------------------------------------------------------------------

ZKEY0 = ()


def _zadd(z1, z2):
    if not z1:
        return z2
    if not z2:
        return z1
    return p_key(_reduce_squares_poly(p_add(dict(z1), dict(z2))))


def _rationalise(x):
    """Float literal -> exact term (DESIGN 2.3): simple rational, or simple rational multiple of 1/(4 pi) or pi."""
    if isinstance(x, (bool, np.bool_)):
        return Fr(int(x)), None
    if isinstance(x, (int, np.integer)):
        return Fr(int(x)), None
    x = float(x)
    if x == 0.0:
        return Fr(0), None
    if math.isnan(x) or math.isinf(x):
        raise Undecided("non-finite float constant")
    for scale, name in ((1.0, None), (INV4PI, "inv4pi"), (math.pi, "pi")):
        q = Fr(x / scale).limit_denominator(1 << 20)
        if q != 0 and abs(float(q) * scale - x) <= 8 * abs(x) * 2.3e-16:
            # prefer small denominators for the plain rational reading
            if name is None and q.denominator > 4096:
                continue
            if name is not None and q.denominator > 64:
                continue
            return q, name
    raise Undecided("float constant %r is not a simple rational (multiple of 1/(4pi) or pi)" % x)


class Sym:
    __slots__ = ("t",)

    def __init__(self, terms=None):
        self.t = terms if terms is not None else {}

    # -- construction -------------------------------------------------------------------------
    @staticmethod
    def const(c):
        if isinstance(c, Sym):
            return c
        if isinstance(c, Fr):
            return Sym({(ONE, ZKEY0): c}) if c else Sym()
        if isinstance(c, (complex, np.complexfloating)):
            c = complex(c)
            return Sym.const(c.real) + Sym.const(c.imag) * I()
        q, name = _rationalise(c)
        if not q:
            return Sym()
        if name is None:
            return Sym({(ONE, ZKEY0): q})
        return Sym({(((named_constant(name).id, 1),), ZKEY0): q})

    @staticmethod
    def atom(a, e=1):
        return Sym({(((a.id, e),), ZKEY0): Fr(1)})

    def is_const(self):
        return all(k == (ONE, ZKEY0) for k in self.t)

    def const_value(self):
        if not self.t:
            return Fr(0)
        if self.is_const():
            return self.t[(ONE, ZKEY0)]
        return None

    # -- arithmetic ---------------------------------------------------------------------------
    @staticmethod
    def _coerce(o):
        if isinstance(o, Sym):
            return o
        if isinstance(o, (int, float, complex, Fr, np.number, np.bool_, bool)):
            return Sym.const(o)
        return None

    def __add__(self, o):
        o = Sym._coerce(o)
        if o is None:
            return NotImplemented
        out = dict(self.t)
        for k, c in o.t.items():
            v = out.get(k, 0) + c
            if v:
                out[k] = v
            else:
                out.pop(k, None)
        return Sym(out)

    __radd__ = __add__

    def __neg__(self):
        return Sym({k: -c for k, c in self.t.items()})

    def __pos__(self):
        return self

    def __sub__(self, o):
        o = Sym._coerce(o)
        if o is None:
            return NotImplemented
        return self + (-o)

    def __rsub__(self, o):
        o = Sym._coerce(o)
        if o is None:
            return NotImplemented
        return o + (-self)

    def __mul__(self, o):
        o = Sym._coerce(o)
        if o is None:
            return NotImplemented
        out = {}
        for (ma, za), ca in self.t.items():
            for (mb, zb), cb in o.t.items():
                s, m = mono_mul(ma, mb)
                k = (m, _zadd(za, zb))
                v = out.get(k, 0) + s * ca * cb
                if v:
                    out[k] = v
                else:
                    out.pop(k, None)
        return Sym(out)

    __rmul__ = __mul__

    def _single_term(self):
        if len(self.t) == 1:
            (k, c), = self.t.items()
            return k, c
        return None

    def reciprocal(self):
        if not self.t:
            raise ZeroDivisionError("division by the zero term")
        st = self._single_term()
        if st is not None:
            (m, z), c = st
            s, mi = mono_pow(m, -1)
            # I^-1 = -I handled: mono_pow gives exponent mod 2 with sign
            for ai, ae in m:
                a = CTX.atoms[ai]
                if ai != 0 and not a.nonzero and a.kind == "var":
                    CTX.nonzero_assumed.add(a.name)
            zi = p_key(p_scale(dict(z), Fr(-1))) if z else ZKEY0
            return Sym({(mi, zi): Fr(s) / c})
        # multi-term: reciprocal atom (no E allowed inside)
        p = self.as_poly()
        if p is None:
            raise Undecided("reciprocal of a sum containing exponentials")
        return inv_sym(p)

    def __truediv__(self, o):
        o = Sym._coerce(o)
        if o is None:
            return NotImplemented
        return self * o.reciprocal()

    def __rtruediv__(self, o):
        o = Sym._coerce(o)
        if o is None:
            return NotImplemented
        return o * self.reciprocal()

    def __pow__(self, n):
        if isinstance(n, Sym):
            v = n.const_value()
            if v is None:
                raise Undecided("symbolic exponent")
            n = v
        if isinstance(n, (float, np.floating)):
            if float(n) == int(n):
                n = int(n)
            elif float(n) == 0.5:
                return self.sqrt()
            elif float(n) == -0.5:
                return self.sqrt().reciprocal()
            elif float(n) == 1.5:
                return self.sqrt() * self
            elif float(n) == -1.5:
                return (self.sqrt() * self).reciprocal()
            else:
                raise Undecided("non-integer power %r" % n)
        if isinstance(n, Fr):
            if n.denominator == 1:
                n = int(n)
            elif n.denominator == 2:
                r = self.sqrt()
                return r ** int(n.numerator)
            else:
                raise Undecided("fractional power")
        n = int(n)
        if n < 0:
            return (self ** (-n)).reciprocal()
        out = Sym.const(1)
        base = self
        while n:
            if n & 1:
                out = out * base
            n >>= 1
            if n:
                base = base * base
        return out

    def __rpow__(self, o):
        raise Undecided("symbolic exponent")

    # -- structure ----------------------------------------------------------------------------
    def as_poly(self):
        """dict mono->coeff if no exponentials are present, else None."""
        out = {}
        for (m, z), c in self.t.items():
            if z:
                return None
            out[m] = c
        return out

    @staticmethod
    def from_poly(p):
        return Sym({(m, ZKEY0): c for m, c in p.items() if c})

    def key(self):
        return tuple(sorted(normalize(self).t.items()))

    def __hash__(self):
        return hash(self.key())

    # -- comparisons (decision points) ----------------------------------------------------------
    def _decide_zero(self):
        """True / False if provably zero / provably non-zero, else Undecided."""
        if is_zero(self):
            return True
        st = normalize(self)._single_term()
        if st is not None:
            (m, z), c = st
            if all(ai == 0 or CTX.atoms[ai].nonzero or CTX.atoms[ai].kind in ("sqrt", "inv") for ai, ae in m):
                return False
        s = sign_of(self)
        if s is not None and s != 0:
            return False
        raise Undecided("branch on a symbolic value that is neither identically zero nor declared non-zero: %s" % self)

    def __eq__(self, o):
        o = Sym._coerce(o)
        if o is None:
            return NotImplemented
        return (self - o)._decide_zero()

    def __ne__(self, o):
        o = Sym._coerce(o)
        if o is None:
            return NotImplemented
        return not (self - o)._decide_zero()

    def _cmp(self, o, op):
        o = Sym._coerce(o)
        if o is None:
            return NotImplemented
        d = self - o
        s = sign_of(d)
        if s is None:
            raise Undecided("order comparison on a symbolic value: %s" % d)
        return op(s, 0)

    def __lt__(self, o):
        return self._cmp(o, lambda a, b: a < b)

    def __le__(self, o):
        return self._cmp(o, lambda a, b: a <= b)

    def __gt__(self, o):
        return self._cmp(o, lambda a, b: a > b)

    def __ge__(self, o):
        return self._cmp(o, lambda a, b: a >= b)

    def __bool__(self):
        return not self._decide_zero()

    def __abs__(self):
        im = normalize(self.imag)
        if im.t:
            # complex modulus sqrt(re^2 + im^2) (exact root when the radicand is a square of positive atoms)
            re = normalize(self.real)
            return sym_sqrt(re * re + im * im)
        s = sign_of(self)
        if s is None:
            raise Undecided("abs of a symbolic value of unknown sign")
        return self if s >= 0 else -self

    def __float__(self):
        v = self.const_value()
        if v is None:
            raise Undecided("float() of a symbolic value")
        return float(v)

    def __int__(self):
        v = self.const_value()
        if v is None or v.denominator != 1:
            raise Undecided("int() of a symbolic value")
        return int(v)

    __index__ = __int__

    def __complex__(self):
        return complex(evaluate(self, {}))

    # -- numpy ufunc method dispatch for object arrays -----------------------------------------------
    def sqrt(self):
        return sym_sqrt(self)

    def cos(self):
        iz = self * I()
        return (sym_E(iz) + sym_E(-iz)) * Fr(1, 2)

    def sin(self):
        iz = self * I()
        return (sym_E(iz) - sym_E(-iz)) * Fr(1, 2) * (-I())

    def exp(self):
        return sym_E(self)

    def conjugate(self):
        return conj(self)

    conj = conjugate

    @property
    def real(self):
        return (self + conj(self)) * Fr(1, 2)

    @property
    def imag(self):
        return (self - conj(self)) * Fr(1, 2) * (-I())

    def __repr__(self):
        return to_str(self)


def to_str(s, limit=12):
    if not s.t:
        return "0"
    parts = []
    for n, ((m, z), c) in enumerate(sorted(s.t.items(), key=lambda kv: repr(kv[0]))):
        if n >= limit:
            parts.append("... (%d terms)" % len(s.t))
            break
        f = [str(c)] if c != 1 or (not m and not z) else []
        for ai, ae in m:
            nm = CTX.atoms[ai].name
            f.append(nm if ae == 1 else "%s^%d" % (nm, ae))
        if z:
            f.append("E(%s)" % to_str(Sym.from_poly(dict(z)), 6))
        parts.append("*".join(f))
    return " + ".join(parts)


# ---------------------------------------------------------------------------------------------
# atom constructors
# ---------------------------------------------------------------------------------------------


def I():
    return Sym({(((0, 1),), ZKEY0): Fr(1)})


def var(name, positive=False, nonzero=False):
    key = ("var", name)
    a = CTX.by_key.get(key)
    if a is None:
        a = CTX._new("var", name, positive=positive, nonzero=nonzero)
        CTX.by_key[key] = a
    return Sym.atom(a)


def named_constant(name):
    key = ("var", name)
    a = CTX.by_key.get(key)
    if a is None:
        a = CTX._new("var", name, positive=True)
        a.numeric = {"inv4pi": INV4PI, "pi": math.pi}[name]
        CTX.by_key[key] = a
    return a


def alg(name, square):
    """Algebraic indeterminate with name*name = square (a Sym without exponentials)."""
    key = ("alg", name)
    a = CTX.by_key.get(key)
    if a is None:
        p = _reduce_squares_poly(normalize(Sym._coerce(square)).as_poly())
        a = CTX._new("alg", name, payload=p)
        CTX.by_key[key] = a
    return Sym.atom(a)


def inv_sym(p):
    """Reciprocal of a multi-term polynomial as a term: (1/lead) * inv-atom of the monic-normalised polynomial."""
    p = _reduce_squares_poly(p)
    k = p_key(p)
    lead = k[0][1]
    pn = p_scale(p, 1 / lead)
    key = ("inv", p_key(pn))
    a = CTX.by_key.get(key)
    if a is None:
        a = CTX._new("inv", "inv%d" % len(CTX.atoms), payload=pn, nonzero=True)
        CTX.by_key[key] = a
    return Sym({(((a.id, 1),), ZKEY0): 1 / lead})


def sym_sqrt(x):
    x = Sym._coerce(x)
    if not x.t:
        return Sym()
    p = normalize(x).as_poly()
    if p is None:
        raise Undecided("sqrt of an expression containing exponentials")
    c = Sym.from_poly(p).const_value()
    if c is not None:
        if c < 0:
            raise Undecided("sqrt of a negative constant")
        n, d = c.numerator, c.denominator
        rn, rd = math.isqrt(n), math.isqrt(d)
        if rn * rn == n and rd * rd == d:
            return Sym.const(Fr(rn, rd))
    # single term with even exponents of positive atoms: exact root
    if len(p) == 1:
        (m, c), = p.items()
        n, d = c.numerator, c.denominator
        if c > 0 and math.isqrt(n) ** 2 == n and math.isqrt(d) ** 2 == d:
            ok = all(ae % 2 == 0 and (CTX.atoms[ai].positive or CTX.atoms[ai].kind == "sqrt") for ai, ae in m)
            if ok:
                return Sym({(tuple((ai, ae // 2) for ai, ae in m), ZKEY0): Fr(math.isqrt(n), math.isqrt(d))})
    # pull out a common monomial factor with even exponents of positive atoms, and a rational square content
    pull = _common_even_positive_factor(p)
    if pull is not None:
        fac_m, rest = pull
        root = sym_sqrt(Sym.from_poly(rest))
        return root * Sym({(tuple((ai, ae // 2) for ai, ae in fac_m), ZKEY0): Fr(1)})
    # canonical rational content: sqrt(g * q) with q primitive (integer coefficients, gcd 1) = (s / b) * sqrt(t * q) where g = a / b and
    # a * b = s^2 * t with t square-free; makes sqrt(p / 36) and sqrt(p) / 6 the same term (needed for refined / barycentric geometry)
    coeffs = list(p.values())
    if coeffs and all(c.imag == 0 if isinstance(c, complex) else True for c in coeffs) and all(isinstance(c, Fr) for c in coeffs):
        num = 0
        den = 1
        for c in coeffs:
            num = math.gcd(num, abs(c.numerator))
            den = den * c.denominator // math.gcd(den, c.denominator)
        if num and (num != 1 or den != 1):
            ab = num * den
            sq, t, f = 1, 1, 2
            r = ab
            while f * f <= r:
                cnt = 0
                while r % f == 0:
                    r //= f
                    cnt += 1
                sq *= f ** (cnt // 2)
                if cnt % 2:
                    t *= f
                f += 1
            t *= r
            outer = Fr(sq, den)
            scale = Fr(t) / Fr(num, den)      # p * scale = t * primitive
            if outer != 1:
                p2 = p_scale(p, scale)
                return sym_sqrt(Sym.from_poly(p2)) * Sym.const(outer)
    key = ("sqrt", p_key(p))
    a = CTX.by_key.get(key)
    if a is None:
        a = CTX._new("sqrt", "r%d" % len(CTX.atoms), payload=p, positive=True)
        CTX.by_key[key] = a
    return Sym.atom(a)


def _common_even_positive_factor(p):
    common = None
    for m in p:
        d = {ai: ae for ai, ae in m}
        if common is None:
            common = d
        else:
            common = {ai: (min(ae, d[ai]) if ae > 0 else max(ae, d[ai])) for ai, ae in common.items()
                      if ai in d and (ae > 0) == (d[ai] > 0)}
        if not common:
            return None
    fac = []
    for ai, ae in sorted(common.items()):
        a = CTX.atoms[ai]
        if not (a.positive or a.kind == "sqrt"):
            continue
        e = ae - (ae % 2) if ae > 0 else ae + ((-ae) % 2)
        if e:
            fac.append((ai, e))
    if not fac:
        return None
    fac = tuple(fac)
    _, finv = mono_pow(fac, -1)
    rest = {}
    for m, c in p.items():
        _, mm = mono_mul(m, finv)
        rest[mm] = c
    return fac, rest


def sym_E(z):
    z = Sym._coerce(z)
    if not z.t:
        return Sym.const(1)
    p = normalize(z).as_poly()
    if p is None:
        raise Undecided("nested exponentials")
    # constant part: only 0 allowed (exp of rational constants are not modelled)
    if ONE in p:
        raise Undecided("exponential with a constant term in the exponent")
    return Sym({(ONE, p_key(p)): Fr(1)})


def fn(name, args, numeric=None):
    """Uninterpreted function application (contract stub)."""
    keys = tuple(Sym._coerce(a).key() for a in args)
    key = ("fn", name, keys)
    a = CTX.by_key.get(key)
    if a is None:
        a = CTX._new("fn", "%s#%d" % (name, len(CTX.atoms)), args=[Sym._coerce(x) for x in args], numeric=numeric)
        CTX.by_key[key] = a
    return Sym.atom(a)


# ---------------------------------------------------------------------------------------------
# normal form, zero test, sign, conjugate, derivative, evaluation
# ---------------------------------------------------------------------------------------------


def normalize(s):
    """Reduce positive squares of sqrt/alg atoms in every coefficient polynomial (E-exponents are kept reduced)."""
    need = False
    for (m, z) in s.t:
        for ai, ae in m:
            if ae >= 2 and CTX.atoms[ai].kind in ("sqrt", "alg"):
                need = True
                break
        if need:
            break
    if not need:
        return s
    groups = {}
    for (m, z), c in s.t.items():
        groups.setdefault(z, {})[m] = c
    out = {}
    for z, p in groups.items():
        for m, c in _reduce_squares_poly(p).items():
            out[(m, z)] = c
    return Sym(out)


def _clear_denominators(s):
    """Multiply through by monomials / polynomials so no negative exponents and no inv atoms remain."""
    # negative exponents
    groups = {}
    for (m, z), c in s.t.items():
        groups.setdefault(z, {})[m] = c
    worst = {}
    for p in groups.values():
        for m in p:
            for ai, ae in m:
                if ae < 0 and ai != 0:
                    if ae < worst.get(ai, 0):
                        worst[ai] = ae
    if worst:
        mult = tuple(sorted((ai, -ae) for ai, ae in worst.items()))
        for z in groups:
            p = {}
            for m, c in groups[z].items():
                sgn, mm = mono_mul(m, mult)
                p[mm] = p.get(mm, 0) + sgn * c
            groups[z] = p
    # inv atoms, descending id
    while True:
        target = -1
        for p in groups.values():
            for m in p:
                for ai, ae in m:
                    if ai > target and CTX.atoms[ai].kind == "inv":
                        target = ai
        if target < 0:
            break
        kmax = 0
        for p in groups.values():
            for m in p:
                for ai, ae in m:
                    if ai == target:
                        kmax = max(kmax, ae)
        pay = CTX.atoms[target].payload
        pows = [None] * (kmax + 1)
        pows[0] = {ONE: Fr(1)}
        for k in range(1, kmax + 1):
            pows[k] = p_mul(pows[k - 1], pay)
        for z in list(groups):
            out = {}
            for m, c in groups[z].items():
                e = 0
                for ai, ae in m:
                    if ai == target:
                        e = ae
                rest = tuple((ai, ae) for ai, ae in m if ai != target)
                out = p_add(out, p_mul({rest: c}, pows[kmax - e]))
            # products may have produced new negative exponents? payloads are polynomials built from
            # normalised terms; negative exponents inside a payload are cleared by recursion below
            groups[z] = out
        # payload may itself contain negative exponents
        again = {}
        for p in groups.values():
            for m in p:
                for ai, ae in m:
                    if ae < 0 and ai != 0 and ae < again.get(ai, 0):
                        again[ai] = ae
        if again:
            mult = tuple(sorted((ai, -ae) for ai, ae in again.items()))
            for z in groups:
                p = {}
                for m, c in groups[z].items():
                    sgn, mm = mono_mul(m, mult)
                    p[mm] = p.get(mm, 0) + sgn * c
                groups[z] = p
    return groups


def _split_by_fn(s):
    """Partition a term by its uninterpreted-function monomial: fn atoms are independent indeterminates that occur only as
    polynomial factors, so the term is zero iff the coefficient of every distinct fn-monomial is zero (keeps each query small)."""
    parts = {}
    for (m, z), c in s.t.items():
        fn_part = tuple((ai, ae) for ai, ae in m if CTX.atoms[ai].kind == "fn")
        if fn_part:
            rest = tuple((ai, ae) for ai, ae in m if CTX.atoms[ai].kind != "fn")
        else:
            rest = m
        d = parts.setdefault(fn_part, {})
        k = (rest, z)
        v = d.get(k, 0) + c
        if v:
            d[k] = v
        else:
            d.pop(k, None)
    return parts


def is_zero(s):
    if not s.t:
        return True
    if any(CTX.atoms[ai].kind == "fn" for (m, z) in s.t for ai, ae in m):
        # fn atoms inside payloads of other atoms would break independence of the split; they never are (payloads are polynomials
        # of var/sqrt/alg/inv atoms built before any fn atom is multiplied in) -- checked here
        for (m, z) in s.t:
            for ai, ae in m:
                a = CTX.atoms[ai]
                if a.kind in ("sqrt", "alg", "inv") and any(CTX.atoms[bi].kind == "fn" for mm in a.payload for bi, be in mm):
                    break
            else:
                continue
            break
        else:
            return all(_is_zero_nofn(Sym(d)) for d in _split_by_fn(s).values())
    return _is_zero_nofn(s)


def _is_zero_nofn(s):
    if not s.t:
        return True
    groups = _clear_denominators(s)
    for z, p in groups.items():
        p = {m: c for m, c in p.items() if c}
        p = _reduce_squares_poly(p)
        if any(c for c in p.values()):
            return False
    return True


def equal(a, b):
    return is_zero(Sym._coerce(a) - Sym._coerce(b))


def sign_of(s):
    """+1/-1/0 when the sign is syntactically evident (single term of positive atoms), else None."""
    if not s.t:
        return 0
    s = normalize(s)
    sgn = None
    for (m, z), c in s.t.items():
        if z:
            return None
        for ai, ae in m:
            a = CTX.atoms[ai]
            if ai == 0 or not a.positive:
                if not (ae % 2 == 0 and a.kind == "var" and a.nonzero):
                    return None
        t = 1 if c > 0 else -1
        if sgn is None:
            sgn = t
        elif sgn != t:
            return None
    return sgn


def conj(s):
    """Complex conjugate: variables and atoms are real, I -> -I, E(z) -> E(conj z)."""
    s = Sym._coerce(s)
    out = {}
    for (m, z), c in s.t.items():
        sign = -1 if (m and m[0][0] == 0) else 1
        zc = ZKEY0
        if z:
            zc = p_key({mm: (-cc if (mm and mm[0][0] == 0) else cc) for mm, cc in z})
        k = (m, zc)
        v = out.get(k, 0) + sign * c
        if v:
            out[k] = v
        else:
            out.pop(k, None)
    return Sym(out)


def diff(s, v):
    """Partial derivative with respect to the variable term `v` (a Sym made by var())."""
    (k, c), = v.t.items()
    vid = k[0][0][0]
    memo = {}

    def d_atom(ai):
        if ai in memo:
            return memo[ai]
        a = CTX.atoms[ai]
        if ai == vid:
            r = Sym.const(1)
        elif a.kind in ("var", "I"):
            r = Sym()
        elif a.kind in ("sqrt", "alg"):
            dp = d_poly(a.payload)
            r = dp * Sym.atom(a, -1) * Fr(1, 2) if dp.t else Sym()
        elif a.kind == "inv":
            dp = d_poly(a.payload)
            r = -dp * Sym.atom(a, 2) if dp.t else Sym()
        else:
            raise Undecided("derivative of an uninterpreted function")
        memo[ai] = r
        return r

    def d_mono(m):
        out = Sym()
        for idx, (ai, ae) in enumerate(m):
            da = d_atom(ai)
            if not da.t:
                continue
            rest = m[:idx] + (((ai, ae - 1),) if ae != 1 else ()) + m[idx + 1:]
            out = out + Sym({(rest, ZKEY0): Fr(ae)}) * da
        return out

    def d_poly(p):
        out = Sym()
        for m, c in p.items():
            out = out + d_mono(m) * c
        return out

    out = Sym()
    for (m, z), c in s.t.items():
        base = Sym({(ONE, z): Fr(1)})
        t = d_mono(m) * base
        if z:
            t = t + Sym({(m, z): Fr(1)}) * d_poly(dict(z))
        out = out + t * c
    return out


def subs(s, mapping):
    """Substitute variables (keys: Sym made by var()) by terms; atoms are rebuilt through their constructors."""
    idmap = {}
    for k, v in mapping.items():
        (kk, c), = k.t.items()
        idmap[kk[0][0][0]] = Sym._coerce(v)
    memo = {}

    def s_atom(ai):
        if ai in memo:
            return memo[ai]
        a = CTX.atoms[ai]
        if ai in idmap:
            r = idmap[ai]
        elif a.kind in ("var", "I"):
            r = Sym.atom(a)
        elif a.kind == "sqrt":
            r = sym_sqrt(s_poly(a.payload))
        elif a.kind == "alg":
            raise Undecided("substitution inside an algebraic atom")
        elif a.kind == "inv":
            r = s_poly(a.payload).reciprocal()
        else:
            r = fn(a.name.split("#")[0], [subs(x, mapping) for x in a.args], a.numeric)
        memo[ai] = r
        return r

    def s_mono(m):
        out = Sym.const(1)
        for ai, ae in m:
            out = out * (s_atom(ai) ** ae)
        return out

    def s_poly(p):
        out = Sym()
        for m, c in p.items():
            out = out + s_mono(m) * c
        return out

    out = Sym()
    for (m, z), c in s.t.items():
        t = s_mono(m) * c
        if z:
            t = t * sym_E(s_poly(dict(z)))
        out = out + t
    return out


def evaluate(s, env):
    """Numeric value (complex) for an assignment env: {variable name -> number}."""
    memo = {}

    def v_atom(ai):
        if ai in memo:
            return memo[ai]
        a = CTX.atoms[ai]
        if a.kind == "I":
            r = 1j
        elif a.kind == "var":
            if a.name in env:
                r = env[a.name]
            elif a.numeric is not None:
                r = a.numeric
            else:
                raise KeyError("no value for variable %s" % a.name)
        elif a.kind == "sqrt":
            r = cmath.sqrt(v_poly(a.payload))
        elif a.kind == "alg":
            if a.name in env:
                r = env[a.name]
            else:
                r = cmath.sqrt(v_poly(a.payload))
        elif a.kind == "inv":
            r = 1.0 / v_poly(a.payload)
        else:
            if a.numeric is None:
                raise KeyError("no numeric interpretation for %s" % a.name)
            r = a.numeric(*[evaluate(x, env) for x in a.args])
        memo[ai] = r
        return r

    def v_mono(m):
        out = 1.0
        for ai, ae in m:
            out = out * v_atom(ai) ** ae
        return out

    def v_poly(p):
        out = 0.0
        for m, c in p.items():
            out = out + v_mono(m) * float(c)
        return out

    out = 0.0
    for (m, z), c in s.t.items():
        t = v_mono(m) * float(c)
        if z:
            t = t * cmath.exp(v_poly(dict(z)))
        out = out + t
    return complex(out)


def variables_of(s):
    """Names of free variables (transitively through atom payloads)."""
    seen = set()
    names = []

    def walk_atom(ai):
        if ai in seen:
            return
        seen.add(ai)
        a = CTX.atoms[ai]
        if a.kind == "var" and a.numeric is None:
            names.append(a.name)
        elif a.kind == "alg":
            names.append(a.name)
            walk_poly(a.payload)
        elif a.kind in ("sqrt", "inv"):
            walk_poly(a.payload)
        elif a.kind == "fn":
            for x in a.args:
                walk(x)

    def walk_poly(p):
        for m in p:
            for ai, ae in m:
                walk_atom(ai)

    def walk(x):
        for (m, z) in x.t:
            for ai, ae in m:
                walk_atom(ai)
            if z:
                walk_poly(dict(z))

    walk(s)
    return names


def random_env(names, rng, lo=0.3, hi=1.7):
    env = {}
    for n in names:
        a = CTX.by_key.get(("var", n)) or CTX.by_key.get(("alg", n))
        if a is not None and a.kind == "alg":
            continue
        x = rng.uniform(lo, hi)
        if a is not None and not a.positive and rng.random() < 0.5:
            x = -x
        env[n] = x
    # algebraic atoms: consistent values, random sign
    for n in names:
        a = CTX.by_key.get(("alg", n))
        if a is not None:
            val = cmath.sqrt(evaluate(Sym.from_poly(a.payload), env))
            env[n] = val if rng.random() < 0.5 else -val
    return env


def find_witness(s, seed=0, tries=20, tol=1e-9, env_filter=None):
    """Random numeric search for an assignment where s != 0. Returns (env, value) or None."""
    rng = random.Random(seed)
    names = variables_of(s)
    for _ in range(tries):
        env = random_env(names, rng)
        if env_filter is not None and not env_filter(env):
            continue
        try:
            val = evaluate(s, env)
        except (ZeroDivisionError, OverflowError, ValueError):
            continue
        if abs(val) > tol:
            return env, val
    return None


# ---------------------------------------------------------------------------------------------
# numpy helpers
# ---------------------------------------------------------------------------------------------


def symarray(name, shape, **kw):
    out = np.empty(shape, dtype=object)
    for idx in np.ndindex(*shape) if shape else [()]:
        out[idx] = var(name + "".join("_%d" % i for i in idx), **kw)
    return out


def toobj(a):
    """numeric array -> object array of exact Sym constants."""
    a = np.asarray(a)
    out = np.empty(a.shape, dtype=object)
    for idx in np.ndindex(*a.shape):
        out[idx] = Sym.const(a[idx])
    return out


def arr_is_zero(a):
    a = np.asarray(a, dtype=object)
    for idx in np.ndindex(*a.shape):
        x = a[idx]
        if isinstance(x, Sym):
            if not is_zero(x):
                return False, idx
        elif x != 0:
            return False, idx
    return True, None
