"""Small real grids with symbolic geometry, and the patches needed to run the real assembly pipeline on proxies.

A grid is built numerically by the real `Grid` constructor (topology, adjacency tables, colouring all come from the real code on
the concrete connectivity); its Numba data container is then replaced by one holding symbolic vertex coordinates and the geometric
quantities obtained by executing the real `Grid._compute_geometric_quantities` on those symbols (numpy facade: vlib/objnp.py).
"""

import contextlib
import itertools

import numpy as np

from vlib import sym as S
from vlib.objnp import ObjNumpy, patched


def api():
    import bempp_cl.api

    return bempp_cl.api


# ---- mesh zoo -------------------------------------------------------------------------------------

def tetra():
    v = np.array([[0.0, 0, 0], [1.1, 0.1, 0], [0.2, 0.9, 0.1], [0.3, 0.2, 1.2]]).T
    e = np.array([[0, 2, 1], [0, 1, 3], [1, 2, 3], [2, 0, 3]]).T
    return v, e


def octa(distort=True):
    s = [1.0, 1.3, 0.8] if distort else [1.0, 1.0, 1.0]
    v = np.array([[s[0], 0, 0], [-s[0] * 0.9, 0.1, 0], [0, s[1], 0.05], [0.1, -s[1], 0], [0, 0.05, s[2]], [0.05, 0, -s[2] * 1.1]]).T
    e = np.array([[0, 2, 4], [2, 1, 4], [1, 3, 4], [3, 0, 4], [2, 0, 5], [1, 2, 5], [3, 1, 5], [0, 3, 5]]).T
    return v, e


def cube12():
    v = np.array([[0, 0, 0], [1, 0, 0], [1, 1, 0], [0, 1, 0], [0, 0, 1], [1, 0, 1], [1, 1, 1], [0, 1, 1]], dtype=float).T * np.array([[1.0], [1.2], [0.7]])
    e = np.array([[0, 2, 1], [0, 3, 2], [4, 5, 6], [4, 6, 7], [0, 1, 5], [0, 5, 4], [1, 2, 6], [1, 6, 5], [2, 3, 7], [2, 7, 6], [3, 0, 4], [3, 4, 7]]).T
    return v, e


def screen(n=2):
    xs = np.linspace(0, 1, n + 1)
    v = []
    for j in range(n + 1):
        for i in range(n + 1):
            v.append([xs[i] + 0.03 * i * j, xs[j] * 1.1, 0.05 * i * i])
    e = []
    for j in range(n):
        for i in range(n):
            a = j * (n + 1) + i
            b, c, d = a + 1, a + n + 2, a + n + 1
            e.append([a, b, c])
            e.append([a, c, d])
    return np.array(v, dtype=float).T, np.array(e).T


def two_triangles(perm0=(0, 1, 2), perm1=(0, 1, 2), share=2):
    """Two triangles sharing an edge (share=2) or a vertex (share=1), with prescribed local numberings."""
    A, B, Cc, Dd, Ee = 0, 1, 2, 3, 4
    v = np.array([[0.0, 0, 0], [1.0, 0.1, 0], [0.2, 0.9, 0.3], [0.7, -0.8, 0.4], [-0.9, 0.2, 0.1]]).T
    t0 = [A, B, Cc]
    t1 = [B, A, Dd] if share == 2 else [A, Dd, Ee]
    e = np.array([[t0[i] for i in perm0], [t1[i] for i in perm1]]).T
    return v, e


def torus(n=3, m=3):
    """Closed genus-1 surface: n x m quadrilaterals of a (distorted) torus, each split into two triangles (outward orientation)."""
    v = []
    for i in range(n):
        for j in range(m):
            a, b = 2 * np.pi * i / n + 0.1 * j, 2 * np.pi * j / m + 0.05 * i
            r = 2.0 + (0.8 + 0.05 * i) * np.cos(b)
            v.append([r * np.cos(a), r * np.sin(a), (0.8 + 0.03 * j) * np.sin(b)])
    e = []
    for i in range(n):
        for j in range(m):
            p00, p10, p11, p01 = i * m + j, ((i + 1) % n) * m + j, ((i + 1) % n) * m + (j + 1) % m, i * m + (j + 1) % m
            e.append([p00, p10, p11])
            e.append([p00, p11, p01])
    return np.array(v, dtype=float).T, np.array(e).T


def octa_plus_tetra():
    """Two-component closed grid: the octahedron and a small tetrahedron beside it (elements 0..7 and 8..11)."""
    v1, e1 = octa()
    v2, e2 = tetra()
    v = np.hstack([v1, 0.4 * v2 + np.array([[3.0], [0.2], [0.1]])])
    e = np.hstack([e1, e2 + v1.shape[1]])
    return v, e


def two_tets_face():
    """Non-manifold multitrace-like grid: two tetrahedra glued along the face (1, 2, 3), which is kept once: 7 triangles, junction edges with 3 faces.
    Elements 0..3 form a closed surface (tetrahedron A), 4..6 the remaining faces of tetrahedron B."""
    v = np.array([[0.1, 0.0, 1.0], [0, 0, 0], [1.1, 0.1, 0], [0.3, 0.9, 0.1], [0.4, 0.3, -1.2]]).T
    e = np.array([[0, 1, 2], [0, 2, 3], [0, 3, 1], [1, 3, 2], [4, 2, 1], [4, 3, 2], [4, 1, 3]]).T
    return v, e


def fan3():
    """Non-manifold: three triangles on one edge."""
    v = np.array([[0.0, 0, 0], [1.0, 0, 0], [0.5, 1, 0], [0.5, -0.3, 0.9], [0.4, -0.5, -0.8]]).T
    e = np.array([[0, 1, 2], [1, 0, 3], [0, 1, 4]]).T
    return v, e


def make_grid(v, e, domain_indices=None):
    return api().Grid(np.asarray(v, dtype="float64"), np.asarray(e, dtype="uint32"), domain_indices)


# ---- symbolic geometry ------------------------------------------------------------------------------


class _GeomSelf:
    """Stand-in for `self` when executing Grid._compute_geometric_quantities on symbols."""

    def __init__(self, vertices, elements):
        self._vertices = vertices
        self._elements = elements

    vertices = property(lambda s: s._vertices)
    elements = property(lambda s: s._elements)
    number_of_elements = property(lambda s: s._elements.shape[1])
    jacobians = property(lambda s: s._jacobians)


def symbolic_geometry(elements, nv, tag="v"):
    """Execute the real geometric code on symbolic vertex coordinates. Returns the _GeomSelf carrying the results."""
    from bempp_cl.api.grid import grid as G

    V = S.symarray(tag, (3, nv))
    g = _GeomSelf(V, np.asarray(elements))
    with patched(G):
        G.Grid._compute_geometric_quantities(g)
    return g


def attach_symbolic(grid, tag="v"):
    """Replace the double-precision data container of a real grid by one with symbolic geometry."""
    from bempp_cl.api.grid import grid as G

    g = symbolic_geometry(grid.elements, grid.number_of_vertices, tag)
    d = grid._grid_data_double
    data = G.GridDataDouble(
        g._vertices, grid.elements, grid.edges, grid.element_edges, g._volumes, g._normals, g._jacobians,
        g._jacobian_inverse_transposed, g._diameters, g._integration_elements, g._centroids, grid.domain_indices,
        grid.vertex_on_boundary, d.element_neighbor_indices, d.element_neighbor_indexptr)
    grid._numeric_grid_data_double = d
    grid._grid_data_double = data
    grid._sym = g
    return g


def attach_free(grid, tag="v"):
    """Data container whose geometric fields are independent symbols (no relation between vertices, jacobians, normals ...):
    an assembler contract proved on it holds for every grid_data content; the relations are the contract of the geometry code."""
    from bempp_cl.api.grid import grid as G

    ne, nv = grid.number_of_elements, grid.number_of_vertices
    d = grid._grid_data_double
    V = S.symarray(tag, (3, nv))
    data = G.GridDataDouble(
        V, grid.elements, grid.edges, grid.element_edges, S.symarray(tag + "vol", (ne,), positive=True), S.symarray(tag + "n", (ne, 3)),
        S.symarray(tag + "J", (ne, 3, 2)), S.symarray(tag + "Ji", (ne, 3, 2)), S.symarray(tag + "diam", (ne,), positive=True),
        S.symarray(tag + "ie", (ne,), positive=True), S.symarray(tag + "c", (ne, 3)), grid.domain_indices,
        grid.vertex_on_boundary, d.element_neighbor_indices, d.element_neighbor_indexptr)
    grid._numeric_grid_data_double = d
    grid._grid_data_double = data
    return data


def detach(grid):
    grid._grid_data_double = grid._numeric_grid_data_double


def vertex_env(grid, tag="v", env=None):
    """Numeric assignment of the vertex symbols from the grid's real coordinates."""
    env = dict(env or {})
    for i in range(3):
        for j in range(grid.number_of_vertices):
            env["%s_%d_%d" % (tag, i, j)] = float(grid.vertices[i, j])
    return env


# ---- pipeline patches ---------------------------------------------------------------------------------


@contextlib.contextmanager
def object_pipeline(regular_rule=None, duffy=None, kernel_stubs=None):
    """Run the real assembly glue with object arrays:
       * helpers.get_type -> object dtypes (allocation dtype only)
       * triangle_gauss.rule -> `regular_rule(order)` if given (contract stub: generic points/weights)
       * duffy_galerkin.rule / number_of_quadrature_points -> `duffy` = {adjacency: (test_pts, trial_pts, weights)} (or order -> such a dict) if given
       * numba_kernels.<name> -> stubs, dict name -> callable
       * numpy facade inside duffy_galerkin (remap helpers allocate float64 arrays)
    """
    from bempp_cl.api.utils import helpers
    from bempp_cl.api.integration import triangle_gauss, duffy_galerkin
    from bempp_cl.core import numba_kernels as NK

    saved = [(helpers, "get_type", helpers.get_type)]
    helpers.get_type = lambda precision: helpers.TypeContainer(object, object, "double")
    if regular_rule is not None:
        saved.append((triangle_gauss, "rule", triangle_gauss.rule))
        triangle_gauss.rule = regular_rule
    if duffy is not None:
        saved.append((duffy_galerkin, "rule", duffy_galerkin.rule))
        saved.append((duffy_galerkin, "number_of_quadrature_points", duffy_galerkin.number_of_quadrature_points))
        dz = duffy if callable(duffy) else (lambda order: duffy)
        duffy_galerkin.rule = lambda order, adjacency: dz(order)[adjacency]
        duffy_galerkin.number_of_quadrature_points = lambda order, adjacency: len(dz(order)[adjacency][2])
    for name, fn in (kernel_stubs or {}).items():
        saved.append((NK, name, getattr(NK, name)))
        setattr(NK, name, fn)
    saved.append((duffy_galerkin, "_np", duffy_galerkin._np))
    duffy_galerkin._np = ObjNumpy()
    try:
        yield
    finally:
        for mod, name, val in reversed(saved):
            setattr(mod, name, val)


def sym_regular_rule(nq, tag="q"):
    pts = S.symarray(tag, (2, nq))
    wts = S.symarray(tag + "w", (nq,), positive=True)
    return lambda order: (pts, wts)


def sym_duffy(counts=None, tag="d"):
    counts = counts or {"coincident": 3, "edge_adjacent": 2, "vertex_adjacent": 1}
    out = {}
    for adj, n in counts.items():
        a = adj[0]
        out[adj] = (S.symarray(tag + a + "t", (2, n)), S.symarray(tag + a + "r", (2, n)), S.symarray(tag + a + "w", (n,), positive=True))
    return out


def stub_kernel(name, mode, numeric=None):
    """Uninterpreted kernel with the calling convention of the regular / singular kernels."""

    def regular(test_point, trial_points, test_normal, trial_normals, kernel_parameters):
        n = trial_points.shape[1]
        out = np.empty(n, dtype=object)
        for j in range(n):
            nrm = [] if test_normal is None else list(test_normal) + list(trial_normals[:, j])
            out[j] = S.fn(name, list(test_point) + list(trial_points[:, j]) + nrm + list(kernel_parameters), numeric)
        return out

    def singular(test_points, trial_points, test_normal, trial_normal, kernel_parameters):
        n = trial_points.shape[1]
        out = np.empty(n, dtype=object)
        for j in range(n):
            nrm = [] if test_normal is None else list(test_normal) + list(trial_normal)
            out[j] = S.fn(name, list(test_points[:, j]) + list(trial_points[:, j]) + nrm + list(kernel_parameters), numeric)
        return out

    return regular if mode == "regular" else singular


def attach_symbolic_barycentric(grid, tag="v"):
    """Symbolic geometry for a grid AND its barycentric refinement, consistent with each other: the refined vertices are produced by the real
    _create_barycentric_connectivity_array on the coarse symbols (midpoints, centroids), the geometric quantities of both grids by the real
    _compute_geometric_quantities. Returns (coarse _GeomSelf, barycentric _GeomSelf)."""
    from bempp_cl.api.grid import grid as G

    g = attach_symbolic(grid, tag)
    bary = grid.barycentric_refinement
    f = G._create_barycentric_connectivity_array
    f = getattr(f, "py_func", f)
    with patched(G):
        NV, NE = f(g._vertices, grid.elements, grid.element_edges, grid.edges, grid.number_of_edges)
    NE = np.array([[int(S.Sym._coerce(x).const_value()) for x in row] for row in NE])
    if not np.array_equal(NE, np.asarray(bary.elements).astype(int)):
        raise AssertionError("symbolic and numeric barycentric connectivity differ")
    gb = _GeomSelf(NV, np.asarray(bary.elements))
    with patched(G):
        G.Grid._compute_geometric_quantities(gb)
    d = bary._grid_data_double
    data = G.GridDataDouble(
        gb._vertices, bary.elements, bary.edges, bary.element_edges, gb._volumes, gb._normals, gb._jacobians,
        gb._jacobian_inverse_transposed, gb._diameters, gb._integration_elements, gb._centroids, bary.domain_indices,
        bary.vertex_on_boundary, d.element_neighbor_indices, d.element_neighbor_indexptr)
    bary._numeric_grid_data_double = d
    bary._grid_data_double = data
    bary._sym = gb
    return g, gb
