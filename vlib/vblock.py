"""Mechanical extraction of a block (the body of one top-level loop) of a real function into a stand-alone function text for the V-engine.

    source = extract_loop_body(func, iter_text, occurrence, name, params, returns)

The block is `ast.unparse` of the statements of the selected loop body, re-read from the real function on every run; nothing is rewritten by hand.
What the extraction drops / assumes (stated in the evidence): the rest of the function (its effect enters only through the `requires` of the block
contract, which are discharged elsewhere or listed as assumed); the iteration over the outer loop (the block contract is per iteration); with
`opaque_ok`, expressions outside the V-engine subset evaluate to unconstrained values (sound over-approximation for pure expressions)."""

import ast
import inspect
import textwrap


def loop_nodes(func):
    f = getattr(func, "py_func", func)
    fd = ast.parse(textwrap.dedent(inspect.getsource(f))).body[0]
    return fd, [st for st in fd.body if isinstance(st, ast.For)]


class _RecordToNames(ast.NodeTransformer):
    """`rec.attr` -> `rec_attr` for the listed record names (mechanical renaming: fields of a read-only record become parameters of the block)"""

    def __init__(self, records):
        self.records = set(records)

    def visit_Attribute(self, node):
        self.generic_visit(node)
        if isinstance(node.value, ast.Name) and node.value.id in self.records:
            return ast.copy_location(ast.Name(id="%s_%s" % (node.value.id, node.attr), ctx=node.ctx), node)
        return node


def extract_loop_body(func, iter_text, occurrence, name, params, returns, inner=(), records=()):
    """`inner`: sequence of (iter text, occurrence) descending into loops nested directly in the body of the selected loop."""
    fd, loops = loop_nodes(func)
    hits = [lp for lp in loops if ast.unparse(lp.iter) == iter_text]
    if len(hits) <= occurrence:
        raise LookupError("loop `for ... in %s` #%d not found in %s" % (iter_text, occurrence, fd.name))
    lp = hits[occurrence]
    for itext, occ in inner:
        sub = [st for st in lp.body if isinstance(st, ast.For) and ast.unparse(st.iter) == itext]
        if len(sub) <= occ:
            raise LookupError("inner loop `for ... in %s` #%d not found in %s" % (itext, occ, fd.name))
        lp = sub[occ]
    if records:
        lp = _RecordToNames(records).visit(lp)
        ast.fix_missing_locations(lp)
    body = "\n".join(textwrap.indent(ast.unparse(st), "    ") for st in lp.body)
    target = ast.unparse(lp.target)
    src = "def %s(%s):\n%s\n    return %s\n" % (name, ", ".join(params), body, ", ".join(returns))
    return src, target, lp.lineno


class _SelfToNames(ast.NodeTransformer):
    """`self.attr` and `self.a.b` -> `attr` / `a_b` (mechanical renaming for methods: attributes of self become parameters of the block)"""

    def visit_Attribute(self, node):
        self.generic_visit(node)
        if isinstance(node.value, ast.Name) and node.value.id == "self":
            return ast.copy_location(ast.Name(id=node.attr.lstrip("_") if node.attr.startswith("_") else node.attr, ctx=node.ctx), node)
        return node


def extract_method_loop_body(func, iter_text, occurrence, name, params, returns, inner=(), records=()):
    """like extract_loop_body for a method: `self.x` becomes the parameter `x` (leading underscores dropped)"""
    f = getattr(func, "py_func", func)
    fd = ast.parse(textwrap.dedent(inspect.getsource(f))).body[0]
    loops = [st for st in fd.body if isinstance(st, ast.For)]
    hits = [lp for lp in loops if ast.unparse(lp.iter) == iter_text]
    if len(hits) <= occurrence:
        raise LookupError("loop `for ... in %s` #%d not found in %s" % (iter_text, occurrence, fd.name))
    if inner or records:
        raise LookupError("inner / records are not supported for method blocks")
    lp = _SelfToNames().visit(hits[occurrence])
    ast.fix_missing_locations(lp)
    body = "\n".join(textwrap.indent(ast.unparse(st), "    ") for st in lp.body)
    src = "def %s(%s):\n%s\n    return %s\n" % (name, ", ".join(params), body, ", ".join(returns))
    return src, ast.unparse(lp.target), lp.lineno


def extract_method_body(func, name, params, returns):
    """the whole body of a method as a stand-alone function: `self.x` becomes the parameter / local `x` (leading underscores dropped), the docstring is dropped,
    and the listed names are returned at the end (a method that stores its results in attributes of self)"""
    f = getattr(func, "py_func", func)
    fd = ast.parse(textwrap.dedent(inspect.getsource(f))).body[0]
    fd = _SelfToNames().visit(fd)
    ast.fix_missing_locations(fd)
    stmts = [st for st in fd.body if not (isinstance(st, ast.Expr) and isinstance(st.value, ast.Constant))]
    body = "\n".join(textwrap.indent(ast.unparse(st), "    ") for st in stmts)
    src = "def %s(%s):\n%s\n    return %s\n" % (name, ", ".join(params), body, ", ".join(returns))
    return src, "", fd.lineno


def _stored_names(st):
    stored = set()
    for node in ast.walk(st):
        if isinstance(node, (ast.Assign, ast.AugAssign)):
            for t in (node.targets if isinstance(node, ast.Assign) else [node.target]):
                base = t
                while isinstance(base, ast.Subscript):
                    base = base.value
                if isinstance(base, ast.Name):
                    stored.add(base.id)
    return stored


def extract_assignments(func, name, params, returns, targets, records=()):
    """program slice: the top-level assignment statements of the function whose targets are among `targets` (in source order), as a stand-alone function.
    Everything else of the function is dropped; the values the slice reads from the rest enter as parameters."""
    f = getattr(func, "py_func", func)
    f = getattr(f, "__wrapped__", f)
    fd = ast.parse(textwrap.dedent(inspect.getsource(f))).body[0]
    picked = []
    for st in fd.body:
        if isinstance(st, ast.For):
            # a top-level loop belongs to the slice if it stores into one of the targets (e.g. `arr0[...] = True`)
            stored = set()
            for node in ast.walk(st):
                if isinstance(node, (ast.Assign, ast.AugAssign)):
                    for t in (node.targets if isinstance(node, ast.Assign) else [node.target]):
                        base = t
                        while isinstance(base, ast.Subscript):
                            base = base.value
                        if isinstance(base, ast.Name):
                            stored.add(base.id)
            if stored & set(targets):
                picked.append(st)
            continue
        if isinstance(st, ast.If):
            # a top-level conditional belongs to the slice if one of its branches stores into one of the targets
            if _stored_names(st) & set(targets):
                picked.append(st)
            continue
        if isinstance(st, (ast.Assign, ast.AugAssign)):
            tg = st.targets if isinstance(st, ast.Assign) else [st.target]
            names = set()
            for t in tg:
                for node in ast.walk(t):
                    if isinstance(node, ast.Name):
                        names.add(node.id)
                        break
            if names & set(targets):
                picked.append(st)
    if not picked:
        raise LookupError("no top-level assignment to %s in %s" % (sorted(targets), fd.name))
    picked = [_SelfToNames().visit(st) for st in picked]
    if records:
        picked = [_RecordToNames(records).visit(st) for st in picked]
    for st in picked:
        ast.fix_missing_locations(st)
    body = "\n".join(textwrap.indent(ast.unparse(st), "    ") for st in picked)
    src = "def %s(%s):\n%s\n    return %s\n" % (name, ", ".join(params), body, ", ".join(returns))
    return src, "", picked[0].lineno
