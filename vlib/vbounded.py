"""Bounded-instance counterexample search for block contracts (never used for proving).

When the solvers cannot decide a quantified obligation of a block (or refute it only through over-approximated values), the block is regenerated in the V-engine's
bounded-instance mode (index ranges of at most B entries expanded, sizes capped, unbounded quantifiers instantiated on a small box), a model of the negated
obligation is requested from z3 and read back as concrete arguments, and the REAL block text (the same extracted source, run by CPython) is executed on them.
Only if that native run satisfies the block's `requires` and violates one of its `ensures` is the counterexample reported - as a violation with a failing
input.  Everything else (no model, model that does not replay) leaves the obligation undecided."""

import importlib
import re

import numpy as np
import z3

from vlib import vengine as V
from vlib import vnative as VN
from vlib import smt


def _sexpr_values(text):
    """parse the answer of (get-value (...)): list of values (int / bool) in order"""
    toks = re.findall(r"\(|\)|[^\s()]+", text)
    pos = [0]

    def parse():
        t = toks[pos[0]]
        pos[0] += 1
        if t == "(":
            out = []
            while toks[pos[0]] != ")":
                out.append(parse())
            pos[0] += 1
            return out
        return t

    tree = parse()

    def val(x):
        if isinstance(x, list):
            if len(x) == 2 and x[0] == "-":
                return -val(x[1])
            raise ValueError("unexpected value %r" % (x,))
        if x in ("true", "false"):
            return x == "true"
        return int(x)

    return [val(pair[1]) for pair in tree]


def search(blocks_mod, name, ob_name, B=3, timeout_s=20):
    """Returns (args dict, failing ensures text) of a natively confirmed counterexample, or (None, reason)."""
    from vlib import vrun as VR
    from vlib import vblock as VB

    b = importlib.import_module(blocks_mod).BLOCKS[name]
    f = VR.get_function(*b["function"])
    _, _, src = VR.block_obligations(blocks_mod, name)
    V.BOUNDED["B"], V.BOUNDED["side"] = B, []
    try:
        eng = V.Engine(f, dict(b["contract"], name=name), b.get("callees", {}), {"_np": None}, source=src)
        obs = eng.generate()
        side = list(V.BOUNDED["side"])
    except Exception as e:  # noqa
        return None, "bounded regeneration failed: %s: %s" % (type(e).__name__, e)
    finally:
        V.BOUNDED["B"], V.BOUNDED["side"] = None, []
    ob = next((o for o in obs if o.name == ob_name), None)
    if ob is None or ob.expect_sat:
        return None, "obligation not found in the bounded regeneration"
    cap = B + 2
    terms, layout = [], []
    for arg, decl in b["contract"]["args"].items():
        v = eng.entry_env[arg]
        if decl[0] == "opt":
            layout.append((arg + "__isnone", "flag", 1))
            terms.append(eng.entry_env[arg + "__isnone"])
            decl = decl[1]
        if decl[0] == "int":
            layout.append((arg, "int", 1))
            terms.append(v)
        elif decl[0] == "arr1":
            layout.append((arg, "arr1", 1 + cap))
            terms.append(v.length)
            terms.extend(V.as_int(v.get(z3.IntVal(i))) for i in range(cap))
        elif decl[0] == "arr2":
            layout.append((arg, "arr2", 2 + cap * cap))
            terms.extend(V.as_int(d) for d in v.shape)
            terms.extend(v.get(z3.IntVal(i), z3.IntVal(j)) for i in range(cap) for j in range(cap))
        elif decl[0] == "intlist":
            layout.append((arg, "intlist", cap + 2))
            terms.extend(v.member(z3.IntVal(t)) for t in range(-1, cap + 1))
        else:
            return None, "argument kind %s cannot be read back from a model" % decl[0]
    s = z3.Solver()
    for a in ob.assumptions + side:
        s.add(a)
    s.add(z3.Not(ob.goal))
    for t in terms:
        s.add(t == t)       # mentions every argument, so that its constant is declared in the SMT-LIB text even if the obligation does not depend on it
    text = s.to_smt2() + "\n(get-value (%s))\n" % " ".join(t.sexpr() for t in terms)
    r, rest = smt._run([smt.Z3_BIN, "-T:%d" % timeout_s], text, timeout_s)
    if r != "sat":
        return None, "no model of the bounded instance (%s)" % r
    try:
        vals = _sexpr_values(rest)
    except Exception as e:  # noqa
        return None, "model could not be read back: %s: %s" % (e, rest[:300])
    args, k = {}, 0
    for arg, kind, n in layout:
        chunk = vals[k:k + n]
        k += n
        if kind == "flag":
            args[arg] = bool(chunk[0])
        elif kind == "int":
            args[arg] = int(chunk[0])
        elif kind == "arr1":
            ln = max(0, min(cap, int(chunk[0])))
            args[arg] = [int(x) for x in chunk[1:1 + ln]]
        elif kind == "arr2":
            r0, r1 = max(0, min(cap, int(chunk[0]))), max(0, min(cap, int(chunk[1])))
            flat = chunk[2:]
            args[arg] = [[int(flat[i * cap + j]) for j in range(r1)] for i in range(r0)]
        else:
            args[arg] = [t for t, m in zip(range(-1, cap + 1), chunk) if m]
    ok, msg = replay(blocks_mod, name, args)
    if ok is False:
        return args, msg
    return None, "model of the bounded instance does not replay on the real block (%s)" % msg


def replay(blocks_mod, name, args):
    """Run the extracted block natively on concrete arguments. Returns (True/False/None, message): None = the arguments are outside `requires`."""
    from vlib import vrun as VR

    b = importlib.import_module(blocks_mod).BLOCKS[name]
    block, contract, params = VR.native_block(blocks_mod, name, helpers=tuple(b.get("callees", {})))
    conc = {}
    for arg, decl in contract["args"].items():
        v = args[arg]
        if decl[0] == "opt":
            if args.get(arg + "__isnone"):
                conc[arg] = None
                continue
            decl = decl[1]
        if decl[0] == "arr1":
            conc[arg] = np.array(v, dtype=int).reshape(-1)
        elif decl[0] == "arr2":
            shape = tuple((len(v) if i == 0 else (len(v[0]) if v else (s_ if isinstance(s_, int) else 0))) for i, s_ in enumerate(decl[1]))
            conc[arg] = np.array(v, dtype=int).reshape(shape) if v else np.zeros(shape, dtype=int)
        elif decl[0] == "intlist":
            conc[arg] = list(v)
        else:
            conc[arg] = int(v)
    env = VN.bind_shapes(contract, conc)
    try:
        for t in contract.get("requires", []):
            if not VN.evaluate(t, env):
                return None, "outside requires: %s" % t[:80]
    except Exception as e:  # noqa
        return None, "requires could not be evaluated: %s" % e
    old = {"old_" + k: (v.copy() if isinstance(v, np.ndarray) else (list(v) if isinstance(v, list) else v)) for k, v in env.items()}
    try:
        res = block(*[(conc[p].copy() if isinstance(conc[p], np.ndarray) else (list(conc[p]) if isinstance(conc[p], list) else conc[p])) for p in params])
    except Exception as e:  # noqa
        return False, "the block raises %s: %s" % (type(e).__name__, e)
    env.update(old)
    env["result"] = res
    if isinstance(res, tuple):
        for i, r in enumerate(res):
            env["result_%d" % i] = r
    for t in contract.get("ensures", []):
        try:
            good = VN.evaluate(t, env)
        except Exception as e:  # noqa
            return None, "ensures could not be evaluated: %s" % e
        if not good:
            return False, "ensures fails: %s" % t[:160]
    return True, "ok"


def replay_block_input(blocks_mod, name, args):
    ok, msg = replay(blocks_mod, name, args)
    return {"violates": ok is False, "message": msg}
